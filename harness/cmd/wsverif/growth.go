package main

import (
	"bufio"
	"bytes"
	"errors"
	"fmt"
	"io"
	"net"
	"net/http"
	"net/url"
	"strings"
	"time"

	"github.com/gobwas/ws"
	"github.com/gobwas/ws/wsutil"
	"wsverif/vh"
)

func init() { drivers["growth"] = growth }

type dlConn struct {
	memConn
	calls []string
}

func dlKind(t time.Time) string {
	if t.IsZero() {
		return "zero"
	}
	return "future"
}
func (c *dlConn) SetDeadline(t time.Time) error {
	c.calls = append(c.calls, "deadline:"+dlKind(t))
	return nil
}
func (c *dlConn) SetReadDeadline(t time.Time) error {
	c.calls = append(c.calls, "read:"+dlKind(t))
	return nil
}
func (c *dlConn) SetWriteDeadline(t time.Time) error {
	c.calls = append(c.calls, "write:"+dlKind(t))
	return nil
}

type dlRW struct {
	conn *dlConn
	hdr  http.Header
}

func (h *dlRW) Header() http.Header         { return h.hdr }
func (h *dlRW) Write(p []byte) (int, error) { return h.conn.Write(p) }
func (h *dlRW) WriteHeader(int)             {}
func (h *dlRW) Hijack() (net.Conn, *bufio.ReadWriter, error) {
	return h.conn, bufio.NewReadWriter(bufio.NewReader(h.conn), bufio.NewWriter(h.conn)), nil
}

// growth logs records for behaviour outside the 20 listed properties (WsMisc.tla).
func growth(c *ctx) {
	out := vh.NewOut(c.dir, "growth", 50000)
	defer out.Close()
	meta := &vh.Meta{Property: "GROWTH", Tier: c.tier, Seed: c.seed, Rule: "specification growth records (WsMisc.tla)"}
	n := 0
	emit := func(rec map[string]interface{}) { out.Emit(rec, true); n++ }
	// Rsv / RsvBits
	for i := 0; i < 8; i++ {
		r1, r2, r3 := i&4 != 0, i&2 != 0, i&1 != 0
		v := ws.Rsv(r1, r2, r3)
		a, b, cc := ws.RsvBits(v)
		h := ws.Header{Rsv: v}
		emit(map[string]interface{}{"k": "rsv", "key": fmt.Sprintf("rsv/%d", i), "r1": r1, "r2": r2, "r3": r3, "rsv": int(v),
			"back": []bool{a, b, cc}, "hdr": []bool{h.Rsv1(), h.Rsv2(), h.Rsv3()}})
	}
	// SelectFromSlice around the 16-element threshold
	for _, sz := range []int{0, 1, 2, 15, 16, 17, 18, 40} {
		var accept []string
		for i := 0; i < sz; i++ {
			accept = append(accept, fmt.Sprintf("proto-%d", i*3))
		}
		probes := []string{"", "proto-0", "proto-3", "proto-1", fmt.Sprintf("proto-%d", (sz-1)*3), fmt.Sprintf("proto-%d", sz*3), "PROTO-0", "proto-45", "proto-48", "proto-51"}
		f := ws.SelectFromSlice(accept)
		answers := []bool{}
		for _, p := range probes {
			answers = append(answers, f(p))
		}
		if accept == nil {
			accept = []string{}
		}
		emit(map[string]interface{}{"k": "select", "key": fmt.Sprintf("select/%d", sz), "accept": accept, "probes": probes, "answers": answers})
	}
	eq := ws.SelectEqual("chat")
	emit(map[string]interface{}{"k": "select", "key": "selectequal", "accept": []string{"chat"}, "probes": []string{"chat", "Chat", "", "chat "}, "answers": []bool{eq("chat"), eq("Chat"), eq(""), eq("chat ")}})
	// StatusCode predicates
	for _, code := range []int{0, 1, 999, 1000, 1004, 1005, 1006, 1007, 1015, 1016, 2999, 3000, 3999, 4000, 4999, 5000, 65535} {
		s := ws.StatusCode(code)
		emit(map[string]interface{}{"k": "status", "key": fmt.Sprintf("status/%d", code), "code": code, "notUsed": s.IsNotUsed(), "protocolSpec": s.IsProtocolSpec(),
			"appSpec": s.IsApplicationSpec(), "privateSpec": s.IsPrivateSpec(), "reserved": s.IsProtocolReserved(), "empty": s.Empty()})
	}
	// State bit helpers
	for st := 0; st < 16; st++ {
		s := ws.State(st)
		for bit := 0; bit < 4; bit++ {
			b := ws.State(1 << bit)
			emit(map[string]interface{}{"k": "state", "key": fmt.Sprintf("state/%d/%d", st, bit), "st": st, "bit": 1 << bit,
				"is": s.Is(b), "set": int(s.Set(b)), "clear": int(s.Clear(b)),
				"server": s.ServerSide(), "client": s.ClientSide(), "extended": s.Extended(), "fragmented": s.Fragmented()})
		}
	}
	// StatusCode.In / IsProtocolDefined
	for _, code := range []int{0, 999, 1000, 1001, 1002, 1003, 1004, 1005, 1006, 1007, 1008, 1009, 1010, 1011, 1012, 1015, 1016, 2999, 3000, 4999, 5000} {
		s := ws.StatusCode(code)
		emit(map[string]interface{}{"k": "statusdef", "key": fmt.Sprintf("statusdef/%d", code), "code": code, "defined": s.IsProtocolDefined(),
			"inApp": s.In(ws.StatusRangeApplication), "inPrivate": s.In(ws.StatusRangePrivate), "inProtocol": s.In(ws.StatusRangeProtocol), "inNotInUse": s.In(ws.StatusRangeNotInUse)})
	}
	// frame constructors and the one-call message writers
	for _, ln := range []int{0, 1, 125, 126, 70000} {
		p := vh.PBytes(4, 0, ln)
		ctor := func(name string, f ws.Frame, op int) {
			emit(map[string]interface{}{"k": "ctor", "key": fmt.Sprintf("ctor/%s/%d", name, ln), "name": name, "wantOp": op, "op": int(f.Header.OpCode), "fin": f.Header.Fin, "rsv": int(f.Header.Rsv),
				"masked": f.Header.Masked, "len": int(f.Header.Length), "plen": len(f.Payload), "payOK": bytes.Equal(f.Payload, p)})
		}
		ctor("NewTextFrame", ws.NewTextFrame(p), 1)
		ctor("NewBinaryFrame", ws.NewBinaryFrame(p), 2)
		ctor("NewFrame", ws.NewFrame(ws.OpContinuation, true, p), 0)
		if ln <= 125 {
			ctor("NewPingFrame", ws.NewPingFrame(p), 9)
			ctor("NewPongFrame", ws.NewPongFrame(p), 10)
			ctor("NewCloseFrame", ws.NewCloseFrame(p), 8)
		}
		type wfn struct {
			name   string
			client bool
			op     int
			f      func(io.Writer) error
		}
		for _, w := range []wfn{
			{"WriteServerMessage", false, 2, func(d io.Writer) error { return wsutil.WriteServerMessage(d, ws.OpBinary, p) }},
			{"WriteServerText", false, 1, func(d io.Writer) error { return wsutil.WriteServerText(d, p) }},
			{"WriteServerBinary", false, 2, func(d io.Writer) error { return wsutil.WriteServerBinary(d, p) }},
			{"WriteClientMessage", true, 1, func(d io.Writer) error { return wsutil.WriteClientMessage(d, ws.OpText, p) }},
			{"WriteClientText", true, 1, func(d io.Writer) error { return wsutil.WriteClientText(d, p) }},
			{"WriteClientBinary", true, 2, func(d io.Writer) error { return wsutil.WriteClientBinary(d, p) }},
			{"WriteMessage", ln%2 == 0, 2, func(d io.Writer) error {
				st := ws.StateServerSide
				if ln%2 == 0 {
					st = ws.StateClientSide
				}
				return wsutil.WriteMessage(d, st, ws.OpBinary, p)
			}},
		} {
			var d bytes.Buffer
			before := append([]byte(nil), p...)
			err := w.f(&d)
			fs, rest := vh.ParseFrames(d.Bytes())
			rec := map[string]interface{}{"k": "wmsg", "key": fmt.Sprintf("wmsg/%s/%d", w.name, ln), "err": err != nil, "frames": len(fs), "rest": len(rest),
				"client": w.client, "wantOp": w.op, "callerIntact": bytes.Equal(before, p), "op": -1, "fin": false, "rsv": 0, "masked": false, "payOK": false}
			if len(fs) == 1 {
				rec["op"], rec["fin"], rec["rsv"], rec["masked"], rec["payOK"] = fs[0].Op, fs[0].Fin, fs[0].Rsv, fs[0].Masked, bytes.Equal(fs[0].Raw, p)
			}
			emit(rec)
		}
	}
	// Upgrader callback order
	hdrs := [][2]string{{"Host", "h"}, {"X-A", "1"}, {"Upgrade", "websocket"}, {"Cookie", "c=d"}, {"Connection", "Upgrade"}, {"Sec-WebSocket-Version", "13"},
		{"X-B", "2"}, {"Sec-WebSocket-Key", "dGhlIHNhbXBsZSBub25jZQ=="}, {"Origin", "o"}}
	for rot := 0; rot < len(hdrs); rot++ {
		for rejectAt := 0; rejectAt <= 7; rejectAt++ {
			order := append(append([][2]string{}, hdrs[rot:]...), hdrs[:rot]...)
			var req strings.Builder
			req.WriteString("GET /x HTTP/1.1\r\n")
			lines := []string{}
			for _, kv := range order {
				req.WriteString(kv[0] + ": " + kv[1] + "\r\n")
				switch kv[0] {
				case "Host":
					lines = append(lines, "host")
				case "X-A", "X-B", "Cookie", "Origin":
					lines = append(lines, "header:"+kv[0])
				}
			}
			req.WriteString("\r\n")
			var calls []string
			step := func(name string) error {
				calls = append(calls, name)
				if rejectAt != 0 && len(calls) == rejectAt {
					return errors.New("rejected")
				}
				return nil
			}
			u := ws.Upgrader{
				OnRequest:       func(uri []byte) error { return step("request") },
				OnHost:          func(h []byte) error { return step("host") },
				OnHeader:        func(k, v []byte) error { return step("header:" + string(k)) },
				OnBeforeUpgrade: func() (ws.HandshakeHeader, error) { return nil, step("before") },
			}
			u.Upgrade(&rwBuf{r: strings.NewReader(req.String())})
			if calls == nil {
				calls = []string{}
			}
			emit(map[string]interface{}{"k": "callbacks", "key": fmt.Sprintf("callbacks/%d/%d", rot, rejectAt), "lines": lines, "rejectAt": rejectAt, "calls": calls})
		}
	}
	// HTTPUpgrader deadlines
	for _, timeout := range []bool{false, true} {
		for _, good := range []bool{true, false} {
			raw := "GET /x HTTP/1.1\r\nHost: h\r\nUpgrade: websocket\r\nConnection: Upgrade\r\nSec-WebSocket-Version: 13\r\nSec-WebSocket-Key: dGhlIHNhbXBsZSBub25jZQ==\r\n\r\n"
			if !good {
				raw = strings.Replace(raw, "websocket", "nope", 1)
			}
			req, _ := http.ReadRequest(bufio.NewReader(strings.NewReader(raw)))
			conn := &dlConn{memConn: memConn{r: bytes.NewReader(nil)}}
			u := ws.HTTPUpgrader{}
			if timeout {
				u.Timeout = time.Second
			}
			u.Upgrade(req, &dlRW{conn: conn, hdr: http.Header{}})
			emit(map[string]interface{}{"k": "deadlines", "key": fmt.Sprintf("deadlines/%v/%v", timeout, good), "timeout": timeout, "calls": conn.calls})
		}
	}
	// Dialer.OnStatusError
	for i, resp := range []string{"HTTP/1.1 403 Forbidden\r\nContent-Length: 5\r\nX-Why: because\r\n\r\nnope!", "HTTP/1.1 200 OK\r\n\r\n", "HTTP/1.1 500 Internal Server Error\r\nContent-Length: 0\r\n\r\n"} {
		for _, rb := range []int{0, 16, 64} {
			var got []byte
			var st, calls int
			d := ws.Dialer{ReadBufferSize: rb, OnStatusError: func(status int, reason []byte, r io.Reader) { st = status; calls++; got, _ = io.ReadAll(r) }}
			pc := &peerConn{chunk: []int{7}}
			pc.build = func(string) []byte { return []byte(resp) }
			uu, _ := url.Parse("ws://h/x")
			d.Upgrade(pc, uu)
			want := 403
			if i == 1 {
				want = 200
			} else if i == 2 {
				want = 500
			}
			emit(map[string]interface{}{"k": "statuserror", "key": fmt.Sprintf("statuserror/%d/%d", i, rb), "response": resp, "replayed": string(got), "status": st, "wantStatus": want, "calls": calls})
		}
	}
	// callback errors reach the caller, and nothing of the stream is delivered afterwards
	errCb := errors.New("callback says no")
	for _, which := range []string{"intermediate", "continuation"} {
		for _, via := range []string{"NextFrame", "Read"} {
			stream := append(vh.BuildFrame(1, false, 0, true, [4]byte{1, 2, 3, 4}, []byte("ab")), vh.BuildFrame(9, true, 0, true, [4]byte{5, 6, 7, 8}, []byte("p"))...)
			stream = append(stream, vh.BuildFrame(0, true, 0, true, [4]byte{9, 9, 9, 9}, []byte("cd"))...)
			rd := &wsutil.Reader{Source: bytes.NewReader(stream), State: ws.StateServerSide}
			if which == "intermediate" {
				rd.OnIntermediate = func(ws.Header, io.Reader) error { return errCb }
			} else {
				rd.OnContinuation = func(ws.Header, io.Reader) error { return errCb }
			}
			rd.NextFrame()
			var err error
			var data []byte
			buf := make([]byte, 8)
			for i := 0; i < 10 && err == nil; i++ {
				var k int
				if via == "NextFrame" && i == 1 {
					_, err = rd.NextFrame()
					continue
				}
				k, err = rd.Read(buf)
				data = append(data, buf[:k]...)
			}
			kind := "other"
			if err == errCb {
				kind = "callback"
			}
			emit(map[string]interface{}{"k": "cberr", "key": "cberr/" + which + "/" + via, "err": kind, "noLater": !bytes.Contains(data, []byte("cd")) || which == "continuation"})
		}
	}
	meta.Evaluations = n
	meta.Distinct = n
	out.Close()
	meta.Files = map[string][]string{"records": out.Files}
	meta.Write(c.dir)
}
