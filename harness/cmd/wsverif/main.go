// Command wsverif drives the real gobwas/ws code (built from /repo) and logs
// what it observes as ndjson records/traces for TLC to judge.
package main

import (
	"encoding/json"
	"flag"
	"fmt"
	"os"
	"path/filepath"
	"runtime/debug"
	"runtime/pprof"
	"sort"
	"strconv"

	"wsverif/vh"
)

type ctx struct {
	dir      string
	tier     string
	seed     int64
	thorough bool
}

var drivers = map[string]func(*ctx){}

func main() {
	if len(os.Args) < 2 {
		names := []string{}
		for k := range drivers {
			names = append(names, k)
		}
		sort.Strings(names)
		fmt.Println("usage: wsverif <driver> -out dir -tier quick|thorough -seed N; drivers:", names)
		os.Exit(2)
	}
	name := os.Args[1]
	fs := flag.NewFlagSet(name, flag.ExitOnError)
	c := &ctx{}
	fs.StringVar(&c.dir, "out", ".", "output directory")
	fs.StringVar(&c.tier, "tier", "quick", "quick|thorough")
	seed := fs.String("seed", "1", "seed")
	fs.Parse(os.Args[2:])
	c.seed, _ = strconv.ParseInt(*seed, 10, 64)
	c.thorough = c.tier == "thorough"
	d, ok := drivers[name]
	if !ok {
		vh.Fatal("unknown driver %q", name)
	}
	if err := os.MkdirAll(c.dir, 0o755); err != nil {
		vh.Fatal("%v", err)
	}
	if pf := os.Getenv("VERIF_CPUPROFILE"); pf != "" {
		f, _ := os.Create(pf)
		pprof.StartCPUProfile(f)
		defer pprof.StopCPUProfile()
	}
	// a panic that reaches the top of the main goroutine while a scenario runs is recorded with that
	// scenario's key (exit 3), so that the check can confirm it by running the scenario alone
	defer func() {
		if p := recover(); p != nil {
			rec, _ := json.Marshal(map[string]string{"key": vh.Current, "panic": fmt.Sprint(p), "stack": string(debug.Stack())})
			os.WriteFile(filepath.Join(c.dir, "panic.json"), rec, 0o644)
			fmt.Fprintf(os.Stderr, "wsverif: panic in scenario %q: %v\n", vh.Current, p)
			os.Exit(3)
		}
	}()
	d(c)
}
