package main

import (
	"errors"
	"fmt"
	"io"

	"github.com/gobwas/ws"
	"github.com/gobwas/ws/wsflate"
	"github.com/gobwas/ws/wsutil"
	"wsverif/vh"
)

// ---------------------------------------------------------------- reader scenarios

type rframe struct {
	Op     int   `json:"op"`
	Fin    bool  `json:"fin"`
	Rsv    int   `json:"rsv"`
	Masked bool  `json:"masked"`
	Mask   []int `json:"mask"`
	Len    int   `json:"len"`
	Pay    []int `json:"pay"`
	Hs     int   `json:"hs"`
	Ps     int   `json:"ps"`
	Pe     int   `json:"pe"`
	Base   int   `json:"base"`
	raw    []byte
}

type rscenario struct {
	Ev       string   `json:"ev"`
	Key      string   `json:"key"`
	Side     string   `json:"side"`
	Ext      bool     `json:"ext"`
	Extended bool     `json:"extended"`
	Utf8     bool     `json:"utf8"`
	Max      int      `json:"max"`
	Skip     bool     `json:"skip"` // Reader.SkipHeaderCheck
	Coded    bool     `json:"coded"`
	Cbs      bool     `json:"cbs"`
	Frames   []rframe `json:"frames"`
	Cut      int      `json:"cut"`
	CutKind  string   `json:"cutKind"`
	Chunk    []int    `json:"chunk"`
	Entry    string   `json:"entry"`
	Buf      int      `json:"buf"`
	Discard  int      `json:"discard"` // Discard() after this many Reads of each message; -1 never
	Want     []int    `json:"want"`
	DataErr  bool     `json:"dataErr"` // the transport returns its final bytes together with the end error
	// SkipEmptyCtl: a control frame without payload is neither read nor discarded before the next
	// NextFrame (there is nothing to receive; wsutil.ControlHandler does not read an empty payload)
	SkipEmptyCtl bool `json:"skipEmptyCtl"`
	// CbRead: what the OnIntermediate callback reads of the control payload: 0 everything (until
	// EOF), k > 0 one Read of at most k bytes, -1 nothing.  Whatever it leaves is the reader's to drop.
	CbRead int `json:"cbRead"`
	// ContRead: the OnContinuation callback takes up to k bytes of the continuation frame's payload
	// out of its reader with one Read (0: none).  These bytes belong to the message all the same.
	ContRead int `json:"contRead"`
	// ContErr k > 0: the k-th call of the OnContinuation callback returns an error.  The caller gets
	// that error, gives the message up with Discard() and goes on with the next one.
	ContErr int `json:"contErr"`
	// DiscardInvalid: after a Read has reported invalid UTF-8 the caller drops the rest of that message
	// with Discard() and goes on reading (an application that tolerates bad text)
	DiscardInvalid bool `json:"discardInvalid"`
	// SkipEmptyMsg: an unfragmented data message without payload is neither read nor discarded before
	// the next NextFrame (there is nothing to receive; the read helpers do the same)
	SkipEmptyMsg bool `json:"skipEmptyMsg"`
	// SwapExt: after every message the caller installs a NEW message-state extension (a list of the same
	// length, as when a reader is handed to the next connection); it is the new one that must be told
	// about the following message
	SwapExt bool `json:"swapExt"`
	stream       []byte
}

// fspec is what generators write; build() lays the frames out in a stream.
type fspec struct {
	Op     int
	Fin    bool
	Rsv    int
	Unmask int // 0 = mask according to side, 1 = force masked, 2 = force unmasked
	Pay    []byte
	CodedN int // >0: position-coded data payload of this length (Pay ignored)
}

func (sc *rscenario) build(fs []fspec, seed int) {
	sc.Ev = "setup"
	sc.Frames = nil
	sc.stream = nil
	base := 0
	var prevMask [4]byte
	for i, f := range fs {
		masked := sc.Side == "server"
		if f.Unmask == 1 {
			masked = true
		} else if f.Unmask == 2 {
			masked = false
		}
		mask := [4]byte{byte(17*i + seed + 1), byte(31*i + 7), byte(seed * 3), byte(0x80 + i)}
		if (i+seed)%3 == 1 {
			mask = [4]byte{} // the all-zero key is a legal mask (and follows frames with other keys)
		}
		if (i+seed)%5 == 2 && i > 0 {
			mask = prevMask // the same key as the frame before (a peer is free to repeat a key)
		}
		prevMask = mask
		pay := f.Pay
		if f.CodedN > 0 {
			pay = vh.PBytes(0, base, base+f.CodedN)
		}
		hs := len(sc.stream)
		b := vh.BuildFrame(f.Op, f.Fin, f.Rsv, masked, mask, pay)
		sc.stream = append(sc.stream, b...)
		rf := rframe{Op: f.Op, Fin: f.Fin, Rsv: f.Rsv, Masked: masked, Mask: []int{0, 0, 0, 0}, Len: len(pay), Pay: []int{},
			Hs: hs, Ps: hs + len(b) - len(pay), Pe: hs + len(b), Base: base, raw: pay}
		if masked {
			rf.Mask = vh.Ints(mask[:])
		}
		if !(sc.Coded && f.Op < 8) {
			rf.Pay = vh.Ints(pay)
		}
		if f.Op < 8 {
			base += len(pay)
		}
		sc.Frames = append(sc.Frames, rf)
	}
}

type rhdr struct {
	Fin    bool `json:"fin"`
	Rsv    int  `json:"rsv"`
	Op     int  `json:"op"`
	Masked bool `json:"masked"`
	Len    int  `json:"len"`
}

func hdrOf(h ws.Header) rhdr {
	return rhdr{h.Fin, int(h.Rsv), int(h.OpCode), h.Masked, int(h.Length)}
}

type rcb struct {
	Kind   string `json:"kind"`
	Hdr    rhdr   `json:"hdr"`
	Pay    []int  `json:"pay"`
	PayErr string `json:"payErr"`
}

type rmsg struct {
	Op  int   `json:"op"`
	Pay []int `json:"pay"`
	// position-coded scenarios: the payload is the coded range [lo, hi)
	Lo int `json:"lo"`
	Hi int `json:"hi"`
}

// rev is a reader event; every field is always present.
type rev struct {
	Ev         string `json:"ev"`
	K          int    `json:"k"`
	N          int    `json:"n"`
	Data       []int  `json:"data"`
	Lo         int    `json:"lo"`
	Hi         int    `json:"hi"`
	Err        string `json:"err"`
	Rule       string `json:"rule"`
	Hdr        rhdr   `json:"hdr"`
	Cbs        []rcb  `json:"cbs"`
	Pulled     int    `json:"pulled"`
	Msgs       []rmsg `json:"msgs"`
	Want       []int  `json:"want"`
	Op         int    `json:"op"`
	Wrote      []vh.F `json:"wrote"`
	Code       int    `json:"code"`
	Reason     []int  `json:"reason"`
	Compressed bool   `json:"compressed"`
}

func newRev(ev string) rev {
	return rev{Ev: ev, Data: []int{}, Cbs: []rcb{}, Msgs: []rmsg{}, Want: []int{}, Wrote: []vh.F{}, Reason: []int{}, Lo: -1, Hi: -1}
}

// rerr classifies an error into (kind, rule).
var errCallback = errors.New("refused by the application's callback")

func rerr(err error) (string, string) {
	switch err {
	case nil:
		return "nil", ""
	case io.EOF:
		return "eof", ""
	case io.ErrUnexpectedEOF:
		return "unexpected_eof", ""
	case vh.ErrInjected:
		return "transport", ""
	case wsutil.ErrFrameTooLarge:
		return "too_large", ""
	case wsutil.ErrInvalidUTF8:
		return "invalid_utf8", ""
	case wsutil.ErrNoFrameAdvance:
		return "no_frame_advance", ""
	case wsflate.ErrUnexpectedCompressionBit:
		return "protocol", "compression_bit"
	case errCallback:
		return "callback", ""
	}
	if _, ok := err.(wsutil.ClosedError); ok {
		return "closed", ""
	}
	if _, ok := err.(ws.ProtocolError); ok {
		return "protocol", ruleName(err)
	}
	return "other", err.Error()
}

func (e *rev) setErr(err error) {
	e.Err, e.Rule = rerr(err)
	if ce, ok := err.(wsutil.ClosedError); ok {
		e.Code = int(ce.Code)
		e.Reason = vh.Ints([]byte(ce.Reason))
	}
}

type duplex struct {
	io.Reader
	w *vh.Dest
}

func (d duplex) Write(p []byte) (int, error) { return d.w.Write(p) }

const readBudget = 20000

func (sc *rscenario) state() ws.State {
	st := wsState(sc.Side)
	if sc.Extended {
		st |= ws.StateExtended
	}
	return st
}

// setData fills data / lo,hi of an event for delivered bytes p; pos is the
// data-numbering index where the harness expects them (projection only).
func (sc *rscenario) setData(e *rev, p []byte, expectLo int) {
	if !sc.Coded {
		e.Data = vh.Ints(p)
		return
	}
	if vh.MatchP(0, expectLo, p) {
		e.Lo, e.Hi = expectLo, expectLo+len(p)
	}
}

func runReader(sc *rscenario) (evs []interface{}) {
	data := sc.stream
	end := io.EOF
	if sc.Cut >= 0 && sc.Cut <= len(data) {
		data = data[:sc.Cut]
		if sc.CutKind == "err" {
			end = vh.ErrInjected
		}
	}
	src := &vh.ChunkReader{Data: data, Sizes: sc.Chunk, End: end, DataErr: sc.DataErr}
	evs = append(evs, sc)
	defer func() {
		if p := recover(); p != nil {
			e := newRev("panic")
			e.Err = fmt.Sprint(p)
			evs = append(evs, e)
		}
	}()
	dest := &vh.Dest{}
	seen := 0
	wrote := func() []vh.F {
		fs, rest := vh.ParseFrames(dest.Buf[seen:])
		seen = len(dest.Buf) - len(rest)
		out := []vh.F{}
		for _, f := range fs {
			f.Pay = vh.Ints(f.Raw)
			out = append(out, f)
		}
		if len(rest) > 0 {
			out = append(out, vh.F{Op: -1, Len: len(rest), Pay: []int{}})
		}
		return out
	}
	switch sc.Entry {
	case "reader", "nextreader":
		ms := &wsflate.MessageState{}
		var cbs []rcb
		// the constructors rotate with the literal form (they must give the same reader)
		var rd *wsutil.Reader
		switch {
		case sc.state() == ws.StateServerSide && len(sc.Key)%2 == 0:
			rd = wsutil.NewServerSideReader(src)
		case sc.state() == ws.StateClientSide && len(sc.Key)%2 == 0:
			rd = wsutil.NewClientSideReader(src)
		case len(sc.Key)%3 == 0:
			rd = wsutil.NewReader(src, sc.state())
		default:
			rd = &wsutil.Reader{Source: src, State: sc.state()}
		}
		rd.CheckUTF8, rd.MaxFrameSize, rd.SkipHeaderCheck = sc.Utf8, int64(sc.Max), sc.Skip
		if sc.Ext {
			rd.Extensions = []wsutil.RecvExtension{ms}
		}
		rd.OnIntermediate = func(h ws.Header, r io.Reader) error {
			var b []byte
			var err error
			switch {
			case sc.CbRead == 0:
				b, err = io.ReadAll(r)
			case sc.CbRead > 0:
				b = make([]byte, sc.CbRead)
				var n int
				n, err = r.Read(b)
				b = b[:n]
			}
			k, _ := rerr(err)
			cbs = append(cbs, rcb{"intermediate", hdrOf(h), vh.Ints(b), k})
			return nil
		}
		contCalls := 0
		rd.OnContinuation = func(h ws.Header, r io.Reader) error {
			b := []byte{}
			if sc.ContRead > 0 {
				b = make([]byte, sc.ContRead)
				n, _ := r.Read(b)
				b = b[:n]
			}
			contCalls++
			if contCalls == sc.ContErr {
				cbs = append(cbs, rcb{"continuation", hdrOf(h), vh.Ints(b), "refused"})
				return errCallback
			}
			cbs = append(cbs, rcb{"continuation", hdrOf(h), vh.Ints(b), "nil"})
			return nil
		}

		take := func() []rcb {
			c := cbs
			cbs = nil
			if c == nil {
				c = []rcb{}
			}
			return c
		}
		// giveUp: after the callback's error the caller drops the rest of the message
		giveUp := func() bool {
			err := rd.Discard()
			e := newRev("Discard")
			e.Cbs, e.Pulled = take(), src.Pos
			e.setErr(err)
			evs = append(evs, e)
			return err == nil
		}
		idle, lastPulled := 0, 0
		dataPos := 0 // data-numbering position of the next byte (harness projection for coded payloads)
		frag := false
		for {
			var (
				hdr ws.Header
				err error
				r   io.Reader = rd
			)
			if sc.Entry == "nextreader" {
				hdr, r, err = wsutil.NextReader(src, sc.state())
			} else {
				hdr, err = rd.NextFrame()
			}
			e := newRev("NextFrame")
			e.Hdr, e.Cbs, e.Pulled = hdrOf(hdr), take(), src.Pos
			e.setErr(err)
			evs = append(evs, e)
			if err == errCallback {
				frag = false
				if giveUp() {
					continue
				}
				break
			}
			if err != nil {
				break
			}
			if sc.Ext && hdr.OpCode.IsData() && hdr.OpCode != ws.OpContinuation {
				c := newRev("Compressed")
				c.Compressed = ms.IsCompressed()
				evs = append(evs, c)
			}
			if hdr.OpCode.IsControl() && frag {
				continue // intermediate control frame met by an explicit NextFrame
			}
			if sc.SkipEmptyCtl && hdr.OpCode.IsControl() && hdr.Length == 0 && sc.Entry == "reader" {
				continue
			}
			if sc.SkipEmptyMsg && hdr.OpCode.IsData() && hdr.OpCode != ws.OpContinuation && hdr.Fin && hdr.Length == 0 && sc.Entry == "reader" {
				frag = false
				continue
			}
			if hdr.OpCode.IsData() {
				frag = !hdr.Fin
				if hdr.OpCode != ws.OpContinuation {
					// position of this message's first byte
					for _, f := range sc.Frames {
						if f.Ps == src.Pos && f.Op < 8 {
							dataPos = f.Base
						}
					}
				}
			}
			reads := 0
			stop := false
			for !stop {
				if idle > 1000 {
					evs = append(evs, newRev("hang"))
					return evs
				}
				if sc.Discard >= 0 && reads == sc.Discard && sc.Entry == "reader" {
					err := rd.Discard()
					e := newRev("Discard")
					e.Cbs, e.Pulled = take(), src.Pos
					e.setErr(err)
					evs = append(evs, e)
					frag = false
					if err != nil {
						return evs
					}
					break
				}
				buf := make([]byte, sc.Buf)
				n, err := r.Read(buf)
				reads++
				e := newRev("Read")
				e.K, e.N, e.Cbs, e.Pulled = len(buf), n, take(), src.Pos
				e.setErr(err)
				if n == 0 && err == nil && src.Pos == lastPulled && len(e.Cbs) == 0 {
					idle++ // a call without any progress
				} else {
					idle = 0
				}
				lastPulled = src.Pos
				if hdr.OpCode.IsControl() {
					e.Data = vh.Ints(buf[:n])
				} else {
					sc.setData(&e, buf[:n], dataPos)
					dataPos += n
				}
				evs = append(evs, e)
				if err == io.EOF {
					frag = false
					stop = true
					if sc.SwapExt && sc.Ext {
						ms = &wsflate.MessageState{}
						rd.Extensions = []wsutil.RecvExtension{ms}
					}
				} else if err == errCallback || (err == wsutil.ErrInvalidUTF8 && sc.DiscardInvalid) {
					frag = false
					if !giveUp() {
						return evs
					}
					stop = true
				} else if err != nil {
					return evs
				}
			}
		}
	case "readmessage":
		lastPosRM := 0
		for i := 0; i < readBudget; i++ {
			var msgs []wsutil.Message
			var err error
			if sc.Side == "server" && i%2 == 1 {
				msgs, err = wsutil.ReadClientMessage(src, nil)
			} else if sc.Side == "client" && i%2 == 1 {
				msgs, err = wsutil.ReadServerMessage(src, nil)
			} else {
				msgs, err = wsutil.ReadMessage(src, sc.state(), nil)
			}
			e := newRev("ReadMessage")
			for _, m := range msgs {
				rm := rmsg{int(m.OpCode), vh.Ints(m.Payload), -1, -1}
				if sc.Coded && !m.OpCode.IsControl() {
					// the payload is named by the coded range it carries, if it is one
					for _, f := range sc.Frames {
						if f.Hs >= lastPosRM && f.Op == int(m.OpCode) && vh.MatchP(0, f.Base, m.Payload) {
							rm = rmsg{int(m.OpCode), []int{}, f.Base, f.Base + len(m.Payload)}
							break
						}
					}
					if rm.Lo < 0 && len(rm.Pay) > 64 {
						rm.Pay, rm.Lo = rm.Pay[:64], -2 // no coded range: a sample of what came instead
					}
				}
				e.Msgs = append(e.Msgs, rm)
			}
			e.Pulled = src.Pos
			lastPosRM = src.Pos
			e.setErr(err)
			evs = append(evs, e)
			if err != nil {
				break
			}
		}
	case "readdata":
		rw := duplex{src, dest}
		lastPos := 0
		for i := 0; i < readBudget; i++ {
			var (
				p   []byte
				op  ws.OpCode
				err error
			)
			server := sc.Side == "server"
			switch {
			case len(sc.Want) == 2 && i%2 == 0:
				p, op, err = wsutil.ReadData(rw, sc.state())
			case len(sc.Want) == 2 && server:
				p, op, err = wsutil.ReadClientData(rw)
			case len(sc.Want) == 2:
				p, op, err = wsutil.ReadServerData(rw)
			case sc.Want[0] == 1 && server:
				p, err = wsutil.ReadClientText(rw)
				op = ws.OpText
			case sc.Want[0] == 1:
				p, err = wsutil.ReadServerText(rw)
				op = ws.OpText
			case server:
				p, err = wsutil.ReadClientBinary(rw)
				op = ws.OpBinary
			default:
				p, err = wsutil.ReadServerBinary(rw)
				op = ws.OpBinary
			}
			e := newRev("ReadData")
			from := lastPos
			lastPos = src.Pos
			e.Want, e.Op, e.Pulled, e.Wrote = sc.Want, int(op), src.Pos, wrote()
			e.setErr(err)
			if err == nil {
				e.N = len(p)
				if sc.Coded {
					// find the message this payload belongs to: first data frame whose coded bytes match
					for _, f := range sc.Frames {
						if f.Hs >= from && f.Op == int(op) && vh.MatchP(0, f.Base, p) {
							e.Lo, e.Hi = f.Base, f.Base+len(p)
							break
						}
					}
				} else {
					e.Data = vh.Ints(p)
				}
			}
			evs = append(evs, e)
			if err != nil {
				break
			}
		}
	default:
		vh.Fatal("bad entry %q", sc.Entry)
	}
	return evs
}

func emitAny(out *vh.Out, evs []interface{}) {
	for i, e := range evs {
		out.Emit(e, i == 0)
	}
}
