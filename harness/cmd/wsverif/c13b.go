package main

import (
	"fmt"

	"github.com/gobwas/ws"
	"github.com/gobwas/ws/wsflate"
	"github.com/gobwas/ws/wsutil"
	"wsverif/vh"
)

func init() { drivers["c13b"] = c13b }

// c13b: the header-level helpers of the compression bit (wsflate.UnsetBit / SetBit / IsCompressed,
// MessageState.UnsetBits / SetBits, also through the wsutil extension adapters) on the whole grid
// of opcode x fin x RSV, with the state left by an earlier message (C13).
func c13b(c *ctx) {
	out := vh.NewOut(c.dir, "c13b", 50000)
	defer out.Close()
	shapes := vh.Shapes{}
	meta := &vh.Meta{Property: "C13", Tier: c.tier, Seed: c.seed,
		Rule: "records = opcode {0,1,2,3,8,9,10,11} x fin x RSV 0..7 x previous state {compressed, not} through wsflate.UnsetBit, SetBit, IsCompressed, MessageState.UnsetBits / SetBits directly and through wsutil.RecvExtensionFunc / SendExtensionFunc; distinct = (helper, opcode class, rsv1, outcome)"}
	n := 0
	for _, op := range []int{0, 1, 2, 3, 8, 9, 10, 11} {
		for _, fin := range []bool{true, false} {
			for rsv := 0; rsv < 8; rsv++ {
				for _, prev := range []bool{false, true} {
					key := fmt.Sprintf("bits/%d/%v/%d/%v", op, fin, rsv, prev)
					if !vh.Only(key) {
						continue
					}
					h := ws.Header{Fin: fin, Rsv: byte(rsv), OpCode: ws.OpCode(op), Length: 5}
					uh, was, uerr := wsflate.UnsetBit(h)
					sh, serr := wsflate.SetBit(h)
					ic, ierr := wsflate.IsCompressed(h)
					// the stateful forms, through the adapters the reader and the writer use
					ms := &wsflate.MessageState{}
					ms.SetCompressed(prev)
					var re wsutil.RecvExtension = wsutil.RecvExtensionFunc(ms.UnsetBits)
					muh, muerr := re.UnsetBits(h)
					after := ms.IsCompressed()
					ms2 := &wsflate.MessageState{}
					ms2.SetCompressed(prev)
					var se wsutil.SendExtension = wsutil.SendExtensionFunc(ms2.SetBits)
					msh, mserr := se.SetBits(h)
					same := func(a ws.Header) bool {
						return a.Fin == h.Fin && a.OpCode == h.OpCode && a.Length == h.Length && a.Masked == h.Masked && a.Mask == h.Mask
					}
					out.Emit(map[string]interface{}{"k": "bits", "key": key, "op": op, "fin": fin, "rsv": rsv, "prev": prev,
						"urs": int(uh.Rsv), "uwas": was, "uerr": uerr != nil, "usame": same(uh),
						"srs": int(sh.Rsv), "serr": serr != nil, "ssame": same(sh),
						"ic": ic, "ierr": ierr != nil,
						"murs": int(muh.Rsv), "muerr": muerr != nil, "after": after,
						"msrs": int(msh.Rsv), "mserr": mserr != nil, "stateKept": ms2.IsCompressed() == prev}, true)
					n++
					shapes.Add("%d/%v/%v/%v", op, rsv&4 != 0, uerr != nil, serr != nil)
				}
			}
		}
	}
	meta.Evaluations = n
	meta.Distinct = len(shapes)
	out.Close()
	meta.Files = map[string][]string{"records": out.Files}
	meta.Write(c.dir)
}
