package main

import (
	"bufio"
	"encoding/json"
	"fmt"
	"io"
	"os"
	"reflect"

	"github.com/gobwas/ws"
	"github.com/gobwas/ws/wsflate"
	"github.com/gobwas/ws/wsutil"
	"wsverif/vh"
)

func init() { drivers["r04"] = r04 }

type rmframe struct {
	Op     int   `json:"op"`
	Fin    bool  `json:"fin"`
	Rsv    int   `json:"rsv"`
	Masked bool  `json:"masked"`
	Pay    []int `json:"pay"`
	Hs     int   `json:"hs"`
	Ps     int   `json:"ps"`
	Pe     int   `json:"pe"`
}

type rmcb struct {
	Kind   string `json:"kind"`
	Hdr    rhdr   `json:"hdr"`
	Pay    []int  `json:"pay"`
	PayErr string `json:"payErr"`
}

type rmstep struct {
	Ev   string `json:"ev"`
	K    int    `json:"k"`
	N    int    `json:"n"`
	Data []int  `json:"data"`
	Err  string `json:"err"`
	Rule string `json:"rule"`
	Hdr  rhdr   `json:"hdr"`
	Cbs  []rmcb `json:"cbs"`
	St   struct {
		Frame  bool `json:"frame"`
		RawN   int  `json:"rawN"`
		Frag   bool `json:"frag"`
		OpCode int  `json:"opCode"`
	} `json:"st"`
}

type rmbehaviour struct {
	Key    string    `json:"key"`
	Side   string    `json:"side"`
	Ext    bool      `json:"ext"`
	Utf8   bool      `json:"utf8"`
	Max    int       `json:"max"`
	Cut    int       `json:"cut"`
	Frames []rmframe `json:"frames"`
	Steps  []rmstep  `json:"steps"`
}

// r04 replays TLC-generated behaviours of the implementation-level reader model
// (WsReaderImpl: abstract stream with 1-byte headers) into the real
// wsutil.Reader over a real byte stream built with the harness' own codec: the
// same frames, the same cut point (mapped to the real offsets), the same
// sequence of NextFrame / Read(k) / Discard calls.  After every call the event
// the model predicts and the model's struct (frame, raw.N, fragmented, opCode)
// are compared with the real ones; a difference is model drift.  The real
// trace is also judged by the property-level monitor.
func r04(c *ctx) {
	out := vh.NewOut(c.dir, "r04", 60000)
	defer out.Close()
	rec := vh.NewOut(c.dir, "r04rec", 60000)
	defer rec.Close()
	meta := &vh.Meta{Property: "C04", Tier: c.tier, Seed: c.seed,
		Rule: "behaviours of WsReaderImpl drawn by TLC -simulate (valid streams of 3-6 frames built frame by frame, optional cut, extension, UTF-8 check; NextFrame/Read(1..3)/Discard sequences) replayed call by call into the real Reader; distinct = behaviours"}
	f, err := os.Open(os.Getenv("R04_IN"))
	if err != nil {
		vh.Fatal("R04_IN: %v", err)
	}
	scn := bufio.NewScanner(f)
	scn.Buffer(make([]byte, 1<<20), 1<<26)
	n, drift, steps := 0, 0, 0
	for scn.Scan() {
		var b rmbehaviour
		if json.Unmarshal(scn.Bytes(), &b) != nil {
			continue
		}
		if !vh.Only(b.Key) {
			continue
		}
		// the real stream
		sc := &rscenario{Key: b.Key, Side: b.Side, Ext: b.Ext, Extended: b.Ext, Utf8: b.Utf8, Max: b.Max, Cut: -1, CutKind: "eof", Cbs: true,
			Entry: "reader", Buf: 3, Discard: -1, Want: []int{}, Chunk: []int{}}
		var fs []fspec
		for _, mf := range b.Frames {
			p := make([]byte, len(mf.Pay))
			for i, x := range mf.Pay {
				p[i] = byte(x)
			}
			um := 2
			if mf.Masked {
				um = 1
			}
			fs = append(fs, fspec{Op: mf.Op, Fin: mf.Fin, Rsv: mf.Rsv, Unmask: um, Pay: p})
		}
		sc.build(fs, n)
		if b.Cut >= 0 { // map the model's offset to the real stream
			for i, mf := range b.Frames {
				if b.Cut == mf.Hs {
					sc.Cut = sc.Frames[i].Hs
				} else if b.Cut >= mf.Ps && b.Cut < mf.Pe {
					sc.Cut = sc.Frames[i].Ps + (b.Cut - mf.Ps)
				}
			}
			if sc.Cut < 0 {
				continue // not representable
			}
		}
		data := sc.stream
		if sc.Cut >= 0 {
			data = data[:sc.Cut]
		}
		src := &vh.ChunkReader{Data: data}
		var ms wsflate.MessageState
		var cbs []rcb
		rd := &wsutil.Reader{Source: src, State: sc.state(), CheckUTF8: sc.Utf8, MaxFrameSize: int64(sc.Max)}
		if sc.Ext {
			rd.Extensions = []wsutil.RecvExtension{&ms}
		}
		rd.OnIntermediate = func(h ws.Header, r io.Reader) error {
			p, err := io.ReadAll(r)
			k, _ := rerr(err)
			cbs = append(cbs, rcb{"intermediate", hdrOf(h), vh.Ints(p), k})
			return err
		}
		rd.OnContinuation = func(h ws.Header, r io.Reader) error {
			cbs = append(cbs, rcb{"continuation", hdrOf(h), []int{}, "nil"})
			return nil
		}
		take := func() []rcb {
			x := cbs
			cbs = nil
			if x == nil {
				x = []rcb{}
			}
			return x
		}
		evs := []interface{}{sc}
		first, what := -1, ""
		for i, s := range b.Steps {
			e := newRev(s.Ev)
			switch s.Ev {
			case "NextFrame":
				h, err := rd.NextFrame()
				e.Hdr = hdrOf(h)
				e.setErr(err)
			case "Read":
				buf := make([]byte, s.K)
				k, err := rd.Read(buf)
				e.K, e.N, e.Data = s.K, k, vh.Ints(buf[:k])
				e.setErr(err)
			case "Discard":
				e.setErr(rd.Discard())
			}
			e.Cbs, e.Pulled = take(), src.Pos
			evs = append(evs, e)
			steps++
			if first < 0 {
				if d := diffRStep(s, e, rd); d != "" {
					first, what = i, fmt.Sprintf("%s: %s", s.Ev, d)
				}
			}
		}
		emitAny(out, evs)
		n++
		if first >= 0 {
			drift++
		}
		rec.Emit(map[string]interface{}{"k": "replay", "key": b.Key, "steps": len(b.Steps), "firstDiff": first, "what": what}, true)
		if len(meta.Samples) < 2 {
			meta.Samples = append(meta.Samples, map[string]interface{}{"behaviour": b.Key, "frames": b.Frames, "calls": len(b.Steps), "firstDiff": first})
		}
	}
	meta.Evaluations = n
	meta.Distinct = n
	meta.Extra = map[string]interface{}{"reader_behaviours_replayed": n, "reader_steps_replayed": steps, "reader_model_drift": drift}
	out.Close()
	rec.Close()
	meta.Files = map[string][]string{"traces": out.Files, "records": rec.Files}
	meta.Write(c.dir)
}

func diffRStep(s rmstep, e rev, rd *wsutil.Reader) string {
	if s.Err != e.Err {
		return fmt.Sprintf("err: model %s real %s", s.Err, e.Err)
	}
	if s.Err == "protocol" && s.Rule != e.Rule {
		return fmt.Sprintf("rule: model %s real %s", s.Rule, e.Rule)
	}
	if s.Ev == "NextFrame" && s.Err == "nil" && s.Hdr != e.Hdr {
		return fmt.Sprintf("hdr: model %+v real %+v", s.Hdr, e.Hdr)
	}
	if s.Ev == "Read" {
		if s.N != e.N {
			return fmt.Sprintf("n: model %d real %d", s.N, e.N)
		}
		if s.Data == nil {
			s.Data = []int{}
		}
		if !reflect.DeepEqual(s.Data, e.Data) {
			return fmt.Sprintf("data: model %v real %v", s.Data, e.Data)
		}
	}
	if len(s.Cbs) != len(e.Cbs) {
		return fmt.Sprintf("callbacks: model %d real %d", len(s.Cbs), len(e.Cbs))
	}
	for i, c := range s.Cbs {
		g := e.Cbs[i]
		if c.Pay == nil {
			c.Pay = []int{}
		}
		if c.Kind != g.Kind || c.Hdr != g.Hdr || (c.Kind == "intermediate" && (!reflect.DeepEqual(c.Pay, g.Pay) || c.PayErr != g.PayErr)) {
			return fmt.Sprintf("callback %d: model %+v real %+v", i, c, g)
		}
	}
	v := readerState(rd)
	if hooksOn && (s.Err == "nil" || s.Err == "eof") {
		if v.HasFrame != s.St.Frame || int(v.RawN) != s.St.RawN || v.Fragmented != s.St.Frag || int(v.OpCode) != s.St.OpCode {
			return fmt.Sprintf("struct: model %+v real %+v", s.St, v)
		}
	}
	return ""
}
