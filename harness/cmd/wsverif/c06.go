package main

import (
	"fmt"
	"strings"

	"wsverif/vh"
)

func init() {
	drivers["c06"] = c06
}

var wAlphabet = []wop{
	{"Write", "0", ""}, {"Write", "1", ""}, {"Write", "a-1", ""}, {"Write", "a", ""}, {"Write", "a+1", ""},
	{"Write", "s+1", ""}, {"Write", "2s+1", ""},
	{"WriteThrough", "1", ""}, {"WriteThrough", "s+1", ""},
	{"ReadFrom", "1", "eof"}, {"ReadFrom", "a", "eof"}, {"ReadFrom", "a+1", "eof/3"}, {"ReadFrom", "2s+1", "eof"},
	{"ReadFrom", "s+1", "err"}, {"ReadFrom", "0", "eof"},
	{"FlushFragment", "", ""}, {"Flush", "", ""}, {"Grow", "a+1", ""}, {"DisableFlush", "", ""},
}

type wconfig struct {
	Ctor string
	N    int
	Side string
	Op   int
	Ext  bool
	Pre  []wop
}

func wconfigs(thorough bool) []wconfig {
	cs := []wconfig{
		{"NewWriterBufferSize", 8, "server", 1, false, nil},
		{"NewWriterBufferSize", 12, "client", 2, false, nil},
		{"NewWriterBufferSize", 9, "server", 2, true, []wop{{"SetExt", "1", ""}}},
		{"NewWriterBufferSize", 16, "client", 1, false, []wop{{"DisableFlush", "", ""}}},
	}
	if thorough {
		cs = append(cs,
			wconfig{"NewWriterSize", 125, "server", 1, false, nil},
			wconfig{"NewWriterSize", 126, "client", 2, false, nil},
			wconfig{"NewWriterBufferSize", 131, "client", 1, true, []wop{{"SetExt", "1", ""}}},
			wconfig{"NewWriterBuffer", 7, "client", 1, false, nil},
			wconfig{"GetWriter", 100, "server", 2, false, nil},
		)
	}
	return cs
}

// all configurations used by the random sequences, around every header-reservation threshold
func wconfigsRandom() []wconfig {
	var cs []wconfig
	for _, side := range []string{"server", "client"} {
		m := 0
		if side == "client" {
			m = 4
		}
		for _, n := range []int{1, 2, 124, 125, 126, 127, 4096, 65534, 65535, 65536} {
			cs = append(cs, wconfig{"NewWriterSize", n, side, 1 + n%2, n%3 == 0, nil})
		}
		for _, n := range []int{3 + m, 4 + m, 125 + m + 1, 125 + m + 2, 125 + m + 3, 65535 + m + 3, 65535 + m + 4, 65535 + m + 5, 65535 + m + 11} {
			cs = append(cs, wconfig{"NewWriterBufferSize", n, side, 1 + n%2, n%3 == 1, nil})
			cs = append(cs, wconfig{"NewWriterBuffer", n, side, 2 - n%2, false, nil})
		}
		cs = append(cs, wconfig{"NewWriter", 0, side, 1, false, nil})
		for _, n := range []int{1, 128, 129, 5000, 65536} {
			cs = append(cs, wconfig{"GetWriter", n, side, 2, false, nil})
		}
	}
	return cs
}

func frameShape(evs []wev) string {
	var b strings.Builder
	for _, e := range evs {
		if e.Ev == "setup" {
			continue
		}
		b.WriteString(e.Ev[:2])
		for _, f := range e.Out {
			c := 'n'
			if f.Fin {
				c = 'F'
			}
			l := "0"
			switch {
			case f.Len > 65535:
				l = "L"
			case f.Len > 125:
				l = "M"
			case f.Len > 0:
				l = "S"
			}
			fmt.Fprintf(&b, "[%d%c%s%d]", f.Op, c, l, f.Rsv)
		}
		if e.Err != "nil" && e.Err != "" {
			b.WriteString("!")
		}
		b.WriteByte(' ')
	}
	return b.String()
}

// emitTrace writes the events of one scenario; the first event carries the key.
func emitTrace(out *vh.Out, evs []wev) {
	for i, e := range evs {
		out.Emit(e, i == 0)
	}
}

func opsKey(ops []wop) string {
	s := make([]string, len(ops))
	for i, o := range ops {
		s[i] = o.Name[:2] + o.Arg + o.Aux
	}
	return strings.Join(s, ",")
}

func c06(c *ctx) {
	out := vh.NewOut(c.dir, "c06", 60000)
	defer out.Close()
	shapes := vh.Shapes{}
	meta := &vh.Meta{Property: "C06", Tier: c.tier, Seed: c.seed,
		Rule: "traces = every call sequence of depth D over 19 operations with sizes relative to the live Available()/Size() (D=3 quick, 4 thorough) on small-buffer configurations of both sides (plain, flush disabled, with extension), each closed by a Flush; seeded random sequences of 12-40 calls on 60 constructor/size configurations around the 125/126 and 65535/65536 header-reservation thresholds; distinct = (configuration, per-call emitted-frame shape) strings"}
	rng := vh.Rand(c.seed, "c06")
	traces, events := 0, 0
	run := func(sc wscenario) {
		if !vh.Only(sc.Key) {
			return
		}
		evs := runWriter(sc)
		emitTrace(out, evs)
		traces++
		events += len(evs)
		shapes.Add("%s/%d/%s/%s", sc.Ctor, sc.N, sc.Side, frameShape(evs))
		if len(meta.Samples) < 3 && traces%1013 == 7 {
			meta.Samples = append(meta.Samples, map[string]interface{}{"scenario": sc, "events": evs})
		}
	}
	depth := 3
	if c.thorough {
		depth = 4
	}
	for ci, cf := range wconfigs(c.thorough) {
		idx := make([]int, depth)
		for {
			ops := append([]wop(nil), cf.Pre...)
			for _, i := range idx {
				ops = append(ops, wAlphabet[i])
			}
			ops = append(ops, wop{"Flush", "", ""}, wop{"Write", "1", ""}, wop{"Flush", "", ""})
			run(wscenario{Key: fmt.Sprintf("seq/%d/%s", ci, opsKey(ops)), Ctor: cf.Ctor, N: cf.N, Side: cf.Side, Op: cf.Op, Ops: ops, Ext: cf.Ext})
			j := depth - 1
			for j >= 0 {
				idx[j]++
				if idx[j] < len(wAlphabet) {
					break
				}
				idx[j] = 0
				j--
			}
			if j < 0 {
				break
			}
		}
	}
	// random long sequences on every constructor/threshold configuration
	rcs := wconfigsRandom()
	nr := 6
	if c.thorough {
		nr = 120
	}
	extra := []wop{{"SetExt", "1", ""}, {"SetExt", "0", ""}, {"ResetOp", "2", ""}, {"ResetOp", "1", ""}, {"Write", "s", ""}, {"Write", "s/2", ""}, {"Flush", "", ""}, {"Flush", "", ""},
		{"WriteThrough", "1", "extfail"}, {"WriteThrough", "s+1", "extfail"}}
	// a writer re-targeted by Reset between sides whose states carry further bits (extended,
	// fragmented): frames are masked exactly when the state it was given last is client-side
	sides := []string{"server", "client", "server+ext", "client+ext", "server+frag", "client+ext+frag"}
	for ai, a := range sides {
		for bi, b := range sides {
			for oi, first := range []wop{{"Write", "1", ""}, {"Write", "2s+1", ""}, {"Flush", "", ""}} {
				ops := []wop{first, {"Reset", b + "/2", ""}, {"Write", "1", ""}, {"WriteThrough", "s+1", ""}, {"ReadFrom", "a+1", "eof"}, {"Flush", "", ""},
					{"Reset", a + "/1", ""}, {"Write", "a", ""}, {"Flush", "", ""}}
				run(wscenario{Key: fmt.Sprintf("resetside/%d/%d/%d", ai, bi, oi), Ctor: []string{"NewWriterSize", "NewWriterBufferSize", "GetWriter"}[(ai+bi+oi)%3],
					N: []int{16, 130, 128}[(ai+oi)%3], Side: a, Op: 1, Ops: ops})
			}
		}
	}
	// writers configured with a control opcode (what ControlWriter builds on): whatever the opcode, only
	// the first frame of a message carries it
	for _, op := range []int{8, 9, 10} {
		for si, side := range []string{"server", "client"} {
			for oi, ops := range [][]wop{
				{{"Write", "2s+1", ""}, {"Flush", "", ""}, {"Write", "1", ""}, {"Flush", "", ""}},
				{{"Write", "a", ""}, {"Write", "1", ""}, {"FlushFragment", "", ""}, {"Write", "1", ""}, {"Flush", "", ""}},
				{{"WriteThrough", "1", ""}, {"WriteThrough", "s+1", ""}, {"ReadFrom", "2s+1", "eof"}, {"Flush", "", ""}},
			} {
				run(wscenario{Key: fmt.Sprintf("ctlop/%d/%s/%d", op, side, oi), Ctor: []string{"NewWriterSize", "NewWriterBufferSize"}[(si+oi)%2], N: 20, Side: side, Op: op, Ops: ops})
			}
		}
	}
	// ReadFrom from sources that end badly - an error, or no progress any more - exactly when the buffer
	// is full, one byte before and after, or at once: whatever was taken belongs to the message, and the
	// final flush must still end it
	for ci, cf := range wconfigs(false) {
		for _, total := range []string{"0", "1", "a-1", "a", "a+1", "s", "s+1", "2s+1"} {
			for _, end := range []string{"stall", "err", "eof", "stall/3", "err/1"} {
				for pi, pre := range [][]wop{{}, {{"Write", "1", ""}}, {{"Write", "a", ""}}, {{"FlushFragment", "", ""}}} {
					if ci%3 != pi%3 && len(pre) > 0 {
						continue
					}
					ops := append(append([]wop(nil), pre...), wop{"ReadFrom", total, end}, wop{"Flush", "", ""}, wop{"Write", "1", ""}, wop{"Flush", "", ""})
					run(wscenario{Key: fmt.Sprintf("rfend/%d/%s", ci, opsKey(ops)), Ctor: cf.Ctor, N: cf.N, Side: cf.Side, Op: cf.Op, Ops: ops, Ext: cf.Ext})
				}
			}
		}
	}
	// a write-through that a send extension refuses, between any two operations
	for ci, cf := range wconfigs(false) {
		for _, a := range wAlphabet {
			for _, b := range wAlphabet {
				for _, wt := range []wop{{"WriteThrough", "1", "extfail"}, {"WriteThrough", "s+1", "extfail"}} {
					if !c.thorough && (len(a.Arg)+len(b.Arg)+ci)%3 != 0 {
						continue
					}
					ops := []wop{a, wt, b, {"Flush", "", ""}, {"Write", "1", ""}, {"Flush", "", ""}}
					run(wscenario{Key: fmt.Sprintf("extfail/%d/%s", ci, opsKey(ops)), Ctor: cf.Ctor, N: cf.N, Side: cf.Side, Op: cf.Op, Ops: ops, Ext: cf.Ext})
				}
			}
		}
	}
	for ci, cf := range rcs {
		for k := 0; k < nr; k++ {
			n := 12 + rng.Intn(29)
			var ops []wop
			for i := 0; i < n; i++ {
				if rng.Intn(4) == 0 {
					ops = append(ops, extra[rng.Intn(len(extra))])
				} else {
					o := wAlphabet[rng.Intn(len(wAlphabet))]
					if o.Name == "DisableFlush" && rng.Intn(3) > 0 {
						o = wop{"Flush", "", ""}
					}
					if cf.N > 10000 && (o.Arg == "2s+1") && rng.Intn(2) == 0 {
						o.Arg = "s+1"
					}
					ops = append(ops, o)
				}
			}
			ops = append(ops, wop{"Flush", "", ""})
			run(wscenario{Key: fmt.Sprintf("rand/%d/%d", ci, k), Ctor: cf.Ctor, N: cf.N, Side: cf.Side, Op: cf.Op, Ops: ops, Ext: cf.Ext})
		}
	}
	meta.Evaluations = traces
	meta.Distinct = len(shapes)
	meta.Extra = map[string]interface{}{"events": events}
	out.Close()
	meta.Files = map[string][]string{"traces": out.Files}
	meta.Write(c.dir)
}
