package main

import (
	"fmt"
	"regexp"
	"strconv"

	"github.com/gobwas/httphead"
	"github.com/gobwas/ws/wsflate"
	"wsverif/vh"
)

func init() { drivers["c14"] = c14 }

type pm [4]int // snct, cnct, smwb, cmwb (0 absent, 1 value-less, 8..15)

func (p pm) params() wsflate.Parameters {
	return wsflate.Parameters{ServerNoContextTakeover: p[0] == 1, ClientNoContextTakeover: p[1] == 1,
		ServerMaxWindowBits: wsflate.WindowBits(p[2]), ClientMaxWindowBits: wsflate.WindowBits(p[3])}
}

func fromParams(p wsflate.Parameters) pm {
	b := func(x bool) int {
		if x {
			return 1
		}
		return 0
	}
	return pm{b(p.ServerNoContextTakeover), b(p.ClientNoContextTakeover), int(p.ServerMaxWindowBits), int(p.ClientMaxWindowBits)}
}

type kv struct{ k, v string }

// offerOption renders an offer with the harness' own knowledge of the syntax.
func (p pm) kvs() []kv {
	var o []kv
	if p[0] == 1 {
		o = append(o, kv{"server_no_context_takeover", ""})
	}
	if p[1] == 1 {
		o = append(o, kv{"client_no_context_takeover", ""})
	}
	if p[2] != 0 {
		o = append(o, kv{"server_max_window_bits", strconv.Itoa(p[2])})
	}
	if p[3] == 1 {
		o = append(o, kv{"client_max_window_bits", ""})
	} else if p[3] != 0 {
		o = append(o, kv{"client_max_window_bits", strconv.Itoa(p[3])})
	}
	return o
}

func mkOption(name string, kvs []kv) httphead.Option {
	opt := httphead.Option{Name: []byte(name)}
	// httphead.Parameters.Set replaces an existing key, so duplicates are
	// produced by parsing header text instead.
	seen := map[string]bool{}
	dup := false
	for _, x := range kvs {
		if seen[x.k] {
			dup = true
		}
		seen[x.k] = true
	}
	if !dup {
		for _, x := range kvs {
			if x.v == "" {
				opt.Parameters.Set([]byte(x.k), nil)
			} else {
				opt.Parameters.Set([]byte(x.k), []byte(x.v))
			}
		}
		return opt
	}
	txt := name
	for _, x := range kvs {
		txt += "; " + x.k
		if x.v != "" {
			txt += "=" + x.v
		}
	}
	opts, _ := httphead.ParseOptions([]byte(txt), nil)
	if len(opts) > 0 {
		return opts[0]
	}
	return opt
}

var canon = regexp.MustCompile(`^[1-9][0-9]{0,2}$`)

func valNat(v string) int {
	if v == "" {
		return 0
	}
	if canon.MatchString(v) && len(v) <= 3 {
		n, _ := strconv.Atoi(v)
		return n
	}
	return 77
}

// decodeOption turns a response option into pm with the harness' own parser.
func decodeOption(o httphead.Option) pm {
	var p pm
	o.Parameters.ForEach(func(k, v []byte) bool {
		switch string(k) {
		case "server_no_context_takeover":
			p[0] = 1
		case "client_no_context_takeover":
			p[1] = 1
		case "server_max_window_bits":
			p[2] = valNat(string(v))
		case "client_max_window_bits":
			p[3] = valNat(string(v))
			if p[3] == 0 {
				p[3] = 1
			}
		default:
			p[2] = 78
		}
		return true
	})
	return p
}

func allPM(cmwb []int) []pm {
	var r []pm
	for a := 0; a < 2; a++ {
		for b := 0; b < 2; b++ {
			for _, s := range []int{0, 8, 9, 10, 11, 12, 13, 14, 15} {
				for _, c := range cmwb {
					r = append(r, pm{a, b, s, c})
				}
			}
		}
	}
	return r
}

func c14(c *ctx) {
	out := vh.NewOut(c.dir, "c14", 30000)
	defer out.Close()
	shapes := vh.Shapes{}
	meta := &vh.Meta{Property: "C14", Tier: c.tier, Seed: c.seed,
		Rule: "records = the complete grid of 324 server configurations x 360 single offers through wsflate.Extension.Negotiate/Accepted/Reset (116640 pairs), lists of 2-3 offers from 12 representatives x configurations (quick: sampled, thorough: all), Parameters.Parse on valid, unknown, duplicated and ill-valued parameter lists, Parameters.Option on all parameters; distinct = (kind, accepted index, config/offer window relation)"}
	offers := allPM([]int{0, 1, 8, 9, 10, 11, 12, 13, 14, 15})
	cfgs := allPM([]int{0, 8, 9, 10, 11, 12, 13, 14, 15})
	n := 0
	type res struct {
		Acc  bool `json:"acc"`
		Resp pm   `json:"resp"`
		Err  bool `json:"err"`
	}
	negotiate := func(ext *wsflate.Extension, list []pm) []res {
		var rs []res
		for _, o := range list {
			acc, err := ext.Negotiate(mkOption("permessage-deflate", o.kvs()))
			r := res{Acc: acc.Size() > 0, Err: err != nil}
			if r.Acc {
				r.Resp = decodeOption(acc)
			}
			rs = append(rs, r)
		}
		return rs
	}
	negRecord := func(key string, cfg pm, list []pm) {
		if !vh.Only(key) {
			return
		}
		ext := &wsflate.Extension{Parameters: cfg.params()}
		// a foreign extension must be ignored
		if acc, err := ext.Negotiate(mkOption("x-other", nil)); acc.Size() != 0 || err != nil {
			meta.Direct = append(meta.Direct, map[string]interface{}{"key": key, "what": "foreign extension was answered"})
		}
		rs := negotiate(ext, list)
		ap, af := ext.Accepted()
		alone := []bool{}
		for _, o := range list {
			fresh := &wsflate.Extension{Parameters: cfg.params()}
			acc, _ := fresh.Negotiate(mkOption("permessage-deflate", o.kvs()))
			alone = append(alone, acc.Size() > 0)
		}
		ext.Reset()
		_, af2 := ext.Accepted()
		rs2 := negotiate(ext, list)
		same := !af2 && fmt.Sprint(rs) == fmt.Sprint(rs2)
		accParams := fromParams(ap)
		if !af {
			accParams = pm{}
		}
		out.Emit(map[string]interface{}{"k": "neg", "key": key, "cfg": cfg, "offers": list, "results": rs, "alone": alone,
			"acceptedFlag": af, "acceptedParams": accParams, "resetSame": same}, true)
		n++
		ai := -1
		for i, r := range rs {
			if r.Acc {
				ai = i
			}
		}
		rel := func(a, b int) string {
			switch {
			case a == 0 || b == 0:
				return "0"
			case a < b:
				return "<"
			case a > b:
				return ">"
			}
			return "="
		}
		shapes.Add("neg/%d/%d/%s/%s", len(list), ai, rel(cfg[2], list[0][2]), rel(cfg[3], list[0][3]))
		if len(meta.Samples) < 3 && n%20011 == 3 {
			meta.Samples = append(meta.Samples, map[string]interface{}{"cfg": cfg, "offers": list, "results": rs})
		}
	}
	for _, cfg := range cfgs {
		for _, o := range offers {
			negRecord(fmt.Sprintf("pair/%v/%v", cfg, o), cfg, []pm{o})
		}
	}
	reps := []pm{}
	for _, o := range offers {
		if (o[2] == 0 || o[2] == 9 || o[2] == 15) && (o[3] == 0 || o[3] == 1 || o[3] == 10) && o[1] == 0 {
			reps = append(reps, o)
		}
	}
	k := 0
	for ci, cfg := range cfgs {
		for _, a := range reps {
			for _, b := range reps {
				k++
				if c.thorough || k%29 == 0 {
					negRecord(fmt.Sprintf("list2/%v/%v/%v", cfg, a, b), cfg, []pm{a, b})
				}
				if c.thorough && ci%4 == 0 {
					for _, d := range reps {
						negRecord(fmt.Sprintf("list3/%v/%v/%v/%v", cfg, a, b, d), cfg, []pm{a, b, d})
					}
				} else if k%97 == 0 {
					d := reps[k%len(reps)]
					negRecord(fmt.Sprintf("list3/%v/%v/%v/%v", cfg, a, b, d), cfg, []pm{a, b, d})
				}
			}
		}
	}
	// Parse: valid, unknown, duplicated, ill-valued
	parseRecord := func(key string, kvs []kv) {
		if !vh.Only(key) {
			return
		}
		var p wsflate.Parameters
		err := p.Parse(mkOption("permessage-deflate", kvs))
		opt := [][]interface{}{}
		for _, x := range kvs {
			opt = append(opt, []interface{}{x.k, valNat(x.v)})
		}
		out.Emit(map[string]interface{}{"k": "parse", "key": key, "opt": opt, "err": err != nil, "params": fromParams(p)}, true)
		n++
		shapes.Add("parse/%d/%v", len(kvs), err != nil)
	}
	for _, o := range offers {
		parseRecord(fmt.Sprintf("parse/ok/%v", o), o.kvs())
	}
	names := []string{"server_no_context_takeover", "client_no_context_takeover", "server_max_window_bits", "client_max_window_bits"}
	// (values that are not a canonical decimal in 8..15: letters, leading zeros, the six bytes that follow
	// '9' in ASCII, signs, blanks, numbers that wrap around 2^32 / 2^64 onto a valid one)
	vals := []string{"", "7", "8", "15", "16", "x", "08", "150", "1", "0", ":", ";", "<", "=", ">", "?", "1:", "1.", "1/", "9:", "+8", "-8", "8 ", " 8", "8.0", "0x8", "010",
		"4294967304", "18446744073709551624", "18446744073709551626", "١٠"}
	// every number up to 300 (three-digit numbers that wrap around 2^8 onto a valid one are among them),
	// and the same around 2^9, 2^16
	for i := 17; i <= 300; i++ {
		vals = append(vals, fmt.Sprint(i))
	}
	for _, base := range []int{512, 1024, 65536, 1 << 24} {
		for _, d := range []int{8, 12, 15} {
			vals = append(vals, fmt.Sprint(base+d))
		}
	}
	tokenSafe := regexp.MustCompile(`^[A-Za-z0-9.+-]*$`)
	for _, nm := range names {
		for _, v := range vals {
			parseRecord(fmt.Sprintf("parse/val/%s/%s", nm, v), []kv{{nm, v}})
			if !tokenSafe.MatchString(v) || len(v) == 3 && v != "150" && v[1:] != "64" && v[1:] != "71" {
				continue // (duplicates are produced from header text: only values that need no quoting)
			}
			for _, v2 := range []string{"", "10"} {
				parseRecord(fmt.Sprintf("parse/dup/%s/%s/%s", nm, v, v2), []kv{{nm, v}, {nm, v2}})
				parseRecord(fmt.Sprintf("parse/dup3/%s/%s/%s", nm, v, v2), []kv{{nm, v}, {"server_no_context_takeover", ""}, {nm, v2}})
			}
		}
	}
	for _, nm := range []string{"server_max_window_bit", "x", "Server_No_Context_Takeover", "client_max_window_bits_"} {
		parseRecord("parse/unknown/"+nm, []kv{{nm, ""}})
		parseRecord("parse/unknown2/"+nm, []kv{{"client_no_context_takeover", ""}, {nm, "10"}})
	}
	// Option
	for _, o := range offers {
		key := fmt.Sprintf("option/%v", o)
		if !vh.Only(key) {
			continue
		}
		opt := o.params().Option()
		lst := [][]interface{}{}
		opt.Parameters.ForEach(func(k, v []byte) bool {
			lst = append(lst, []interface{}{string(k), valNat(string(v))})
			return true
		})
		out.Emit(map[string]interface{}{"k": "option", "key": key, "params": o, "opt": lst, "name": string(opt.Name)}, true)
		n++
	}
	meta.Evaluations = n
	meta.Distinct = len(shapes)
	meta.Extra = map[string]interface{}{"exhaustive": true, "exhaustive_note": "all 324 x 360 configuration/offer pairs are enumerated"}
	out.Close()
	meta.Files = map[string][]string{"records": out.Files}
	meta.Write(c.dir)
}
