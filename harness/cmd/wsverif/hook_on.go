//go:build verif

package main

import "github.com/gobwas/ws/wsutil"

// Struct-level projections through the guarded hook file of the library
// (wsutil/verif_export.go, build tag verif).
const hooksOn = true

func writerState(w *wsutil.Writer) wst {
	v := w.VerifState()
	return wst{v.Raw, v.Buf, v.N, v.Dirty, v.Fseq, v.Err, v.NoFlush, v.Extensions}
}

type readerSt struct {
	HasFrame   bool
	RawN       int64
	Fragmented bool
	OpCode     byte
}

func readerState(r *wsutil.Reader) readerSt {
	v := r.VerifState()
	return readerSt{v.HasFrame, v.RawN, v.Fragmented, v.OpCode}
}
