package main

import (
	"fmt"

	"wsverif/vh"
)

func init() { drivers["c09"] = c09 }

func c09(c *ctx) {
	out := vh.NewOut(c.dir, "c09", 25000)
	defer out.Close()
	shapes := vh.Shapes{}
	meta := &vh.Meta{Property: "C09", Tier: c.tier, Seed: c.seed,
		Rule: "records = abstract requests rendered to bytes (seeded spellings: header-name case, blanks, token position in lists, header order, CRLF/LF, extra headers): the full product host{absent,ok,varied,dup} x upgrade{absent,ok,varied,dup,wrong} x connection{same 5} x version{absent,ok,varied,dup,wrong,other} x key{absent,ok,varied,dup,len23,len25,empty,nonb64} with GET HTTP/1.1, plus method/version forms, subprotocol lists x selectors, extension offers x selectors/negotiators, callbacks rejecting with custom status/headers or a plain error, through Upgrader.Upgrade, ws.Upgrade, HTTPUpgrader.Upgrade and ws.UpgradeHTTP; distinct = (api, verdict class, status, token classes that are not ok)"}
	rng := vh.Rand(c.seed, "c09")
	n := 0
	tn := 0
	emit := func(key, api string, q sreq, cf scfg) {
		// transport detail for the zero-copy upgrader: read/write buffer sizes and arrival in pieces
		// (the request head is then parsed across several fills of the pooled buffer)
		tn++
		if api == "Upgrader" {
			cf.Rbuf = []int{0, 16, 0, 48, 130, 4096, 24}[tn%7]
			cf.Wbuf = []int{0, 16, 512}[tn%3]
			cf.Chunk = []int{0, 0, 1, 7, 33}[tn%5]
		}
		if !vh.Only(key) {
			return
		}
		if q.Protos == nil {
			q.Protos = []string{}
		}
		if q.Exts == nil {
			q.Exts = []string{}
		}
		if cf.Accept == nil {
			cf.Accept = []string{}
		}
		if cf.ExtAccept == nil {
			cf.ExtAccept = []string{}
		}
		raw := q.render(vh.Rand(c.seed, key))
		if (api == "HTTPUpgrader" || api == "UpgradeHTTP") && (q.Version == "2.0" || q.Host == "varied" && false) {
			return // HTTP/2.0 through net/http with a hijackable writer is not producible: left open
		}
		o, ran := runServer(api, raw, cf, q.keyValue)
		if !ran {
			return
		}
		out.Emit(map[string]interface{}{"k": "srv", "key": key, "api": api, "req": q, "cfg": cf, "obs": o}, true)
		n++
		shapes.Add("%s/%s/%d/%s%s%s%s%s/%s/%s/%s", api, o.Wrote, o.Status, q.Host[:2], q.Upgrade[:2], q.Connection[:2], q.WsVersion[:2], q.Key[:2], q.Method, q.Version, cf.Reject)
		if len(meta.Samples) < 4 && n%2003 == 7 {
			meta.Samples = append(meta.Samples, map[string]interface{}{"request": string(raw), "api": api, "obs": o})
		}
	}
	base := sreq{Method: "GET", Version: "1.1", Host: "ok", Upgrade: "ok", Connection: "ok", WsVersion: "ok", Key: "ok"}
	plain := scfg{Reject: "none", ExtMode: "none"}
	apis := []string{"Upgrader", "HTTPUpgrader"}
	k := 0
	for _, host := range []string{"absent", "ok", "varied", "dup"} {
		for _, up := range []string{"absent", "ok", "varied", "dup", "wrong"} {
			for _, co := range []string{"absent", "ok", "varied", "dup", "wrong"} {
				for _, ve := range []string{"absent", "ok", "varied", "dup", "wrong", "other", "lead0"} {
					for _, ky := range []string{"absent", "ok", "varied", "dup", "len23", "len25", "empty", "nonb64", "latebad", "earlybad"} {
						k++
						if false {
							continue
						}
						q := base
						q.Host, q.Upgrade, q.Connection, q.WsVersion, q.Key = host, up, co, ve, ky
						q.Extra = k%2 == 0
						cf := plain
						cf.ExtraHeader = k%3 == 0
						for _, api := range apis {
							emit(fmt.Sprintf("grid/%s/%s/%s/%s/%s/%s", api, host, up, co, ve, ky), api, q, cf)
						}
						if k%7 == 0 {
							emit(fmt.Sprintf("grid/Upgrade/%s/%s/%s/%s/%s", host, up, co, ve, ky), "Upgrade", q, plain)
							emit(fmt.Sprintf("grid/UpgradeHTTP/%s/%s/%s/%s/%s", host, up, co, ve, ky), "UpgradeHTTP", q, plain)
						}
					}
				}
			}
		}
	}
	// method and version forms, alone and combined with one broken header
	for _, m := range []string{"GET", "POST", "get"} {
		for _, v := range []string{"1.1", "1.2", "1.0", "2.0", "0.9", "garbage"} {
			for _, broken := range []string{"", "upgrade", "wsversion", "key"} {
				q := base
				q.Method, q.Version = m, v
				switch broken {
				case "upgrade":
					q.Upgrade = "wrong"
				case "wsversion":
					q.WsVersion = "other"
				case "key":
					q.Key = "len23"
				}
				forms := 1
				if v == "garbage" {
					forms = len(garbageVersions)
				} else if fs, ok := versionForms[v]; ok && m == "GET" {
					forms = len(fs)
				}
				for vf := 0; vf < forms; vf++ {
					q.VerForm = vf
					for _, api := range []string{"Upgrader", "HTTPUpgrader", "Upgrade", "UpgradeHTTP"} {
						if v != "garbage" && vf > 0 && (api == "HTTPUpgrader" || api == "UpgradeHTTP") {
							continue // net/http knows HTTP/x.y with single digits only and answers the others itself
						}
						cf := plain
						cf.ExtraHeader = api == "Upgrader" || api == "HTTPUpgrader"
						emit(fmt.Sprintf("line/%s/%s/%s/%s/%d", api, m, v, broken, vf), api, q, cf)
					}
				}
			}
		}
	}
	// subprotocols
	protoLists := [][]string{{"chat"}, {"a", "b", "c"}, {"x", "chat", "y"}, {"b", "a"}, {"z"}, {}}
	accepts := [][]string{{"chat"}, {"c", "a"}, {"a", "b", "c"}, {}, {"y", "x"}}
	for pi, pl := range protoLists {
		for ai, ac := range accepts {
			for _, hasSel := range []bool{true, false} {
				for r := 0; r < 3; r++ {
					q := base
					q.Protos = pl
					cf := plain
					cf.Accept, cf.HasSelector = ac, hasSel
					for _, api := range apis {
						emit(fmt.Sprintf("proto/%s/%d/%d/%v/%d", api, pi, ai, hasSel, r), api, q, cf)
					}
				}
			}
		}
	}
	// the "custom" callbacks of the zero-copy upgrader: the application parses the header value itself
	for pi, pl := range protoLists {
		for ai, ac := range accepts {
			for _, custom := range []string{"select", "refuse"} {
				for _, em := range []string{"none", "custom", "customrefuse"} {
					q := base
					q.Protos = pl
					q.Exts = []string{"x-a", "x-b"}
					if pi%2 == 1 {
						q.Exts = nil
					}
					cf := plain
					cf.Accept, cf.HasSelector, cf.Custom = ac, custom == "select", custom
					cf.ExtAccept, cf.ExtMode = []string{"x-b"}, em
					emit(fmt.Sprintf("custom/%d/%d/%s/%s", pi, ai, custom, em), "Upgrader", q, cf)
				}
			}
		}
	}
	// a subprotocol header that breaks the token-list grammar before any acceptable token
	for bi, bad := range []string{"soap; chat", "; chat", "@, chat", "\"chat", "(chat)", "=chat, chat", "soap;"} {
		for _, withExt := range []bool{false, true} {
			for _, mode := range []string{"none", "select", "negotiate"} {
				for _, hasSel := range []bool{true, false} {
					q := base
					q.ProtoBad = bad
					if withExt {
						q.Exts = []string{"x-a"}
					}
					cf := plain
					cf.Accept, cf.HasSelector = []string{"chat"}, hasSel
					cf.ExtAccept, cf.ExtMode = []string{"x-a"}, mode
					for _, api := range apis {
						emit(fmt.Sprintf("protobad/%s/%d/%v/%s/%v", api, bi, withExt, mode, hasSel), api, q, cf)
					}
				}
			}
		}
	}
	// an Upgrade value that is "websocket" only under Unicode case folding
	for rep := 0; rep < 6; rep++ {
		for _, api := range apis {
			q := base
			q.Upgrade = "unifold"
			q.Extra = rep%2 == 0
			emit(fmt.Sprintf("unifold/%s/%d", api, rep), api, q, plain)
		}
	}
	// two Sec-WebSocket-Version lines that contradict each other (through the zero-copy upgrader, which sees
	// every line; net/http hands HTTPUpgrader the first value only: left open there)
	for rep := 0; rep < 12; rep++ {
		for _, broken := range []string{"", "key", "upgrade"} {
			for _, api := range []string{"Upgrader", "Upgrade"} {
				q := base
				q.WsVersion = "contra"
				q.Extra = rep%2 == 0
				switch broken {
				case "key":
					q.Key = "len23"
				case "upgrade":
					q.Upgrade = "absent"
				}
				emit(fmt.Sprintf("contra/%s/%s/%d", api, broken, rep), api, q, plain)
			}
		}
	}
	// an extension header that breaks the grammar after well-formed items, and right after it (same
	// goroutine: whatever the library pools comes straight back) a compliant request offering something
	// else to a negotiator that would also accept the earlier items
	for bi, bad := range []string{"x-a; a=1, =[", "x-a, x-c; q=\"1, x-b", "=[", "x-a; a=1; =", "x-a;;", ", x-a ="} {
		for _, mode := range []string{"negotiate", "select", "none"} {
			for _, api := range apis {
				q := base
				q.ExtBad = bad
				cf := plain
				cf.ExtAccept, cf.ExtMode = []string{"x-a", "x-b", "x-c"}, mode
				emit(fmt.Sprintf("extbad/%s/%d/%s/bad", api, bi, mode), api, q, cf)
				q2 := base
				q2.Exts = []string{"x-b"}
				emit(fmt.Sprintf("extbad/%s/%d/%s/next", api, bi, mode), api, q2, cf)
				for _, api2 := range apis { // ... and through every other entry point
					if api2 != api && mode != "none" {
						emit(fmt.Sprintf("extbad/%s/%d/%s/next-%s", api, bi, mode, api2), api2, q2, cf)
					}
				}
			}
		}
	}
	// extensions
	extLists := [][]string{{"permessage-deflate"}, {"x-a", "x-b", "x-c"}, {"x-b"}, {}}
	extAcc := [][]string{{"permessage-deflate"}, {"x-b", "x-c"}, {}, {"other"}}
	for ei, el := range extLists {
		for ai, ac := range extAcc {
			for _, mode := range []string{"none", "select", "negotiate"} {
				q := base
				q.Exts = el
				cf := plain
				cf.ExtAccept, cf.ExtMode = ac, mode
				for _, api := range apis {
					emit(fmt.Sprintf("ext/%s/%d/%d/%s", api, ei, ai, mode), api, q, cf)
				}
			}
		}
	}
	// callbacks
	for _, rej := range []string{"onrequest", "onhost", "onheader", "onbefore", "negotiate"} {
		for _, st := range []int{0, -1, -2, 403, 401, 400, 500, 503} {
			for _, variant := range []string{"allok", "nohost", "badupgrade", "noextra", "http10"} {
				q := base
				q.Extra = variant != "noextra"
				q.Exts = []string{"x-a"}
				switch variant {
				case "nohost":
					q.Host = "absent"
				case "badupgrade":
					q.Upgrade = "wrong"
				case "http10":
					q.Version = "1.0"
				}
				cf := scfg{Reject: rej, RejectStatus: st, ExtMode: "none", ExtraHeader: st%2 != 0}
				if rej == "negotiate" {
					cf.ExtMode = "negotiate"
					emit(fmt.Sprintf("cb/HTTPUpgrader/%s/%d/%s", rej, st, variant), "HTTPUpgrader", q, cf)
				}
				emit(fmt.Sprintf("cb/Upgrader/%s/%d/%s", rej, st, variant), "Upgrader", q, cf)
			}
		}
	}
	// a negotiator that objects to one extension only, offered in any position, on one or several header lines
	for _, exts := range [][]string{{"x-reject", "x-a"}, {"x-a", "x-reject"}, {"x-a", "x-reject", "x-b"}, {"x-a", "x-b"}, {"x-reject"}} {
		for _, extLines := range []int{1, 2} {
			for _, st := range []int{0, 403} {
				for _, api := range apis {
					q := base
					q.Exts, q.ExtLines = exts, extLines
					cf := scfg{Reject: "negotiate", RejectStatus: st, ExtMode: "negotiate", RejectExt: "x-reject", ExtAccept: []string{"x-a", "x-b"}}
					emit(fmt.Sprintf("negone/%s/%v/%d/%d", api, exts, extLines, st), api, q, cf)
					// a negotiator with state of its own: it objects the first time it is asked about that
					// extension and would accept it when asked again
					cf.RejectOnce = true
					cf.ExtAccept = []string{"x-a", "x-b", "x-reject"}
					emit(fmt.Sprintf("negonce/%s/%v/%d/%d", api, exts, extLines, st), api, q, cf)
				}
			}
		}
	}
	_ = rng
	meta.Evaluations = n
	meta.Distinct = len(shapes)
	out.Close()
	meta.Files = map[string][]string{"records": out.Files}
	meta.Write(c.dir)
}
