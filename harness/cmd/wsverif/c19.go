package main

import (
	"bytes"
	"compress/flate"
	"context"
	"crypto/ecdsa"
	"crypto/elliptic"
	crand "crypto/rand"
	"crypto/tls"
	"crypto/x509"
	"crypto/x509/pkix"
	"fmt"
	"io"
	"math/big"
	"net"
	"net/url"
	"os"
	"runtime"
	"strings"
	"sync"
	"time"

	"github.com/gobwas/httphead"
	"github.com/gobwas/ws"
	"github.com/gobwas/ws/wsflate"
	"github.com/gobwas/ws/wsutil"
	"wsverif/vh"
)

func init() { drivers["c19"] = c19 }

// jitterConn yields the processor at seeded points to vary interleavings.
type jitterConn struct {
	net.Conn
	seed int
	n    int
}

func (j *jitterConn) Read(p []byte) (int, error) {
	j.n++
	if (j.n*31+j.seed)%3 == 0 {
		runtime.Gosched()
	}
	if (j.n*17+j.seed)%11 == 0 && len(p) > 3 {
		p = p[:3]
	}
	return j.Conn.Read(p)
}

func (j *jitterConn) Write(p []byte) (int, error) {
	j.n++
	if (j.n*13+j.seed)%4 == 0 {
		runtime.Gosched()
	}
	return j.Conn.Write(p)
}

// sessionParams: the permessage-deflate parameters of a session kind (window sizes are negotiated
// only; compress/flate always uses the 32 KiB window, which every receiver accepts).
var sharedDialers = func() map[int]ws.Dialer {
	m := map[int]ws.Dialer{}
	for _, kind := range []int{3, 7} {
		tag := fmt.Sprintf("k%d", kind)
		o := httphead.Option{Name: []byte("permessage-deflate")}
		o.Parameters.Set([]byte("server_max_window_bits"), []byte("12"))
		o.Parameters.Set([]byte("client_max_window_bits"), []byte("14"))
		m[kind] = ws.Dialer{Protocols: []string{"proto-" + tag, "zzz"}, Extensions: []httphead.Option{o, {Name: []byte("x-unused")}},
			Header: ws.HandshakeHeaderString("X-Client: " + tag + "\r\n")}
	}
	return m
}()

func sessionParams(kind int) wsflate.Parameters {
	switch kind {
	case 3:
		return wsflate.Parameters{ServerMaxWindowBits: 10, ClientMaxWindowBits: 11}
	case 5:
		return wsflate.Parameters{ServerNoContextTakeover: true, ClientNoContextTakeover: true, ServerMaxWindowBits: 15}
	case 7:
		return wsflate.Parameters{ClientMaxWindowBits: 8, ServerMaxWindowBits: 9, ClientNoContextTakeover: true}
	}
	return wsflate.DefaultParameters
}

func extsString(es []httphead.Option) string {
	s := ""
	for _, e := range es {
		s += "|" + extString(e)
	}
	return s
}

// session runs one full connection of the given kind and returns the ordered
// observations of both peers (payloads as digests).
func session(kind int, id int) (obs []string, late func() []string, err error) {
	a, b := newBufPipe()
	ca, cb := &jitterConn{Conn: a, seed: id}, &jitterConn{Conn: b, seed: id * 7}
	defer a.Close()
	defer b.Close()
	watchdog := time.AfterFunc(10*time.Second, func() { a.Close(); b.Close() })
	defer watchdog.Stop()
	a2close := func() { a.Close(); b.Close() } // unblocks the other peer
	compressed := kind%2 == 1
	tag := fmt.Sprintf("k%d", kind)
	sizes := [][]int{{1, 10, 100}, {4096, 5}, {70000, 3}, {0, 126, 125, 65536}}[kind/2%4]
	var sobs, cobs []string
	var keepProto, keepCProto string
	var keepClosed error
	var keepExts, keepSExts []httphead.Option
	var wg sync.WaitGroup
	var serr, cerr error
	wg.Add(2)
	go func() { // server
		defer wg.Done()
		defer func() { // a panic inside the library ends this peer with an error instead of the whole driver
			if p := recover(); p != nil {
				serr = fmt.Errorf("panic: %v", p)
				a2close()
			}
		}()
		var hs ws.Handshake
		if kind%4 == 0 {
			hs, serr = ws.Upgrade(cb) // DefaultUpgrader
		} else {
			ext := wsflate.Extension{Parameters: sessionParams(kind)}
			negotiate := func(o httphead.Option) (httphead.Option, error) {
				sobs = append(sobs, "offer:"+extString(o)) // what this session's client offered, as the server sees it
				return ext.Negotiate(o)
			}
			u := ws.Upgrader{Protocol: func(p []byte) bool { return string(p) == "proto-"+tag }, Negotiate: negotiate,
				Header: ws.HandshakeHeaderString("X-Session: " + tag + "\r\n")}
			if kind == 2 || kind == 6 { // the selector callback instead of a negotiator: the library copies what it keeps
				u.Negotiate = nil
				u.Extension = func(o httphead.Option) bool {
					sobs = append(sobs, "offer:"+extString(o))
					return true
				}
			}
			hs, serr = u.Upgrade(cb)
		}
		if serr != nil {
			return
		}
		keepSExts = hs.Extensions
		sobs = append(sobs, "hs:"+hs.Protocol+fmt.Sprint(len(hs.Extensions))+extsString(hs.Extensions))
		keepProto = hs.Protocol
		for {
			var ms wsflate.MessageState
			rd := &wsutil.Reader{Source: cb, State: ws.StateServerSide | ws.StateExtended, CheckUTF8: false, Extensions: []wsutil.RecvExtension{&ms},
				OnIntermediate: wsutil.ControlFrameHandler(cb, ws.StateServerSide)}
			h, e := rd.NextFrame()
			if e != nil {
				serr = e
				return
			}
			if h.OpCode.IsControl() {
				e = wsutil.ControlFrameHandler(cb, ws.StateServerSide)(h, rd)
				if _, ok := e.(wsutil.ClosedError); ok {
					sobs = append(sobs, "closed:"+e.Error())
					keepClosed = e
					return
				}
				if e != nil {
					serr = e
					return
				}
				sobs = append(sobs, fmt.Sprintf("ctl:%d", h.OpCode))
				continue
			}
			var p []byte
			if ms.IsCompressed() {
				fr := wsflate.NewReader(rd, func(r io.Reader) wsflate.Decompressor { return flate.NewReader(r) })
				p, e = io.ReadAll(fr)
			} else {
				p, e = io.ReadAll(rd)
			}
			if e != nil {
				serr = e
				return
			}
			sobs = append(sobs, fmt.Sprintf("msg:%d:%s", h.OpCode, dg(string(p))))
			// an empty ping of the server's own before the echo (the client's helper answers it)
			if kind%2 == 0 {
				if e = ws.WriteFrame(cb, ws.NewPingFrame(nil)); e != nil {
					serr = e
					return
				}
			}
			// echo through a pooled writer
			w := wsutil.GetWriter(cb, ws.StateServerSide, h.OpCode, 512)
			_, e = w.Write(p)
			if e == nil {
				e = w.Flush()
			}
			wsutil.PutWriter(w)
			if e != nil {
				serr = e
				return
			}
		}
	}()
	go func() { // client
		defer wg.Done()
		defer func() { // a panic inside the library ends this peer with an error instead of the whole driver
			if p := recover(); p != nil {
				cerr = fmt.Errorf("panic: %v", p)
				a2close()
			}
		}()
		d := ws.Dialer{Protocols: []string{"proto-" + tag, "zzz"}, Extensions: []httphead.Option{sessionParams(kind).Option()},
			Header: ws.HandshakeHeaderString("X-Client: " + tag + "\r\n")}
		if kind%4 == 0 {
			d = ws.DefaultDialer
		}
		if kind == 3 || kind == 7 {
			// a dialer value shared by all sessions of this kind (as an application's package-level
			// dialer would be); the server answers with parameters that differ from the offer
			d = sharedDialers[kind]
		}
		uu, _ := url.Parse("ws://session.test/" + tag)
		br, hs, e := d.Upgrade(ca, uu)
		if e != nil {
			cerr = e
			return
		}
		if br != nil {
			ws.PutReader(br)
		}
		cobs = append(cobs, "hs:"+hs.Protocol+fmt.Sprint(len(hs.Extensions))+extsString(hs.Extensions))
		keepCProto, keepExts = hs.Protocol, hs.Extensions
		ownBuf := make([]byte, []int{128, 256, 512}[kind%3])
		for mi, sz := range sizes {
			msg := vh.PBytes(kind*10+mi, 0, sz)
			var ms wsflate.MessageState
			ms.SetCompressed(compressed && len(hs.Extensions) > 0)
			w := wsutil.NewWriterSize(ca, ws.StateClientSide, ws.OpBinary, []int{64, 4096, 125}[mi%3])
			if kind%4 == 2 {
				// a writer over the session's own buffer (its size a class of the shared byte pool), with
				// flushing disabled: messages larger than the buffer make it grow; the buffer stays the
				// session's and is used again for the next message
				w = wsutil.NewWriterBuffer(ca, ws.StateClientSide, ws.OpBinary, ownBuf)
				w.DisableFlush()
			}
			w.SetExtensions(&ms)
			if ms.IsCompressed() {
				fw := wsflate.NewWriter(w, func(x io.Writer) wsflate.Compressor { f, _ := flate.NewWriter(x, 1); return f })
				_, e = fw.Write(msg)
				if e == nil {
					e = fw.Flush()
				}
			} else if kind%3 == 1 && sz >= 100 {
				// a frame put together by hand: header, then the payload through the masking writer in
				// pieces whose sizes sit on and around the classes of the shared byte pool
				mask := [4]byte{byte(kind), byte(mi), 0x5a, byte(sz)}
				e = ws.WriteHeader(ca, ws.Header{Fin: true, OpCode: ws.OpBinary, Masked: true, Mask: mask, Length: int64(sz)})
				cw := wsutil.NewCipherWriter(ca, mask)
				for off, ci := 0, 0; e == nil && off < sz; ci++ {
					k := []int{128, 5, 3, 64, 1, 127, 7, 129, 2, 256, 4, 65}[ci%12]
					if k > sz-off {
						k = sz - off
					}
					_, e = cw.Write(msg[off : off+k])
					off += k
				}
			} else {
				_, e = w.Write(msg)
			}
			if e == nil {
				e = w.Flush()
			}
			if e != nil {
				cerr = e
				return
			}
			if mi%2 == 1 { // an empty ping: the handler answers those from a precompiled frame
				if e = ws.WriteFrame(ca, ws.MaskFrameInPlace(ws.NewPingFrame(nil))); e != nil {
					cerr = e
					return
				}
			}
			if mi%2 == 0 { // a ping in between, answered by the server's handler
				if e = ws.WriteFrame(ca, ws.MaskFrameInPlace(ws.NewPingFrame([]byte("ping-"+tag)))); e != nil {
					cerr = e
					return
				}
			}
			// (the goroutine that serves this connection has just given up on another one, whose peer sent
			// text that is not UTF-8: nothing of that may show here)
			if kind%3 == 0 {
				bad := vh.BuildFrame(1, true, 0, false, [4]byte{}, []byte{'o', 'k', 0xe2, 0x82})
				wsutil.ReadServerData(duplex{bytes.NewReader(bad), &vh.Dest{}})
				wsutil.ReadMessage(bytes.NewReader(bad), ws.StateClientSide, nil)
			}
			// read the echo (and possibly a pong first)
			for {
				p, op, e := wsutil.ReadServerData(ca)
				if e != nil {
					cerr = e
					return
				}
				cobs = append(cobs, fmt.Sprintf("echo:%d:%s", op, dg(string(p))))
				if !bytes.Equal(p, msg) {
					cobs = append(cobs, "MISMATCH")
				}
				break
			}
		}
		e = ws.WriteFrame(ca, ws.MaskFrameInPlace(ws.NewCloseFrame(ws.NewCloseFrameBody(ws.StatusNormalClosure, "bye-"+tag+"-"+strings.Repeat(tag, 45)))))
		if e != nil {
			cerr = e
			return
		}
		// the server's close reply
		f, e := ws.ReadFrame(ca)
		if e != nil {
			cerr = e
			return
		}
		code, reason := ws.ParseCloseFrameData(f.Payload)
		cobs = append(cobs, fmt.Sprintf("close:%d:%s:%d", code, reason, f.Header.OpCode))
	}()
	wg.Wait()
	if serr != nil || cerr != nil {
		return nil, nil, fmt.Errorf("server: %v client: %v", serr, cerr)
	}
	// values the application keeps: they are read again when every session is over
	late = func() []string {
		parts := []string{"proto:" + keepProto + "/" + keepCProto}
		if keepClosed != nil {
			parts = append(parts, "closed:"+keepClosed.Error())
		}
		for _, e := range keepExts {
			parts = append(parts, "ext:"+extString(e))
		}
		for _, e := range keepSExts {
			parts = append(parts, "sext:"+extString(e))
		}
		return parts
	}
	return append(cobs, sobs...), late, nil
}

func c19(c *ctx) {
	out := vh.NewOut(c.dir, "c19", 50000)
	defer out.Close()
	shapes := vh.Shapes{}
	meta := &vh.Meta{Property: "C19", Tier: c.tier, Seed: c.seed,
		Rule: "records = one per concurrently run session: N in {2, 8, 64} goroutine pairs x GOMAXPROCS in {1, 2, 16}, each a full connection over its own net.Pipe (library dialer <-> library upgrader incl. DefaultDialer/ws.Upgrade, plain and permessage-deflate, messages of 0..70000 bytes fragmented by 64/125/4096-byte writers, pings, pooled GetWriter/PutWriter echo, close handshake), with seeded Gosched/short-read jitter; each session's ordered observations must equal those of the same session run alone; distinct = (kind, N, GOMAXPROCS)"}
	kinds := 8
	solo := map[int][]string{}
	// C19_COLD: the very first sessions of the process run concurrently (nothing has been initialised by
	// an earlier sequential session); their solo references are taken afterwards
	type coldRes struct {
		obs []string
		err error
	}
	var cold []coldRes
	if os.Getenv("C19_COLD") != "" {
		cold = make([]coldRes, 16)
		var wg sync.WaitGroup
		start := make(chan struct{})
		for i := range cold {
			wg.Add(1)
			go func(i int) {
				defer wg.Done()
				<-start
				o, late, err := session(i%kinds, 7000+i)
				if late != nil {
					o = append(o, late()...)
				}
				cold[i] = coldRes{o, err}
			}(i)
		}
		close(start)
		wg.Wait()
	}
	var soloFailed []string
	for k := 0; k < kinds; k++ {
		o, late, err := session(k, 1000+k)
		if err != nil {
			// even one connection on its own (its two goroutines share the library's pools and package
			// state) does not get through: reported as a record, not as a dead driver
			soloFailed = append(soloFailed, fmt.Sprintf("solo session %d failed: %v", k, err))
			continue
		}
		solo[k] = append(o, late()...)
		for _, x := range solo[k] {
			if x == "MISMATCH" { // an echo that is not the message sent
				soloFailed = append(soloFailed, fmt.Sprintf("solo session %d: echo differs from the message sent", k))
				break
			}
		}
	}
	n := 0
	if len(soloFailed) > 0 {
		for i, msg := range soloFailed {
			out.Emit(map[string]interface{}{"k": "session", "key": fmt.Sprintf("solo/%d", i), "kind": -1, "n": 1, "procs": 16, "completed": false,
				"obs": []string{msg}, "solo": []string{}, "races": 0}, true)
			n++
		}
		meta.Evaluations = n
		meta.Distinct = 1
		out.Close()
		meta.Files = map[string][]string{"records": out.Files}
		meta.Write(c.dir)
		return
	}
	meta.Samples = append(meta.Samples, solo[3])
	for i, r := range cold {
		key := fmt.Sprintf("cold/%d", i)
		obs := r.obs
		if obs == nil {
			obs = []string{fmt.Sprint(r.err)}
		}
		out.Emit(map[string]interface{}{"k": "session", "key": key, "kind": i % kinds, "n": len(cold), "procs": 16, "completed": r.err == nil,
			"obs": obs, "solo": solo[i%kinds], "races": 0}, true)
		n++
		shapes.Add("cold/%d", i%kinds)
	}
	rounds := 1
	if c.thorough {
		rounds = 6
	}
	if cold != nil {
		rounds = 0
	}
	for round := 0; round < rounds; round++ {
		for _, procs := range []int{1, 2, 16} {
			for _, N := range []int{2, 8, 64} {
				runtime.GOMAXPROCS(procs)
				// failure paths return their pooled objects too: a few refused handshakes (a 403 with a
				// body, the dialer's OnStatusError set; a request the upgrader answers with 400) go
				// first, then the sessions draw from the same pools
				for k := 0; k < 3; k++ {
					refusedHandshakes(round*100 + k)
					failedReads(round*100 + k)
				}
				type res struct {
					obs  []string
					late func() []string
					err  error
				}
				results := make([]res, N)
				var wg sync.WaitGroup
				for i := 0; i < N; i++ {
					wg.Add(1)
					go func(i int) {
						defer wg.Done()
						o, late, err := session((i+round)%kinds, int(c.seed)*1000+round*100+i)
						results[i] = res{o, late, err}
					}(i)
				}
				wg.Wait()
				for i, r := range results {
					k := (i + round) % kinds
					key := fmt.Sprintf("sess/%d/%d/%d/%d", round, procs, N, i)
					if !vh.Only(key) {
						continue
					}
					obs := r.obs
					if r.late != nil {
						obs = append(obs, r.late()...)
					}
					if obs == nil {
						obs = []string{fmt.Sprint(r.err)}
					}
					out.Emit(map[string]interface{}{"k": "session", "key": key, "kind": k, "n": N, "procs": procs, "completed": r.err == nil,
						"obs": obs, "solo": solo[k], "races": 0}, true)
					n++
					shapes.Add("%d/%d/%d", k, N, procs)
				}
			}
		}
	}
	runtime.GOMAXPROCS(16)
	// wss dials with the dialer's default TLS configuration, to different hosts at once: each must
	// announce its own host name (SNI) and fail the same way (the test certificate is not trusted)
	cert, cerr := selfSigned()
	if cerr != nil {
		vh.Fatal("test certificate: %v", cerr)
	}
	soloTLS := map[int][]string{}
	for i := 0; i < 4; i++ {
		soloTLS[i] = tlsSession(i, cert)
	}
	for round := 0; round < 3; round++ {
		N := 16
		res := make([][]string, N)
		var wg sync.WaitGroup
		start := make(chan struct{})
		for i := 0; i < N; i++ {
			wg.Add(1)
			go func(i int) {
				defer wg.Done()
				<-start
				res[i] = tlsSession(i%4, cert)
			}(i)
		}
		close(start)
		wg.Wait()
		for i := range res {
			key := fmt.Sprintf("tls/%d/%d", round, i)
			if !vh.Only(key) {
				continue
			}
			out.Emit(map[string]interface{}{"k": "session", "key": key, "kind": 100 + i%4, "n": N, "procs": 16, "completed": true,
				"obs": res[i], "solo": soloTLS[i%4], "races": 0}, true)
			n++
			shapes.Add("tls/%d", i%4)
		}
	}
	meta.Evaluations = n
	meta.Distinct = len(shapes)
	out.Close()
	meta.Files = map[string][]string{"records": out.Files}
	meta.Write(c.dir)
}

// failedReads: other connections whose peers send text that is not UTF-8 (or end in the middle of a
// sequence), cut frames and protocol violations through every read helper; these reads fail, as they
// should - whatever the helpers share must not carry that over to the sessions.
func failedReads(i int) {
	bad := [][]byte{{0xff, 'a'}, {0xe2, 0x82}, {'o', 'k', 0xc3}, {0xf0, 0x9f}}
	for bi, b := range bad {
		for _, masked := range []bool{true, false} {
			stream := vh.BuildFrame(1, true, 0, masked, [4]byte{1, 2, 3, byte(i)}, b)
			frag := append(vh.BuildFrame(1, false, 0, masked, [4]byte{4, 3, 2, 1}, []byte("x")), vh.BuildFrame(0, true, 0, masked, [4]byte{9, 9, 9, 9}, b)...)
			cut := vh.BuildFrame(2, true, 0, masked, [4]byte{7, 7, 7, 7}, vh.PBytes(i+bi, 0, 300))[:150]
			for _, st := range [][]byte{stream, frag, cut} {
				rw := duplex{bytes.NewReader(st), &vh.Dest{}}
				if masked {
					wsutil.ReadClientData(rw)
					wsutil.ReadClientText(duplex{bytes.NewReader(st), &vh.Dest{}})
					wsutil.ReadMessage(bytes.NewReader(st), ws.StateServerSide, nil)
				} else {
					wsutil.ReadServerData(rw)
					wsutil.ReadServerText(duplex{bytes.NewReader(st), &vh.Dest{}})
					wsutil.ReadMessage(bytes.NewReader(st), ws.StateClientSide, nil)
				}
			}
		}
	}
}

// refusedHandshakes runs handshakes that fail on either side.
func refusedHandshakes(i int) {
	uu, _ := url.Parse("ws://refused.test/x")
	pc := &peerConn{}
	pc.build = func(string) []byte {
		return []byte(fmt.Sprintf("HTTP/1.1 403 Forbidden\r\nContent-Length: 6\r\nX-I: %d\r\n\r\nnope!\n", i))
	}
	d := ws.Dialer{OnStatusError: func(status int, reason []byte, r io.Reader) { io.Copy(io.Discard, r) }}
	// (what these attempts return is not judged here - C09/C10 do that; they only exercise the failure paths)
	if br, _, _ := d.Upgrade(pc, uu); br != nil {
		ws.PutReader(br)
	}
	d2 := ws.Dialer{}
	pc2 := &peerConn{}
	pc2.build = pc.build
	d2.Upgrade(pc2, uu)
	rw := &rwBuf{r: strings.NewReader("POST /x HTTP/1.1\r\nHost: h\r\n\r\n")}
	ws.Upgrader{}.Upgrade(rw)
	rw2 := &rwBuf{r: strings.NewReader("GET /x HTTP/1.1\r\nHost: h\r\nUpgrade: websocket\r\nConnection: Upgrade\r\nSec-WebSocket-Version: 13\r\nSec-WebSocket-Key: dGhlIHNhbXBsZSBub25jZQ==\r\n\r\n")}
	ws.Upgrader{OnRequest: func([]byte) error { return ws.RejectConnectionError(ws.RejectionStatus(401)) }}.Upgrade(rw2)
}

// selfSigned makes a certificate for *.tls.test that no client trusts.
func selfSigned() (tls.Certificate, error) {
	key, err := ecdsa.GenerateKey(elliptic.P256(), crand.Reader)
	if err != nil {
		return tls.Certificate{}, err
	}
	tmpl := &x509.Certificate{SerialNumber: big.NewInt(1), Subject: pkix.Name{CommonName: "tls.test"}, DNSNames: []string{"*.tls.test"},
		NotBefore: time.Now().Add(-time.Hour), NotAfter: time.Now().Add(24 * time.Hour), KeyUsage: x509.KeyUsageDigitalSignature, ExtKeyUsage: []x509.ExtKeyUsage{x509.ExtKeyUsageServerAuth}}
	der, err := x509.CreateCertificate(crand.Reader, tmpl, tmpl, &key.PublicKey, key)
	if err != nil {
		return tls.Certificate{}, err
	}
	return tls.Certificate{Certificate: [][]byte{der}, PrivateKey: key}, nil
}

// tlsSession dials wss://host-<i>.tls.test through the library's default TLS client over an in-memory
// duplex; a TLS server on the other end records the server name the client announced.
func tlsSession(i int, cert tls.Certificate) []string {
	host := fmt.Sprintf("host-%d.tls.test", i)
	a, b := newBufPipe()
	defer a.Close()
	sni := make(chan string, 1)
	go func() {
		got := "(no hello)"
		srv := tls.Server(b, &tls.Config{GetConfigForClient: func(h *tls.ClientHelloInfo) (*tls.Config, error) {
			got = h.ServerName
			return &tls.Config{Certificates: []tls.Certificate{cert}}, nil
		}})
		srv.Handshake()
		b.Close()
		sni <- got
	}()
	d := ws.Dialer{Timeout: 10 * time.Second, NetDial: func(ctx context.Context, network, addr string) (net.Conn, error) { return a, nil }}
	_, _, _, err := d.Dial(context.Background(), "wss://"+host+"/x")
	a.Close()
	class := "nil"
	if err != nil {
		class = "other"
		if strings.Contains(err.Error(), "x509") || strings.Contains(err.Error(), "certificate") {
			class = "untrusted-certificate"
		}
	}
	return []string{"sni:" + <-sni, "err:" + class, "want:" + host}
}

// ---- a buffered in-memory duplex (net.Pipe is synchronous and would deadlock two writers)

type halfPipe struct {
	mu     sync.Mutex
	cond   *sync.Cond
	buf    bytes.Buffer
	closed bool
}

func newHalf() *halfPipe { h := &halfPipe{}; h.cond = sync.NewCond(&h.mu); return h }

func (h *halfPipe) write(p []byte) (int, error) {
	h.mu.Lock()
	defer h.mu.Unlock()
	if h.closed {
		return 0, io.ErrClosedPipe
	}
	h.buf.Write(p)
	h.cond.Broadcast()
	return len(p), nil
}

func (h *halfPipe) read(p []byte) (int, error) {
	h.mu.Lock()
	defer h.mu.Unlock()
	for h.buf.Len() == 0 && !h.closed {
		h.cond.Wait()
	}
	if h.buf.Len() == 0 {
		return 0, io.EOF
	}
	return h.buf.Read(p)
}

func (h *halfPipe) close() { h.mu.Lock(); h.closed = true; h.cond.Broadcast(); h.mu.Unlock() }

type bufConn struct {
	in, out *halfPipe
}

func newBufPipe() (*bufConn, *bufConn) {
	x, y := newHalf(), newHalf()
	return &bufConn{in: x, out: y}, &bufConn{in: y, out: x}
}

func (c *bufConn) Read(p []byte) (int, error)       { return c.in.read(p) }
func (c *bufConn) Write(p []byte) (int, error)      { return c.out.write(p) }
func (c *bufConn) Close() error                     { c.in.close(); c.out.close(); return nil }
func (c *bufConn) LocalAddr() net.Addr              { return &net.TCPAddr{} }
func (c *bufConn) RemoteAddr() net.Addr             { return &net.TCPAddr{} }
func (c *bufConn) SetDeadline(time.Time) error      { return nil }
func (c *bufConn) SetReadDeadline(time.Time) error  { return nil }
func (c *bufConn) SetWriteDeadline(time.Time) error { return nil }
