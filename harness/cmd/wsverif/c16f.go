package main

import (
	"bufio"
	"bytes"
	"compress/flate"
	"context"
	"fmt"
	"github.com/gobwas/ws/wsflate"
	"github.com/gobwas/ws/wsutil"
	"io"
	"net"
	"net/url"
	"strings"

	"github.com/gobwas/httphead"
	"github.com/gobwas/ws"
	"wsverif/vh"
)

func init() { drivers["c16f"] = c16f }

// cutConn serves a response built from the request's key, cut at an offset; writes may fail at an index.
type cutConn struct {
	memConn
	req      bytes.Buffer
	build    func(key string) []byte
	cut      int // -1: whole
	end      error
	dataErr  bool
	chunk    []int
	src      *vh.ChunkReader
	total    int
	failAt   int // index (1-based) of the failing Write call; 0 never
	writes   int
	afterErr int // bytes offered to Write after the failing call
}

func (c *cutConn) Write(b []byte) (int, error) {
	c.writes++
	if c.failAt > 0 && c.writes >= c.failAt {
		if c.writes > c.failAt {
			c.afterErr += len(b)
		}
		return 0, vh.ErrInjected
	}
	c.req.Write(b)
	return len(b), nil
}

func (c *cutConn) Read(b []byte) (int, error) {
	if c.src == nil {
		h := parseHead(c.req.Bytes())
		resp := c.build(h.first("Sec-WebSocket-Key"))
		c.total = len(resp)
		if c.cut >= 0 && c.cut < len(resp) {
			resp = resp[:c.cut]
		}
		c.src = &vh.ChunkReader{Data: resp, Sizes: c.chunk, End: c.end, DataErr: c.dataErr}
	}
	return c.src.Read(b)
}

// c16f: the frame-level API and the two handshakes on a transport that ends or fails at a byte offset,
// and handshakes whose own writes fail (C16; the streaming reader and the writer are c16r / c16w).
func c16f(c *ctx) {
	out := vh.NewOut(c.dir, "c16f", 50000)
	defer out.Close()
	shapes := vh.Shapes{}
	meta := &vh.Meta{Property: "C16", Tier: c.tier, Seed: c.seed,
		Rule: "records = (a) ws.ReadFrame / ws.ReadHeader on one frame (payload 0,1,125,126,65535,65536, 2^20-1, 2^20, 2^20+1, 2*2^20, 2*2^20+5, 3*2^20; masked or not) cut at every header offset and at payload offsets {0,1,511,512,513,4095,4096,4097,n/2,n-1, every multiple of 2^20 and its neighbours}, as EOF, as EOF delivered together with the last bytes, and as a transport error, three chunkings; (b) Upgrader.Upgrade on 4 request forms cut at every byte offset (EOF / error), read buffers {default,16,64}; response writes failing at call 1..3; (c) Dialer.Upgrade with 3 response forms cut at every byte offset (EOF / error), read buffers {default,16,64}, and request writes failing at call 1..4; distinct = (api, region of the cut, end kind, outcome)"}
	n := 0
	emit := func(rec map[string]interface{}, shape string) {
		out.Emit(rec, true)
		shapes.Add("%s", shape)
		n++
	}
	ends := []struct {
		name    string
		err     error
		dataErr bool
	}{{"eof", nil, false}, {"eofdata", nil, true}, {"err", vh.ErrInjected, false}}
	chunkings := [][]int{nil, {1}, {7, 512, 3}}
	// ---- (a) frames
	mib := 1 << 20
	sizes := []int{0, 1, 125, 126, 65535, 65536, mib - 1, mib, mib + 1, 2 * mib, 2*mib + 5, 3 * mib}
	if !c.thorough {
		sizes = []int{0, 1, 125, 126, 65536, mib, mib + 1, 2*mib + 5}
	}
	rot := 0
	for _, pl := range sizes {
		for _, masked := range []bool{false, true} {
			wire := vh.BuildFrame(2, true, 0, masked, [4]byte{0x11, 0x22, 0x33, 0x44}, vh.PBytes(3, 0, pl))
			hn := len(wire) - pl
			cuts := map[int]bool{}
			for i := 0; i <= hn; i++ {
				cuts[i] = true
			}
			for _, o := range []int{0, 1, 511, 512, 513, 4095, 4096, 4097, pl / 2, pl - 1, pl} {
				if o >= 0 && o <= pl {
					cuts[hn+o] = true
				}
			}
			for m := mib; m <= pl; m += mib {
				for d := -1; d <= 1; d++ {
					if m+d >= 0 && m+d <= pl {
						cuts[hn+m+d] = true
					}
				}
			}
			for cut := range cuts {
				for _, e := range ends {
					rot++
					if pl >= mib && !c.thorough && rot%2 == 0 && (cut-hn)%mib != 0 {
						continue
					}
					key := fmt.Sprintf("frame/%d/%v/%d/%s", pl, masked, cut, e.name)
					if !vh.Only(key) {
						continue
					}
					src := &vh.ChunkReader{Data: wire[:cut], Sizes: chunkings[rot%3], End: e.err, DataErr: e.dataErr}
					f, err := ws.ReadFrame(src)
					payOK := err == nil && bytes.Equal(f.Payload, wire[hn:]) && f.Header.Length == int64(pl)
					_, herr := ws.ReadHeader(&vh.ChunkReader{Data: wire[:minInt(cut, hn)], Sizes: chunkings[(rot+1)%3], End: e.err, DataErr: e.dataErr})
					region := "header"
					if cut >= hn {
						region = "payload"
					}
					if cut == len(wire) {
						region = "whole"
					}
					emit(map[string]interface{}{"k": "frame", "key": key, "cut": cut, "total": len(wire), "hn": hn, "end": e.name,
						"err": vh.ErrClass(err), "payOK": payOK, "got": len(f.Payload), "herr": vh.ErrClass(herr)},
						fmt.Sprintf("frame/%s/%s/%v/%s", region, e.name, (cut-hn)%mib == 0 && cut > hn, vh.ErrClass(err)))
				}
			}
		}
	}
	// ---- (a2) a compressed message (several flushes: block boundaries inside) whose source fails - not a clean
	// end - at every offset: the decompression reader must pass the failure on, whatever it has inflated so far
	{
		var cb bytes.Buffer
		fw := wsflate.NewWriter(&cb, func(x io.Writer) wsflate.Compressor { f, _ := flate.NewWriter(x, 6); return f })
		for i := 0; i < 4; i++ {
			fw.Write(bytes.Repeat([]byte{byte('a' + i)}, 9+i))
			fw.Flush()
		}
		fw.Write([]byte("the end"))
		fw.Close()
		comp := cb.Bytes()
		for cut := 0; cut <= len(comp); cut++ {
			for _, e := range []struct {
				name    string
				err     error
				dataErr bool
			}{{"err", vh.ErrInjected, false}, {"uerr", io.ErrUnexpectedEOF, false}, {"errdata", vh.ErrInjected, true}} {
				for bi, byByte := range []bool{false, true} {
					key := fmt.Sprintf("flate/%d/%s/%v", cut, e.name, byByte)
					if !vh.Only(key) {
						continue
					}
					var src io.Reader = &vh.ChunkReader{Data: comp[:cut], Sizes: chunkings[(cut+bi)%3], End: e.err, DataErr: e.dataErr}
					if byByte {
						src = bufio.NewReaderSize(src, 16) // (an io.ByteReader: flate then reads byte by byte)
					}
					fr := wsflate.NewReader(src, func(x io.Reader) wsflate.Decompressor { return flate.NewReader(x) })
					got, err := io.ReadAll(fr)
					emit(map[string]interface{}{"k": "flate", "key": key, "cut": cut, "total": len(comp), "end": e.name, "err": vh.ErrClass(err), "got": len(got)},
						fmt.Sprintf("flate/%s/%v/%s", e.name, byByte, vh.ErrClass(err)))
				}
			}
		}
	}
	// ---- (b) server handshake
	key := "dGhlIHNhbXBsZSBub25jZQ=="
	reqs := []string{
		"GET /x HTTP/1.1\r\nHost: h\r\nUpgrade: websocket\r\nConnection: Upgrade\r\nSec-WebSocket-Version: 13\r\nSec-WebSocket-Key: " + key + "\r\n\r\n",
		"GET /chat?x=1 HTTP/1.1\r\nHost: example.com:8080\r\nConnection: keep-alive, Upgrade\r\nUpgrade: WebSocket\r\nSec-WebSocket-Key: " + key + "\r\nSec-WebSocket-Protocol: a, chat\r\nSec-WebSocket-Extensions: permessage-deflate; client_max_window_bits, x-a\r\nSec-WebSocket-Version: 13\r\nCookie: k=v\r\n\r\n",
		"GET / HTTP/1.1\nHost: h\nUpgrade: websocket\nConnection: Upgrade\nSec-WebSocket-Version: 13\nSec-WebSocket-Key: " + key + "\n\n",
		"GET /x HTTP/1.1\r\nSec-WebSocket-Key: " + key + "\r\nX-Long: " + strings.Repeat("v", 300) + "\r\nHost: h\r\nUpgrade: websocket\r\nConnection: Upgrade\r\nSec-WebSocket-Version: 13\r\n\r\n",
	}
	mkUp := func(rb int) ws.Upgrader {
		return ws.Upgrader{ReadBufferSize: rb, WriteBufferSize: 16,
			Protocol:  func(p []byte) bool { return string(p) == "chat" },
			Extension: func(o httphead.Option) bool { return true },
			OnHeader:  func(k, v []byte) error { return nil }}
	}
	for ri, req := range reqs {
		for cut := 0; cut <= len(req); cut++ {
			for _, e := range ends {
				rot++
				if !c.thorough && rot%2 == 0 && cut < len(req)-6 && cut > 20 {
					continue
				}
				k := fmt.Sprintf("srv/%d/%d/%s", ri, cut, e.name)
				if !vh.Only(k) {
					continue
				}
				rw := &rwBuf{r: &vh.ChunkReader{Data: []byte(req[:cut]), Sizes: chunkings[rot%3], End: e.err, DataErr: e.dataErr}}
				u := mkUp([]int{0, 16, 64}[rot%3])
				_, err := u.Upgrade(rw)
				emit(map[string]interface{}{"k": "srv", "key": k, "cut": cut, "total": len(req), "end": e.name, "err": vh.ErrClass(err) != "nil",
					"wrote101": bytes.HasPrefix(rw.w.Bytes(), []byte("HTTP/1.1 101"))}, fmt.Sprintf("srv/%d/%v/%s/%v", ri, cut == len(req), e.name, err == nil))
			}
		}
		for failAt := 1; failAt <= 3; failAt++ {
			k := fmt.Sprintf("srvwrite/%d/%d", ri, failAt)
			if !vh.Only(k) {
				continue
			}
			fw := &failRW{r: strings.NewReader(req), failAt: failAt}
			u := mkUp(0)
			_, err := u.Upgrade(fw)
			emit(map[string]interface{}{"k": "srvwrite", "key": k, "failAt": failAt, "writes": fw.writes, "err": err != nil}, fmt.Sprintf("srvwrite/%v/%v", fw.writes >= failAt, err == nil))
		}
	}
	// ---- (c) client handshake
	resps := []func(string) []byte{
		func(k string) []byte {
			return []byte("HTTP/1.1 101 Switching Protocols\r\nUpgrade: websocket\r\nConnection: Upgrade\r\nSec-WebSocket-Accept: " + acceptFor(k) + "\r\n\r\n")
		},
		func(k string) []byte {
			return []byte("HTTP/1.1 101 Switching Protocols\r\nServer: verif\r\nConnection: Upgrade\r\nSec-WebSocket-Protocol: chat\r\nUpgrade: websocket\r\nSec-WebSocket-Extensions: permessage-deflate; server_max_window_bits=10\r\nSec-WebSocket-Accept: " + acceptFor(k) + "\r\nX-Last: " + strings.Repeat("z", 100) + "\r\n\r\n")
		},
		func(k string) []byte {
			return []byte("HTTP/1.1 101 Switching Protocols\nUpgrade: websocket\nConnection: Upgrade\nSec-WebSocket-Accept: " + acceptFor(k) + "\n\n")
		},
	}
	uu, _ := url.Parse("ws://example.com/path")
	for ri, build := range resps {
		total := len(build(key))
		for cut := 0; cut <= total; cut++ {
			for _, e := range ends {
				rot++
				if !c.thorough && rot%2 == 0 && cut < total-6 && cut > 20 {
					continue
				}
				k := fmt.Sprintf("cli/%d/%d/%s", ri, cut, e.name)
				if !vh.Only(k) {
					continue
				}
				conn := &cutConn{build: build, cut: cut, end: e.err, dataErr: e.dataErr, chunk: chunkings[rot%3]}
				d := ws.Dialer{ReadBufferSize: []int{0, 16, 64}[rot%3], Protocols: []string{"chat"}, Extensions: []httphead.Option{{Name: []byte("permessage-deflate")}}}
				_, _, err := d.Upgrade(conn, uu)
				emit(map[string]interface{}{"k": "cli", "key": k, "cut": cut, "total": total, "end": e.name, "err": err != nil}, fmt.Sprintf("cli/%d/%v/%s/%v", ri, cut == total, e.name, err == nil))
			}
		}
		// the same cuts through the debug wrapper: same outcome, and OnResponse reports what was received
		for cut := 0; cut <= total; cut++ {
			if !c.thorough && cut%3 != 0 && cut < total-6 && cut > 4 {
				continue
			}
			k := fmt.Sprintf("clidebug/%d/%d", ri, cut)
			if !vh.Only(k) {
				continue
			}
			conn := &cutConn{build: build, cut: cut, chunk: chunkings[cut%3]}
			var got []byte
			calls := 0
			dd := wsutil.DebugDialer{Dialer: ws.Dialer{NetDial: func(ctx context.Context, n, a string) (net.Conn, error) { return conn, nil },
				Protocols: []string{"chat"}, Extensions: []httphead.Option{{Name: []byte("permessage-deflate")}}},
				OnResponse: func(b []byte) { got = append([]byte(nil), b...); calls++ }}
			_, _, _, err := dd.Dial(context.Background(), "ws://example.com/path")
			want := build(parseHead(conn.req.Bytes()).first("Sec-WebSocket-Key"))
			if cut < len(want) {
				want = want[:cut]
			}
			emit(map[string]interface{}{"k": "clidebug", "key": k, "cut": cut, "total": total, "err": err != nil, "calls": calls, "reportedOK": bytes.Equal(got, want)},
				fmt.Sprintf("clidebug/%d/%v/%v", ri, cut == total, err == nil))
		}
		for failAt := 1; failAt <= 4; failAt++ {
			for _, wb := range []int{0, 16} {
				k := fmt.Sprintf("cliwrite/%d/%d/%d", ri, failAt, wb)
				if !vh.Only(k) {
					continue
				}
				conn := &cutConn{build: build, cut: -1, failAt: failAt}
				d := ws.Dialer{WriteBufferSize: wb}
				_, _, err := d.Upgrade(conn, uu)
				emit(map[string]interface{}{"k": "cliwrite", "key": k, "failAt": failAt, "writes": conn.writes, "err": err != nil}, fmt.Sprintf("cliwrite/%v/%v", conn.writes >= failAt, err == nil))
			}
		}
	}
	meta.Evaluations = n
	meta.Distinct = len(shapes)
	out.Close()
	meta.Files = map[string][]string{"records": out.Files}
	meta.Write(c.dir)
}

type failRW struct {
	r      io.Reader
	failAt int
	writes int
}

func (f *failRW) Read(p []byte) (int, error) { return f.r.Read(p) }
func (f *failRW) Write(p []byte) (int, error) {
	f.writes++
	if f.writes >= f.failAt {
		return 0, vh.ErrInjected
	}
	return len(p), nil
}

func minInt(a, b int) int {
	if a < b {
		return a
	}
	return b
}
