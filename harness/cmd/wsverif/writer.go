package main

import (
	"errors"
	"fmt"
	"strings"

	"github.com/gobwas/ws"
	"github.com/gobwas/ws/wsflate"
	"github.com/gobwas/ws/wsutil"
	"wsverif/vh"
)

// ---------------------------------------------------------------- writer scenarios

type wop struct {
	Name string `json:"name"` // Write WriteThrough ReadFrom FlushFragment Flush Grow DisableFlush SetExt Reset ResetOp PutGet
	Arg  string `json:"arg"`  // relative size: 0 1 a-1 a a+1 s s+1 2s+1 or a number; for Reset "side/op"
	Aux  string `json:"aux"`  // ReadFrom: eof|err ; chunking
}

type wscenario struct {
	Key     string `json:"key"`
	Ctor    string `json:"ctor"` // NewWriter NewWriterSize NewWriterBufferSize NewWriterBuffer GetWriter
	N       int    `json:"n"`
	Side    string `json:"side"`
	Op      int    `json:"op"`
	Ops     []wop  `json:"ops"`
	FailAt  int    `json:"failAt"`
	Partial int    `json:"partial"`
	Ext     bool   `json:"ext"` // attach a wsflate.MessageState from the start
	NoCap   bool   `json:"-"`   // sizes are absolute (replay of model behaviours): do not cap them
}

// wev is one logged event; every field is always present so that the TLA+
// monitor can read it.
type wev struct {
	Ev         string `json:"ev"`
	Key        string `json:"key,omitempty"`
	Kind       string `json:"kind,omitempty"`
	K          int    `json:"k"`
	N          int    `json:"n"`
	Err        string `json:"err"`
	Out        []vh.F `json:"out"`
	Rest       int    `json:"rest"`
	DestFailed bool   `json:"destFailed"`
	Late       int    `json:"late"`
	Size       int    `json:"size"`
	Avail      int    `json:"avail"`
	Buffered   int    `json:"buffered"`
	Total      int    `json:"total"`
	SrcErr     string `json:"srcErr"`
	Side       string `json:"side"`
	Op         int    `json:"op"`
	Compressed bool   `json:"compressed"`
	OkLimit    int    `json:"oklimit"`
	Calls      int    `json:"calls"` // destination write calls so far
	Twin       string `json:"twin"`  // after Reset: same|diff compared with a fresh instance in lock-step
	St         wst    `json:"st"`    // internal state through the verif-tagged hook (strict / replay conformance only)
}

// wst mirrors wsutil.WriterVerifState.
type wst struct {
	Raw     int  `json:"raw"`
	Buf     int  `json:"buf"`
	N       int  `json:"n"`
	Dirty   bool `json:"dirty"`
	Fseq    int  `json:"fseq"`
	Err     bool `json:"err"`
	NoFlush bool `json:"noflush"`
	Exts    int  `json:"exts"`
}

func stOf(w *wsutil.Writer) wst { return writerState(w) }

var errSrc = errors.New("injected source error")

var errExt = errors.New("extension refuses the frame")

func werr(err error) string {
	switch err {
	case nil:
		return "nil"
	case wsutil.ErrNotEmpty:
		return "not_empty"
	case wsutil.ErrControlOverflow:
		return "ctl_overflow"
	case errSrc:
		return "transport_src"
	case errExt:
		return "ext"
	}
	return vh.ErrClass(err)
}

// wsState: "server" | "client", optionally followed by "+ext" / "+frag" (further state bits that
// say nothing about the side: frames are masked exactly when the client bit is set).
func wsState(side string) ws.State {
	st := ws.StateServerSide
	if strings.HasPrefix(side, "client") {
		st = ws.StateClientSide
	}
	if strings.Contains(side, "+ext") {
		st |= ws.StateExtended
	}
	if strings.Contains(side, "+frag") {
		st |= ws.StateFragmented
	}
	return st
}

func plainSide(side string) string {
	if i := strings.IndexByte(side, '+'); i >= 0 {
		return side[:i]
	}
	return side
}

// srcReader yields total position-coded bytes starting at global index base in
// chunks, then end (io.EOF or errSrc).
type srcReader struct {
	base, total, pos int
	chunk            int
	end              error
	dataErr          bool // the last bytes come together with the end error (n > 0, err != nil)
	stall            bool // after its bytes the source returns (0, nil) for ever
}

func (s *srcReader) Read(p []byte) (int, error) {
	if s.pos >= s.total {
		if s.stall {
			return 0, nil // a source that makes no progress any more (and reports no error either)
		}
		return 0, s.end
	}
	k := len(p)
	if s.chunk > 0 && s.chunk < k {
		k = s.chunk
	}
	if k > s.total-s.pos {
		k = s.total - s.pos
	}
	for i := 0; i < k; i++ {
		p[i] = vh.PByte(0, s.base+s.pos+i)
	}
	s.pos += k
	if s.dataErr && s.pos >= s.total {
		return k, s.end
	}
	return k, nil
}

// wrunner executes a scenario on the real wsutil.Writer.
type wrunner struct {
	w       *wsutil.Writer
	d       *vh.Dest
	ms      *wsflate.MessageState
	acc     int // caller bytes accepted so far (global numbering)
	hsent   int
	seen    int // bytes of d.Buf already parsed
	late    int
	prevLen int
	failed  bool
	evs     []wev
	// the caller's own list of extensions, handed over with SetExtensions(shared...) every time
	// (also after a Reset or a trip through the pool): it stays the caller's
	shared   []wsutil.SendExtension
	sharedMS *wsflate.MessageState
}

// attach installs the message-state extension from the caller's list.
func (r *wrunner) attach() {
	if r.shared == nil {
		r.sharedMS = &wsflate.MessageState{}
		r.shared = []wsutil.SendExtension{r.sharedMS}
	}
	if len(r.shared) != 1 || r.shared[0] != wsutil.SendExtension(r.sharedMS) {
		panic("the caller's extension list was modified by the writer")
	}
	r.sharedMS.SetCompressed(false)
	r.ms = r.sharedMS
	r.w.SetExtensions(r.shared...)
}

// resolve turns a relative size into bytes; sizes are capped so that a
// flush-disabled writer (whose Size() grows with every write) stays small.
func resolve(arg string, w *wsutil.Writer) int {
	n := resolve0(arg, w)
	if n > 300000 && !noCap {
		n = n%1000 + 1
	}
	return n
}

func resolve0(arg string, w *wsutil.Writer) int {
	a, s := w.Available(), w.Size()
	switch arg {
	case "0":
		return 0
	case "1":
		return 1
	case "a-1":
		if a < 1 {
			return 0
		}
		return a - 1
	case "a":
		return a
	case "a+1":
		return a + 1
	case "s":
		return s
	case "s+1":
		return s + 1
	case "2s+1":
		return 2*s + 1
	case "s/2":
		return s / 2
	}
	var n int
	fmt.Sscanf(arg, "%d", &n)
	return n
}

// observe parses what reached the destination since the last call.
func (r *wrunner) observe(e *wev, offered int) {
	data := r.d.Buf[r.seen:]
	fs, rest := vh.ParseFrames(data)
	r.seen = len(r.d.Buf) - len(rest)
	e.Rest = len(rest)
	if len(r.d.Buf) == r.prevLen {
		e.Rest = 0 // leftover of an earlier call, already reported there
	}
	r.prevLen = len(r.d.Buf)
	e.Out = []vh.F{}
	for _, f := range fs {
		lo := -1
		if vh.MatchP(0, r.hsent, f.Raw) {
			lo = r.hsent
		} else {
			for c := 0; c+f.Len <= r.acc+offered; c++ {
				if vh.MatchP(0, c, f.Raw) {
					lo = c
					break
				}
			}
		}
		f.Lo, f.Hi = lo, lo+f.Len
		if lo < 0 {
			f.Hi = -1
			r.hsent += f.Len
		} else {
			r.hsent = f.Hi
		}
		if f.Len <= 64 {
			f.Pay = vh.Ints(f.Raw)
		}
		e.Out = append(e.Out, f)
	}
	e.Late = r.d.Late - r.late
	r.late = r.d.Late
	nowFailed := r.d.FailAt > 0 && r.d.Calls >= r.d.FailAt
	e.DestFailed = nowFailed && !r.failed
	r.failed = nowFailed
	e.Size, e.Avail, e.Buffered = r.w.Size(), r.w.Available(), r.w.Buffered()
	e.Calls = r.d.Calls
}

func newWriterFor(sc wscenario, d *vh.Dest) *wsutil.Writer {
	st, op := wsState(sc.Side), ws.OpCode(sc.Op)
	switch sc.Ctor {
	case "NewWriter":
		return wsutil.NewWriter(d, st, op)
	case "NewWriterSize":
		return wsutil.NewWriterSize(d, st, op, sc.N)
	case "NewWriterBufferSize":
		return wsutil.NewWriterBufferSize(d, st, op, sc.N)
	case "NewWriterBuffer":
		return wsutil.NewWriterBuffer(d, st, op, make([]byte, sc.N))
	case "GetWriter":
		return wsutil.GetWriter(d, st, op, sc.N)
	}
	vh.Fatal("bad ctor %q", sc.Ctor)
	return nil
}

var noCap bool

func runWriter(sc wscenario) (evs []wev) {
	noCap = sc.NoCap
	d := &vh.Dest{FailAt: sc.FailAt, Partial: sc.Partial}
	r := &wrunner{d: d}
	defer func() {
		if p := recover(); p != nil {
			evs = append(r.evs, wev{Ev: "panic", Err: fmt.Sprint(p), Out: []vh.F{}})
		}
	}()
	r.w = newWriterFor(sc, d)
	r.evs = append(r.evs, wev{Ev: "setup", Key: sc.Key, Kind: "writer", Side: plainSide(sc.Side), Op: sc.Op, Size: r.w.Size(), Out: []vh.F{}})
	if sc.Ext {
		r.attach()
		r.evs = append(r.evs, wev{Ev: "SetExt", Compressed: false, Out: []vh.F{}})
	}
	return runOps(r, sc.Ops)
}

// runOps executes ops on r and returns all events logged so far.
func runOps(r *wrunner, ops []wop) (evs []wev) {
	defer func() {
		if p := recover(); p != nil {
			evs = append(r.evs, wev{Ev: "panic", Err: fmt.Sprint(p), Out: []vh.F{}})
		}
	}()
	for _, o := range ops {
		e := wev{Ev: o.Name, Out: []vh.F{}}
		switch o.Name {
		case "Write", "WriteThrough":
			k := resolve(o.Arg, r.w)
			p := vh.PBytes(0, r.acc, r.acc+k)
			keep := append([]byte(nil), p...)
			var n int
			var err error
			if o.Name == "Write" {
				n, err = r.w.Write(p)
			} else if o.Aux == "extfail" {
				// a send extension that refuses the frame: nothing is sent and the writer is as before
				r.w.SetExtensions(wsutil.SendExtensionFunc(func(h ws.Header) (ws.Header, error) { return h, errExt }))
				n, err = r.w.WriteThrough(p)
				if r.ms != nil {
					r.w.SetExtensions(r.ms)
				} else {
					r.w.SetExtensions()
				}
			} else {
				n, err = r.w.WriteThrough(p)
			}
			e.K, e.N, e.Err = k, n, werr(err)
			if string(keep) != string(p) {
				e.Err = "other:caller slice modified"
			}
			r.observe(&e, k)
			r.acc += n
		case "ReadFrom":
			total := resolve(o.Arg, r.w)
			src := &srcReader{base: r.acc, total: total, end: nil}
			parts := strings.Split(o.Aux, "/")
			e.SrcErr = "eof"
			if parts[0] == "err" {
				src.end = errSrc
				e.SrcErr = "transport_src"
			} else if parts[0] == "stall" {
				src.stall = true
				e.SrcErr = "no_progress" // (what a copy loop makes of such a source: io.ErrNoProgress)
			} else {
				src.end = errEOF()
			}
			if len(parts) > 1 {
				fmt.Sscanf(parts[1], "%d", &src.chunk)
			}
			src.dataErr = !noCap && (total+r.acc)%2 == 1 && !src.stall // (not in replays of model behaviours: the model reads EOF separately)
			n, err := r.w.ReadFrom(src)
			e.K, e.Total, e.N, e.Err = total, src.pos, int(n), werr(err)
			r.observe(&e, total)
			r.acc += int(n)
		case "FlushFragment":
			e.Err = werr(r.w.FlushFragment())
			r.observe(&e, 0)
		case "Flush":
			e.Err = werr(r.w.Flush())
			r.observe(&e, 0)
		case "Grow":
			k := resolve(o.Arg, r.w)
			r.w.Grow(k)
			e.K = k
			e.Err = "nil"
			r.observe(&e, 0)
		case "DisableFlush":
			r.w.DisableFlush()
		case "SetExt":
			if r.ms == nil {
				r.attach()
			}
			r.ms.SetCompressed(o.Arg == "1")
			e.Compressed = o.Arg == "1"
		case "Reset", "PutGet":
			// onto a fresh healthy destination; "side/op"
			var side string
			var op int
			parts := strings.Split(o.Arg, "/")
			side = parts[0]
			fmt.Sscanf(parts[1], "%d", &op)
			nd := &vh.Dest{}
			if o.Name == "Reset" {
				r.w.Reset(nd, wsState(side), ws.OpCode(op))
			} else {
				sz := r.w.Size()
				wsutil.PutWriter(r.w)
				r.w = wsutil.GetWriter(nd, wsState(side), ws.OpCode(op), sz)
			}
			r.d, r.seen, r.late, r.failed, r.prevLen = nd, 0, 0, false, 0
			r.ms = nil
			r.hsent = r.acc
			e.Ev = "Reset"
			e.Side, e.Op, e.Size = plainSide(side), op, r.w.Size()
		case "ResetOp":
			var op int
			fmt.Sscanf(o.Arg, "%d", &op)
			r.w.ResetOp(ws.OpCode(op))
			r.hsent = r.acc
			e.Op = op
		default:
			vh.Fatal("bad op %q", o.Name)
		}
		e.St = stOf(r.w)
		r.evs = append(r.evs, e)
	}
	return r.evs
}

func errEOF() error { return ioEOF }
