package main

import (
	"bytes"
	"context"
	"encoding/base64"
	"fmt"
	"io"
	"math/rand"
	"net"
	"net/http"
	"net/url"
	"strings"
	"time"

	"github.com/gobwas/httphead"
	"github.com/gobwas/ws"
	"wsverif/vh"
)

func init() { drivers["c10"] = c10 }

type cresp struct {
	Proto      string `json:"proto"`
	Status     string `json:"status"`
	Upgrade    string `json:"upgrade"`
	Connection string `json:"connection"`
	Accept     string `json:"accept"`
	Protocol   string `json:"protocol"`
	Exts       string `json:"exts"`
	Cut        bool   `json:"cut"`
	// CutAt > 0: the byte stream ends (EOF, or a transport error when CutErr) after that many bytes of
	// the response head; Cut says whether that really was before the end of the head
	CutAt     int  `json:"cutAt"`
	CutErr    bool `json:"cutErr"`
	VerForm   int  `json:"verForm"`
	Veto      bool `json:"veto"` // the response carries X-Veto, which the dialer's OnHeader callback refuses
	statusTok string
}

var statusTokens = map[string][]string{
	"101":      {"101"},
	"other3":   {"200", "404", "100", "301", "102"},
	"short":    {"10", "1", "01"},
	"long":     {"1010", "1011", "10100", "0101", "00101", "101.0"},
	"nondigit": {"1O1", "9;", "0:1", "10A", "10;", "?1", "1 01", "101x", "-101", "+101", "8=?"},
	// (numbers that are 101 modulo 2^8, 2^16, 2^32 and 2^64)
	"wrap":  {"18446744073709551717", "36893488147419103333", "357", "65637", "131173", "4294967397", "8589934693"},
	"empty": {""},
}

// peerConn plays the server: it reads the request, then serves the scripted
// response (built once the key is known) followed by trailing bytes.
type peerConn struct {
	req      bytes.Buffer
	build    func(key string) []byte
	resp     []byte
	pos      int
	chunk    []int
	ci       int
	trailing []byte
	served   int
	endErr   error
}

func (p *peerConn) Write(b []byte) (int, error) { p.req.Write(b); return len(b), nil }
func (p *peerConn) Read(b []byte) (int, error) {
	if p.resp == nil {
		h := parseHead(p.req.Bytes())
		p.resp = append(p.build(h.first("Sec-WebSocket-Key")), p.trailing...)
	}
	if p.pos >= len(p.resp) {
		if p.endErr != nil {
			return 0, p.endErr
		}
		return 0, io.EOF
	}
	k := len(b)
	if len(p.chunk) > 0 {
		c := p.chunk[p.ci%len(p.chunk)]
		p.ci++
		if c < k {
			k = c
		}
	}
	if k > len(p.resp)-p.pos {
		k = len(p.resp) - p.pos
	}
	copy(b, p.resp[p.pos:p.pos+k])
	p.pos += k
	return k, nil
}

func (r *cresp) render(rng *rand.Rand, key string, reqProtos []string, reqExts []string) (head []byte, sentProto string, sentExts []string) {
	sentExts = []string{}
	proto := "HTTP/" + r.Proto
	if r.Proto == "garbage" {
		proto = append([]string{"HTTX/1.1"}, garbageVersions...)[r.VerForm%(len(garbageVersions)+1)]
		if proto == "" {
			proto = "HTTP/"
		}
	}
	toks := statusTokens[r.Status]
	r.statusTok = toks[r.VerForm%len(toks)] // (every token of the class is used: the cases enumerate VerForm)
	line := proto + " " + r.statusTok + " Switching Protocols"
	var lines []string
	add := func(name, class, okv, variedv, wrongv string) {
		switch class {
		case "absent":
		case "ok":
			lines = append(lines, name+": "+okv)
		case "varied":
			lines = append(lines, caseVar(name, 1+rng.Intn(3))+":"+pad(variedv, rng.Intn(20)))
		case "unifold": // equal to the token under Unicode case folding only (Kelvin sign, long s)
			v := strings.NewReplacer("k", "\u212a").Replace(okv)
			if rng.Intn(2) == 0 {
				v = strings.Replace(okv, "s", "\u017f", 1)
			}
			lines = append(lines, name+": "+v)
		case "dup":
			lines = append(lines, name+": "+okv, name+": "+okv)
		default:
			lines = append(lines, name+": "+wrongv)
		}
	}
	add("Upgrade", r.Upgrade, "websocket", []string{"WebSocket", "WEBSOCKET"}[rng.Intn(2)], "websocketz")
	add("Connection", r.Connection, "Upgrade", []string{"upgrade", "UPGRADE"}[rng.Intn(2)], "keep-alive")
	acc := acceptFor(key)
	switch r.Accept {
	case "otherkey":
		lines = append(lines, "Sec-WebSocket-Accept: "+acceptFor("dGhlIHNhbXBsZSBub25jZQ=="))
	case "short":
		lines = append(lines, "Sec-WebSocket-Accept: "+acc[:27])
	case "lowbits": // differs from the right value only in the unused low bits of the last symbol
		const b64 = "ABCDEFGHIJKLMNOPQRSTUVWXYZabcdefghijklmnopqrstuvwxyz0123456789+/"
		i := strings.IndexByte(b64, acc[26])
		lines = append(lines, "Sec-WebSocket-Accept: "+acc[:26]+string(b64[i^(1+rng.Intn(3))])+acc[27:])
	case "casefold": // base64 is case sensitive
		b := []byte(acc)
		for i, ch := range b {
			if ch >= 'a' && ch <= 'z' {
				b[i] = ch - 32
				break
			}
			if ch >= 'A' && ch <= 'Z' {
				b[i] = ch + 32
				break
			}
		}
		lines = append(lines, "Sec-WebSocket-Accept: "+string(b))
	case "padded":
		lines = append(lines, "Sec-WebSocket-Accept: "+acc+"=")
	default:
		add("Sec-WebSocket-Accept", r.Accept, acc, acc, "")
	}
	switch r.Protocol {
	case "requested":
		if len(reqProtos) > 0 {
			sentProto = reqProtos[rng.Intn(len(reqProtos))]
			lines = append(lines, "Sec-WebSocket-Protocol: "+sentProto)
		}
	case "foreign":
		lines = append(lines, "Sec-WebSocket-Protocol: never-asked")
	case "reqforeign": // a requested one and, on a line of its own, one that was never requested (either order)
		if len(reqProtos) > 0 {
			lines = append(lines, "Sec-WebSocket-Protocol: "+reqProtos[rng.Intn(len(reqProtos))])
		}
		lines = append(lines, "Sec-WebSocket-Protocol: never-asked")
	case "foreignlist": // both in one header value
		lines = append(lines, "Sec-WebSocket-Protocol: "+strings.Join(append(append([]string(nil), reqProtos[:1]...), "never-asked"), ", "))
	}
	switch r.Exts {
	case "offered":
		if len(reqExts) > 0 {
			sentExts = []string{reqExts[0]}
			lines = append(lines, "Sec-WebSocket-Extensions: "+reqExts[0])
		}
	case "offeredparams":
		if len(reqExts) > 0 {
			e := reqExts[len(reqExts)-1]
			sentExts = []string{e + ";server_max_window_bits=10;flag"}
			lines = append(lines, "Sec-WebSocket-Extensions: "+e+"; server_max_window_bits=10; flag")
			if len(reqExts) > 1 {
				sentExts = append(sentExts, reqExts[0])
				lines = append(lines, "Sec-WebSocket-Extensions: "+reqExts[0])
			}
		}
	case "foreign":
		lines = append(lines, "Sec-WebSocket-Extensions: x-never-offered")
	case "offered2": // two offered extensions in one header line, the second-offered first
		if len(reqExts) > 1 {
			sentExts = []string{reqExts[1] + ";a=1", reqExts[0]}
			lines = append(lines, "Sec-WebSocket-Extensions: "+reqExts[1]+"; a=1, "+reqExts[0])
		} else {
			sentExts = []string{reqExts[0]}
			lines = append(lines, "Sec-WebSocket-Extensions: "+reqExts[0])
		}
	case "mixedrev": // the foreign one first
		if len(reqExts) > 0 {
			lines = append(lines, "Sec-WebSocket-Extensions: x-never-offered, "+reqExts[0])
		} else {
			lines = append(lines, "Sec-WebSocket-Extensions: x-never-offered")
		}
	case "mixedmid":
		if len(reqExts) > 1 {
			lines = append(lines, "Sec-WebSocket-Extensions: "+reqExts[0]+", x-never-offered; b, "+reqExts[1])
		} else {
			lines = append(lines, "Sec-WebSocket-Extensions: x-never-offered")
		}
	case "mixed":
		if len(reqExts) > 0 {
			lines = append(lines, "Sec-WebSocket-Extensions: "+reqExts[0]+", x-never-offered; a=1")
		} else {
			lines = append(lines, "Sec-WebSocket-Extensions: x-never-offered")
		}
	}
	if rng.Intn(2) == 0 {
		lines = append(lines, "X-Other: value", "Server: verif")
	}
	if r.Veto {
		lines = append(lines, "X-Veto: yes")
	}
	rng.Shuffle(len(lines), func(i, j int) { lines[i], lines[j] = lines[j], lines[i] })
	if len(sentExts) == 2 && r.Exts == "offeredparams" {
		// two extension header lines: what the server "sent" is in wire order
		for _, l := range lines {
			if strings.HasPrefix(l, "Sec-WebSocket-Extensions: ") {
				if !strings.Contains(l, ";") {
					sentExts[0], sentExts[1] = sentExts[1], sentExts[0]
				}
				break
			}
		}
	}
	head = []byte(line + "\r\n" + strings.Join(lines, "\r\n") + "\r\n\r\n")
	return head, sentProto, sentExts
}

func extString(o httphead.Option) string {
	s := string(o.Name)
	o.Parameters.ForEach(func(k, v []byte) bool {
		s += ";" + string(k)
		if len(v) > 0 {
			s += "=" + string(v)
		}
		return true
	})
	return s
}

func c10(c *ctx) {
	out := vh.NewOut(c.dir, "c10", 25000)
	defer out.Close()
	shapes := vh.Shapes{}
	meta := &vh.Meta{Property: "C10", Tier: c.tier, Seed: c.seed,
		Rule: "records = (a) abstract responses rendered to bytes: the product proto{1.1,1.2,1.0,2.0,garbage} x status{101, other 3-digit, short, long, non-digit tokens incl. bytes 0x3A-0x3F, values that wrap mod 2^64, empty} and upgrade/connection{absent,ok,varied,dup,wrong} x accept{absent,ok,varied,dup,other key,short} x protocol{none,requested,foreign} x extensions{none,offered,with parameters,foreign,mixed}, with 0..3 trailing frames, read-buffer sizes {default,16,64,129,4096} and transport chunkings, through Dialer.Upgrade; (b) the request written for 40 dialer configurations/URL forms (ports, IPv6 literals, paths, queries, ws/wss, Host override, protocols, extensions with parameters, extra headers), two dials each; distinct = (verdict, classes not ok, buffer, trailing) / (url form)"}
	n := 0
	rot := 0
	trailingFrames := [][]byte{{}, vh.BuildFrame(1, true, 0, false, [4]byte{}, []byte("hi")),
		append(vh.BuildFrame(2, true, 0, false, [4]byte{}, vh.PBytes(1, 0, 200)), vh.BuildFrame(9, true, 0, false, [4]byte{}, nil)...),
		append(append(vh.BuildFrame(1, false, 0, false, [4]byte{}, []byte("a")), vh.BuildFrame(0, true, 0, false, [4]byte{}, vh.PBytes(2, 0, 5000))...), vh.BuildFrame(8, true, 0, false, [4]byte{}, []byte{3, 232})...)}
	bufs := []int{0, 16, 64, 129, 4096}
	chunks := [][]int{nil, {1}, {7, 3}, {16}, {64, 1}}
	respCase := func(key string, r cresp) {
		rot++
		if !vh.Only(key) {
			return
		}
		rng := vh.Rand(c.seed, key)
		d := ws.Dialer{Protocols: []string{"chat", "superchat"}, ReadBufferSize: bufs[rot%len(bufs)], WriteBufferSize: []int{0, 16, 4096}[rot%3],
			Extensions: []httphead.Option{{Name: []byte("permessage-deflate")}, {Name: []byte("x-foo")}}}
		if rot%2 == 0 { // the offer carries parameters of its own: what comes back must be the server's, not these
			o1 := httphead.Option{Name: []byte("permessage-deflate")}
			o1.Parameters.Set([]byte("client_max_window_bits"), []byte("10"))
			o1.Parameters.Set([]byte("server_no_context_takeover"), nil)
			o2 := httphead.Option{Name: []byte("x-foo")}
			o2.Parameters.Set([]byte("p"), []byte("1"))
			d.Extensions = []httphead.Option{o1, o2}
		}
		reqExts := []string{"permessage-deflate", "x-foo"}
		// an application callback that looks at the other headers and may refuse the response
		d.OnHeader = func(k, v []byte) error {
			if string(k) == "X-Veto" {
				return fmt.Errorf("refused by OnHeader")
			}
			return nil
		}
		var sentProto string
		var sentExts []string
		pc := &peerConn{chunk: chunks[(rot/5)%len(chunks)], trailing: trailingFrames[(rot/3)%len(trailingFrames)]}
		var headLen int
		pc.build = func(k string) []byte {
			var head []byte
			head, sentProto, sentExts = r.render(rng, k, d.Protocols, reqExts)
			headLen = len(head)
			if r.CutAt > 0 && r.CutAt < len(head) {
				head, headLen = head[:r.CutAt], r.CutAt
				r.Cut = true
				pc.trailing = nil
				if r.CutErr {
					pc.endErr = vh.ErrInjected
				}
			}
			return head
		}
		u, _ := url.Parse("ws://example.com/path")
		var (
			br  interface{ Read([]byte) (int, error) }
			hs  ws.Handshake
			err error
		)
		func() {
			defer func() {
				if p := recover(); p != nil {
					err = fmt.Errorf("panic: %v", p)
				}
			}()
			b, h, e := d.Upgrade(pc, u)
			hs, err = h, e
			if b != nil {
				br = b
			}
		}()
		o := map[string]interface{}{"errNil": err == nil, "proto": hs.Protocol, "exts": []string{}, "trailingOK": false, "brNil": br == nil, "err": fmt.Sprint(err)}
		exts := []string{}
		for _, e := range hs.Extensions {
			exts = append(exts, extString(e))
		}
		o["exts"] = exts
		if err == nil {
			// everything after the head must be readable once, in order: br first, then the conn
			var got []byte
			if br != nil {
				tmp := make([]byte, 97)
				for {
					// only what is buffered belongs to br
					type buffered interface{ Buffered() int }
					nb := br.(buffered).Buffered()
					if nb == 0 {
						break
					}
					if nb > len(tmp) {
						nb = len(tmp)
					}
					k, _ := br.Read(tmp[:nb])
					got = append(got, tmp[:k]...)
				}
			}
			rest, _ := io.ReadAll(pc)
			got = append(got, rest...)
			o["trailingOK"] = bytes.Equal(got, pc.trailing)
		}
		_ = headLen
		if sentExts == nil {
			sentExts = []string{}
		}
		out.Emit(map[string]interface{}{"k": "resp", "key": key, "resp": r, "statusTok": r.statusTok, "sentProto": sentProto, "sentExts": sentExts, "obs": o,
			"rbuf": d.ReadBufferSize, "trailing": len(pc.trailing)}, true)
		n++
		shapes.Add("resp/%v/%s%s%s%s%s%s%s/%d/%d", err == nil, r.Proto, r.Status[:2], r.Upgrade[:2], r.Connection[:2], r.Accept[:2], r.Protocol[:2], r.Exts[:2], d.ReadBufferSize, len(pc.trailing))
		if len(meta.Samples) < 3 && n%701 == 5 {
			meta.Samples = append(meta.Samples, map[string]interface{}{"response": string(pc.resp[:headLen]), "obs": o})
		}
	}
	base := cresp{Proto: "1.1", Status: "101", Upgrade: "ok", Connection: "ok", Accept: "ok", Protocol: "none", Exts: "none"}
	for _, p := range []string{"1.1", "1.2", "1.0", "2.0", "garbage"} {
		for st := range statusTokens {
			reps := len(statusTokens[st])
			if p == "garbage" && reps < len(garbageVersions)+1 {
				reps = len(garbageVersions) + 1
			}
			for rep := 0; rep < reps; rep++ {
				r := base
				r.Proto, r.Status = p, st
				r.VerForm = rep
				respCase(fmt.Sprintf("line/%s/%s/%d", p, st, rep), r)
			}
		}
	}
	k := 0
	for _, up := range []string{"absent", "ok", "varied", "dup", "wrong", "unifold"} {
		for _, co := range []string{"absent", "ok", "varied", "dup", "wrong"} {
			for _, ac := range []string{"absent", "ok", "varied", "dup", "otherkey", "short", "lowbits", "casefold", "padded"} {
				for _, pr := range []string{"none", "requested", "foreign", "reqforeign", "foreignlist"} {
					for _, ex := range []string{"none", "offered", "offeredparams", "foreign", "mixed", "offered2", "mixedrev", "mixedmid"} {
						k++
						if false {
							continue
						}
						r := base
						r.Upgrade, r.Connection, r.Accept, r.Protocol, r.Exts = up, co, ac, pr, ex
						respCase(fmt.Sprintf("hdr/%s/%s/%s/%s/%s", up, co, ac, pr, ex), r)
						if up == "ok" && co == "ok" && (ac == "ok" || k%7 == 0) {
							r.Veto = true
							for rep := 0; rep < 3; rep++ { // (the header order is drawn from the key)
								respCase(fmt.Sprintf("veto/%s/%s/%s/%s/%s/%d", up, co, ac, pr, ex, rep), r)
							}
						}
					}
				}
			}
		}
	}
	// a good response whose byte stream ends at every offset inside the head (at line boundaries after
	// all required headers have gone by, inside a line, after the lone CR of the blank line ...)
	for ci, cr := range []cresp{
		{Proto: "1.1", Status: "101", Upgrade: "ok", Connection: "ok", Accept: "ok", Protocol: "requested", Exts: "offeredparams"},
		{Proto: "1.1", Status: "101", Upgrade: "varied", Connection: "ok", Accept: "ok", Protocol: "none", Exts: "none"},
		{Proto: "1.2", Status: "101", Upgrade: "ok", Connection: "varied", Accept: "ok", Protocol: "requested", Exts: "offered2"},
	} {
		for at := 1; at < 330; at++ {
			if !c.thorough && at < 90 && at%4 != 0 {
				continue // (the required headers cannot all have gone by that early)
			}
			for rep := 0; rep < 2; rep++ { // (the header order is drawn from the key)
				r := cr
				r.CutAt, r.CutErr = at, (at+rep)%2 == 0
				respCase(fmt.Sprintf("cut/%d/%d/%d", ci, at, rep), r)
			}
		}
	}
	// (b) the request
	type dcase struct {
		url, host, addr, tls, uri string
		hostOverride              string
	}
	cases := []dcase{
		{"ws://example.com", "example.com", "example.com:80", "", "/", ""},
		{"ws://example.com/", "example.com", "example.com:80", "", "/", ""},
		{"ws://example.com:8080/a/b?x=1&y=2", "example.com:8080", "example.com:8080", "", "/a/b?x=1&y=2", ""},
		{"wss://example.com/chat", "example.com", "example.com:443", "example.com", "/chat", ""},
		{"wss://example.com:8443/chat", "example.com:8443", "example.com:8443", "example.com", "/chat", ""},
		{"ws://[::1]/x", "[::1]", "[::1]:80", "", "/x", ""},
		{"ws://[::1]:9000/x?q", "[::1]:9000", "[::1]:9000", "", "/x?q", ""},
		{"wss://[2001:db8::1]/", "[2001:db8::1]", "[2001:db8::1]:443", "[2001:db8::1]", "/", ""},
		{"ws://127.0.0.1:1/", "127.0.0.1:1", "127.0.0.1:1", "", "/", ""},
		{"ws://example.com/path%20with/space?q=%2F", "example.com", "example.com:80", "", "/path%20with/space?q=%2F", ""},
		{"ws://example.com/p", "front.example", "example.com:80", "", "/p", "front.example"},
		{"wss://example.com/p", "front.example:444", "example.com:443", "example.com", "/p", "front.example:444"},
		{"ws://example.com?only=query", "example.com", "example.com:80", "", "/?only=query", ""},
		// an empty port (RFC 3986: port = *DIGIT) means the scheme's default port
		{"ws://example.com:/x", "example.com:", "example.com:80", "", "/x", ""},
		{"wss://example.com:/x", "example.com:", "example.com:443", "example.com", "/x", ""},
		{"ws://[::1]:/x", "[::1]:", "[::1]:80", "", "/x", ""},
		{"wss://[2001:db8::1]:/", "[2001:db8::1]:", "[2001:db8::1]:443", "[2001:db8::1]", "/", ""},
	}
	prevKey := ""
	for ci, dc := range cases {
		for variant := 0; variant < 4; variant++ {
			for rep := 0; rep < 2; rep++ {
				key := fmt.Sprintf("req/%d/%d/%d", ci, variant, rep)
				if !vh.Only(key) {
					continue
				}
				d := ws.Dialer{Host: dc.hostOverride}
				wantProtos, wantExts, wantExtra := []string{}, []string{}, false
				if variant&1 == 1 {
					d.Protocols = []string{"chat", "superchat", "v2.x"}
					wantProtos = d.Protocols
					switch (ci + variant) % 3 {
					case 0:
						d.Header = ws.HandshakeHeaderString("X-Client: verif\r\nOrigin: http://o.example\r\nX-Multi: one\r\nX-Multi: two\r\n")
					case 1:
						d.Header = ws.HandshakeHeaderBytes([]byte("X-Client: verif\r\nOrigin: http://o.example\r\nX-Multi: one\r\nX-Multi: two\r\n"))
					default:
						d.Header = ws.HandshakeHeaderHTTP(http.Header{"X-Client": []string{"verif"}, "Origin": []string{"http://o.example"}, "X-Multi": []string{"one", "two"}})
					}
					wantExtra = true
				}
				if variant&2 == 2 {
					o1 := httphead.Option{Name: []byte("permessage-deflate")}
					o1.Parameters.Set([]byte("client_max_window_bits"), nil)
					o1.Parameters.Set([]byte("server_max_window_bits"), []byte("10"))
					o2 := httphead.Option{Name: []byte("x-quoted")}
					o2.Parameters.Set([]byte("p"), []byte("needs quoting, really"))
					d.Extensions = []httphead.Option{o1, o2}
					wantExts = []string{"permessage-deflate;client_max_window_bits;server_max_window_bits=10", "x-quoted;p=needs quoting, really"}
					d.WriteBufferSize = 16
				}
				pc := &peerConn{}
				pc.build = func(k string) []byte { r := base; h, _, _ := r.render(vh.Rand(1, key), k, nil, nil); return h }
				addr, tlsHost := "", ""
				d.NetDial = func(ctx context.Context, network, a string) (net.Conn, error) {
					addr = a
					return &memConnRW{pc}, nil
				}
				d.TLSClient = func(conn net.Conn, hostname string) net.Conn { tlsHost = hostname; return conn }
				// WrapConn (every second dial): all handshake I/O and the returned conn go through the wrapper
				var wrapped *countConn
				if rep == 1 {
					d.WrapConn = func(c net.Conn) net.Conn { wrapped = &countConn{Conn: c}; return wrapped }
				}
				got, _, _, err := d.Dial(context.Background(), dc.url)
				wrapOK := rep != 1 || (wrapped != nil && got == net.Conn(wrapped) && wrapped.written == pc.req.Len() && wrapped.read > 0)
				h := parseHead(pc.req.Bytes())
				parts := strings.SplitN(h.Line, " ", 3)
				for len(parts) < 3 {
					parts = append(parts, "")
				}
				kv := h.first("Sec-WebSocket-Key")
				kb, kerr := base64.StdEncoding.DecodeString(kv)
				protos := []string{}
				for _, v := range h.get("Sec-WebSocket-Protocol") {
					for _, p := range strings.Split(v, ",") {
						protos = append(protos, strings.TrimSpace(p))
					}
				}
				exts := []string{}
				for _, v := range h.get("Sec-WebSocket-Extensions") {
					opts, ok := httphead.ParseOptions([]byte(v), nil)
					if !ok {
						exts = append(exts, "unparsable:"+v)
					}
					for _, o := range opts {
						exts = append(exts, extString(o))
					}
				}
				o := map[string]interface{}{"parsed": h.OK && err == nil, "method": parts[0], "uri": parts[1], "version": parts[2],
					"host": h.first("Host"), "hostCount": len(h.get("Host")), "upgrade": h.first("Upgrade"), "connection": h.first("Connection"),
					"wsversion": h.first("Sec-WebSocket-Version"), "keyIs16Bytes": kerr == nil && len(kb) == 16 && len(h.get("Sec-WebSocket-Key")) == 1,
					"keyFresh": kv != prevKey, "protocols": protos, "exts": exts,
					"extraHeader": h.first("X-Client") == "verif" && h.first("Origin") == "http://o.example" && strings.Join(h.get("X-Multi"), "|") == "one|two", // (every value of a repeated header, in order)
					"wrapOK":      wrapOK, "dialAddr": addr, "tlsHost": tlsHost, "crlfOnly": !bytes.Contains(bytes.ReplaceAll(pc.req.Bytes(), []byte("\r\n"), nil), []byte("\n")), "err": fmt.Sprint(err)}
				prevKey = kv
				out.Emit(map[string]interface{}{"k": "req", "key": key, "url": dc.url, "wantURI": dc.uri, "wantHost": dc.host, "wantAddr": dc.addr, "wantTLSHost": dc.tls,
					"wantProtocols": wantProtos, "wantExts": wantExts, "wantExtraHeader": wantExtra, "obs": o}, true)
				n++
				shapes.Add("req/%d/%d", ci, variant)
			}
		}
	}
	meta.Evaluations = n
	meta.Distinct = len(shapes)
	out.Close()
	meta.Files = map[string][]string{"records": out.Files}
	meta.Write(c.dir)
}

type countConn struct {
	net.Conn
	written, read int
}

func (c *countConn) Write(p []byte) (int, error) {
	n, err := c.Conn.Write(p)
	c.written += n
	return n, err
}
func (c *countConn) Read(p []byte) (int, error) { n, err := c.Conn.Read(p); c.read += n; return n, err }

// memConnRW adapts a peerConn to net.Conn.
type memConnRW struct{ p *peerConn }

func (m *memConnRW) Read(b []byte) (int, error)  { return m.p.Read(b) }
func (m *memConnRW) Write(b []byte) (int, error) { return m.p.Write(b) }
func (m *memConnRW) Close() error                { return nil }
func (m *memConnRW) LocalAddr() net.Addr         { return &net.TCPAddr{} }
func (m *memConnRW) RemoteAddr() net.Addr        { return &net.TCPAddr{} }

func (m *memConnRW) SetDeadline(t time.Time) error      { return nil }
func (m *memConnRW) SetReadDeadline(t time.Time) error  { return nil }
func (m *memConnRW) SetWriteDeadline(t time.Time) error { return nil }
