package main

import "io"

var ioEOF = io.EOF
