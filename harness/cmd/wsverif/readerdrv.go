package main

import (
	"bufio"
	"bytes"
	"fmt"
	"io"
	"strings"
	"unicode/utf8"

	"github.com/gobwas/ws"
	"github.com/gobwas/ws/wsutil"
	"wsverif/vh"
)

func init() {
	drivers["c08r"] = c08r
	drivers["c05"] = c05
	drivers["c07"] = c07
	drivers["c07u"] = c07u
	drivers["c16r"] = c16r
	drivers["c13r"] = c13r
	drivers["c18r"] = c18r
}

// validPrefixes enumerates every valid frame sequence of exactly n frames
// without closing an open message.
func validPrefixes(n int, small bool, f func(fs []fspec, open bool)) {
	ca, oa := closedAlphabet(), openAlphabet()
	if small {
		keep := func(a []fspec) []fspec {
			var r []fspec
			for _, x := range a {
				if len(x.Pay) <= 3 {
					r = append(r, x)
				}
			}
			return r
		}
		ca, oa = keep(ca), keep(oa)
	}
	var rec func(cur []fspec, open bool)
	rec = func(cur []fspec, open bool) {
		if len(cur) == n {
			f(append([]fspec(nil), cur...), open)
			return
		}
		al := ca
		if open {
			al = oa
		}
		for _, x := range al {
			no := open
			if x.Op < 8 {
				no = !x.Fin
			}
			rec(append(cur, x), no)
		}
	}
	rec(nil, false)
}

// ---------------------------------------------------------------- C05

type badFrame struct {
	name string
	f    fspec
	when string // "any", "open", "closed"
	ext  bool   // needs the compression extension + StateExtended to be offending
}

func invalidAlphabet() []badFrame {
	abc := []byte("abc")
	return []badFrame{
		{"res3", fspec{Op: 3, Fin: true, Pay: abc}, "any", false},
		{"res7", fspec{Op: 7, Fin: false, Pay: abc}, "any", false},
		{"resB", fspec{Op: 11, Fin: true, Pay: abc}, "any", false},
		{"resF", fspec{Op: 15, Fin: true, Pay: []byte{}}, "any", false},
		{"ping126", fspec{Op: 9, Fin: true, Pay: asciiPay(126, 1)}, "any", false},
		{"close126", fspec{Op: 8, Fin: true, Pay: closePay(126)}, "any", false},
		{"pingNoFin", fspec{Op: 9, Fin: false, Pay: abc}, "any", false},
		{"pongNoFin", fspec{Op: 10, Fin: false, Pay: []byte{}}, "any", false},
		{"closeNoFin", fspec{Op: 8, Fin: false, Pay: closePay(2)}, "any", false},
		{"rsv4text", fspec{Op: 1, Fin: true, Rsv: 4, Pay: abc}, "closed", false},
		{"rsv2bin", fspec{Op: 2, Fin: true, Rsv: 2, Pay: abc}, "closed", false},
		{"rsv1cont", fspec{Op: 0, Fin: true, Rsv: 1, Pay: abc}, "open", false},
		{"rsv7ping", fspec{Op: 9, Fin: true, Rsv: 7, Pay: abc}, "any", false},
		{"wrongMaskText", fspec{Op: 1, Fin: true, Unmask: 3, Pay: abc}, "closed", false},
		{"wrongMaskCont", fspec{Op: 0, Fin: true, Unmask: 3, Pay: abc}, "open", false},
		{"wrongMaskPing", fspec{Op: 9, Fin: true, Unmask: 3, Pay: abc}, "any", false},
		{"textWhileOpen", fspec{Op: 1, Fin: true, Pay: abc}, "open", false},
		{"binWhileOpenNoFin", fspec{Op: 2, Fin: false, Pay: abc}, "open", false},
		{"contWhileClosed", fspec{Op: 0, Fin: true, Pay: abc}, "closed", false},
		{"contWhileClosedNoFin", fspec{Op: 0, Fin: false, Pay: []byte{}}, "closed", false},
		{"res5WrongMask", fspec{Op: 5, Fin: true, Unmask: 3, Pay: abc}, "any", false},
		{"ping126NoFin", fspec{Op: 9, Fin: false, Pay: asciiPay(126, 2)}, "any", false},
		{"rsv4contExt", fspec{Op: 0, Fin: true, Rsv: 4, Pay: abc}, "open", true},
		{"rsv4pingExt", fspec{Op: 9, Fin: true, Rsv: 4, Pay: abc}, "any", true},
		{"rsv6closeExt", fspec{Op: 8, Fin: true, Rsv: 6, Pay: closePay(2)}, "any", true},
		// on an extended connection a frame may carry RSV bits - and still break another rule
		{"rsv4textWhileOpenExt", fspec{Op: 1, Fin: true, Rsv: 4, Pay: abc}, "open", true},
		{"rsv4binWhileOpenNoFinExt", fspec{Op: 2, Fin: false, Rsv: 4, Pay: abc}, "open", true},
		{"rsv4textWrongMaskExt", fspec{Op: 1, Fin: true, Rsv: 4, Unmask: 3, Pay: abc}, "closed", true},
		{"rsv2contWhileClosedExt", fspec{Op: 0, Fin: true, Rsv: 2, Pay: abc}, "closed", true},
		{"rsv4res3Ext", fspec{Op: 3, Fin: true, Rsv: 4, Pay: abc}, "any", true},
		{"rsv1ping126Ext", fspec{Op: 9, Fin: true, Rsv: 1, Pay: asciiPay(126, 3)}, "any", true},
		{"rsv2pingNoFinExt", fspec{Op: 9, Fin: false, Rsv: 2, Pay: abc}, "any", true},
	}
}

func fixMask(f fspec, side string) fspec {
	if f.Unmask == 3 { // wrong mask bit for this side
		if side == "server" {
			f.Unmask = 2
		} else {
			f.Unmask = 1
		}
	}
	return f
}

// readerTranscript: what a Reader on src returns, call by call, until the first error.
func readerTranscript(src io.Reader, side string) string {
	rd := &wsutil.Reader{Source: src, State: wsState(side)}
	var b strings.Builder
	for i := 0; i < 12; i++ {
		h, err := rd.NextFrame()
		cls, rule := rerr(err)
		fmt.Fprintf(&b, "[%d %v %d %v %d %s %s", h.OpCode, h.Fin, h.Rsv, h.Masked, h.Length, cls, rule)
		if err != nil {
			b.WriteString("]")
			break
		}
		p, err := io.ReadAll(rd)
		cls, rule = rerr(err)
		fmt.Fprintf(&b, " %x %s %s]", p, cls, rule)
		if err != nil {
			break
		}
	}
	return b.String()
}

func c05(c *ctx) {
	t := &rsink{out: vh.NewOut(c.dir, "c05", 40000), shapes: vh.Shapes{}, meta: &vh.Meta{Property: "C05", Tier: c.tier, Seed: c.seed,
		Rule: "traces = every valid prefix of 0..P frames (P=2 quick on the short-payload alphabet, 2 full + 3 short thorough) extended by each of 32 invalid frames applicable in that fragmentation state (reserved opcodes, control > 125 / not final, non-zero RSV with and without the extension, wrong mask bit, data frame while open, continuation while closed, doubly broken) and a trailing ping, both sides, entries Reader/ReadMessage/ReadData, chunkings rotated; plus MaxFrameSize in {len-1, len, len+1} around a 130-byte frame at every position; distinct = (entry, side, per-call outcome sequence)"}}
	defer t.out.Close()
	rot := 0
	vs := []rvariant{{"reader", nil, -1, false}, {"readmessage", nil, -1, true}, {"readdata", []int{1, 2}, -1, true}, {"reader", nil, 0, false}}
	maxP := 2
	if c.thorough {
		maxP = 3
	}
	for P := 0; P <= maxP; P++ {
		small := !c.thorough || P == 3
		validPrefixes(P, small, func(pre []fspec, open bool) {
			for _, bf := range invalidAlphabet() {
				if (bf.when == "open" && !open) || (bf.when == "closed" && open) {
					continue
				}
				for _, side := range []string{"server", "client"} {
					rot++
					if !c.thorough && P == 2 && rot%2 == 0 {
						continue
					}
					fs := append(append([]fspec(nil), pre...), fixMask(bf.f, side), fspec{Op: 9, Fin: true, Pay: []byte("tail")})
					v := vs[rot%len(vs)]
					if bf.ext {
						v = vs[0]
					}
					key := fmt.Sprintf("bad/%s/%s/%s/%s", side, v.Entry, bf.name, seqKey(pre))
					sc := mkScenario(key, side, v, fs, rchunks[rot%len(rchunks)], rbufs[(rot/5)%len(rbufs)])
					if bf.ext {
						sc.Ext, sc.Extended = true, true
						sc.build(fs, len(key))
					}
					t.run(sc)
					// the same stream behind a *bufio.Reader (small buffers, a transport that delivers in pieces, so
					// that headers straddle refills): the reader must do exactly what it does on the bare source
					if !bf.ext && (c.thorough || rot%3 == 0) {
						want := readerTranscript(&vh.ChunkReader{Data: sc.stream}, side)
						for bi, bsz := range []int{16, 19, 32, 64} {
							for ci, chunk := range [][]int{{1}, {3}, {5, 2}, {7}, {13, 1}, {2, 9}} {
								if !c.thorough && (bi+ci+rot)%3 != 0 {
									continue
								}
								k2 := fmt.Sprintf("bufsrc/%s/%s/%s/%d/%d", side, bf.name, seqKey(pre), bsz, ci)
								if !vh.Only(k2) {
									continue
								}
								got := readerTranscript(bufio.NewReaderSize(&vh.ChunkReader{Data: sc.stream, Sizes: chunk}, bsz), side)
								if got != want {
									t.meta.Direct = append(t.meta.Direct, map[string]interface{}{"key": k2,
										"what": "behind a bufio.Reader the reader behaves differently: bare source " + want + " | buffered " + got})
								}
								t.traces++
							}
						}
					}
				}
			}
		})
	}
	// length forms that are longer than necessary (whether such a frame is refused or decoded is left
	// open by C01; the harness decides this small family itself): after a control frame written in the
	// 16- or 64-bit form, a control frame announcing more than 125 bytes in the same form must still
	// be refused, and none of its payload may be delivered
	for _, side := range []string{"server", "client"} {
		for _, form := range []int{126, 127} {
			for _, op := range []int{9, 10, 8} {
				for _, pre := range []int{0, 3, 125} {
					key := fmt.Sprintf("longform/%s/%d/%d/%d", side, form, op, pre)
					if !vh.Only(key) {
						continue
					}
					masked := side == "server"
					longFrame := func(op int, n int, fill byte) []byte {
						b := []byte{0x80 | byte(op), byte(form)}
						if masked {
							b[1] |= 0x80
						}
						if form == 126 {
							b = append(b, byte(n>>8), byte(n))
						} else {
							b = append(b, 0, 0, 0, 0, 0, 0, byte(n>>8), byte(n))
						}
						if masked {
							b = append(b, 0, 0, 0, 0)
						}
						return append(b, bytes.Repeat([]byte{fill}, n)...)
					}
					firstPay := byte('a')
					if op == 8 {
						firstPay = 0 // (a close payload is not looked at by the reader itself)
					}
					stream := append(longFrame(op, pre, firstPay), longFrame(op, 300, 'Z')...)
					rd := &wsutil.Reader{Source: bytes.NewReader(stream), State: wsState(side)}
					var delivered []byte
					var lastErr error
					for i := 0; i < 3 && lastErr == nil; i++ {
						_, err := rd.NextFrame()
						if err != nil {
							lastErr = err
							break
						}
						b, err := io.ReadAll(rd)
						delivered = append(delivered, b...)
						if err != nil {
							lastErr = err
						}
					}
					if lastErr == nil || bytes.Contains(delivered, []byte("Z")) {
						t.meta.Direct = append(t.meta.Direct, map[string]interface{}{"key": key,
							"what": fmt.Sprintf("a control frame announcing 300 bytes after one in a non-minimal length form was accepted (err=%v, %d of its bytes delivered)", lastErr, bytes.Count(delivered, []byte("Z")))})
					}
					t.traces++
				}
			}
		}
	}
	// control frames announcing, in the 64-bit form, lengths far beyond 125 whose low 8, 16 or 32 bits
	// look like a small number: refused at the header like every control frame over 125 bytes,
	// stand-alone or between the fragments of a message, and nothing of what follows is handed out
	for _, side := range []string{"server", "client"} {
		for _, announced := range []uint64{1 << 32, 1<<32 + 5, 1<<32 + 125, 3 << 32, 1<<40 + 1, 1<<16 + 5, 1 << 16, 1<<31 + 7, 1 << 8, 1<<8 + 125, 1<<62 + 3, 1<<63 - 1} {
			for _, op := range []int{9, 10, 8} {
				for _, inside := range []bool{false, true} {
					key := fmt.Sprintf("ctlhuge/%s/%d/%d/%v", side, announced, op, inside)
					if !vh.Only(key) {
						continue
					}
					masked := side == "server"
					var stream []byte
					if inside {
						stream = vh.BuildFrame(2, false, 0, masked, [4]byte{1, 2, 3, 4}, []byte("ab"))
					}
					hdr := []byte{0x80 | byte(op), 127}
					if masked {
						hdr[1] |= 0x80
					}
					for sh := 56; sh >= 0; sh -= 8 {
						hdr = append(hdr, byte(announced>>uint(sh)))
					}
					if masked {
						hdr = append(hdr, 0, 0, 0, 0)
					}
					stream = append(append(stream, hdr...), bytes.Repeat([]byte{'Z'}, 200)...)
					called := 0
					rd := &wsutil.Reader{Source: bytes.NewReader(stream), State: wsState(side)}
					rd.OnIntermediate = func(h ws.Header, r io.Reader) error { called++; io.Copy(io.Discard, r); return nil }
					var delivered []byte
					var lastErr error
					paniced := ""
					func() {
						defer func() {
							if p := recover(); p != nil {
								paniced = fmt.Sprint(p)
							}
						}()
						if inside {
							if _, err := rd.NextFrame(); err != nil {
								lastErr = fmt.Errorf("prefix refused: %v", err)
								return
							}
							io.ReadFull(rd, make([]byte, 2))
						}
						_, lastErr = rd.NextFrame()
						if lastErr == nil {
							b := make([]byte, 32)
							for j := 0; j < 4; j++ {
								k, err := rd.Read(b)
								delivered = append(delivered, b[:k]...)
								if err != nil {
									lastErr = err
									break
								}
							}
						}
					}()
					if cls, _ := rerr(lastErr); paniced != "" || cls != "protocol" || len(delivered) > 0 || called > 0 {
						t.meta.Direct = append(t.meta.Direct, map[string]interface{}{"key": key,
							"what": fmt.Sprintf("a control frame announcing %d bytes was not refused at its header (err=%v panic=%q delivered=%d callbacks=%d)", announced, lastErr, paniced, len(delivered), called)})
					}
					t.traces++
				}
			}
		}
	}
	// a 64-bit length with its top bit set is not a length (RFC 6455 5.2): the frame is refused, whatever
	// its position, opcode or the size limit, and nothing after its header is delivered
	for _, side := range []string{"server", "client"} {
		for _, lenBytes := range [][]byte{{0x80, 0, 0, 0, 0, 0, 0, 0}, {0x80, 0, 0, 0, 0, 0, 0, 1}, {0xff, 0xff, 0xff, 0xff, 0xff, 0xff, 0xff, 0xff}, {0xc0, 0, 0, 0, 0, 0, 0, 0x10}} {
			for _, op := range []int{1, 2, 0, 9} {
				for _, max := range []int64{0, 1000} {
					key := fmt.Sprintf("msb/%s/%x/%d/%d", side, lenBytes, op, max)
					if !vh.Only(key) {
						continue
					}
					masked := side == "server"
					var stream []byte
					if op == 0 { // a continuation needs an open message
						stream = vh.BuildFrame(1, false, 0, masked, [4]byte{1, 2, 3, 4}, []byte("ab"))
					}
					hdr := []byte{0x80 | byte(op), 127}
					if masked {
						hdr[1] |= 0x80
					}
					hdr = append(hdr, lenBytes...)
					if masked {
						hdr = append(hdr, 9, 9, 9, 9)
					}
					stream = append(append(stream, hdr...), bytes.Repeat([]byte{'Z'}, 64)...)
					rd := &wsutil.Reader{Source: bytes.NewReader(stream), State: wsState(side), MaxFrameSize: max}
					var delivered []byte
					var lastErr error
					paniced := ""
					func() {
						defer func() {
							if p := recover(); p != nil {
								paniced = fmt.Sprint(p)
							}
						}()
						if op == 0 { // the open message's first fragment
							if _, err := rd.NextFrame(); err != nil {
								lastErr = fmt.Errorf("prefix refused: %v", err)
								return
							}
							io.ReadFull(rd, make([]byte, 2))
						}
						// the offending frame: its header must be refused at once
						_, lastErr = rd.NextFrame()
						if lastErr == nil {
							b := make([]byte, 32)
							for j := 0; j < 4; j++ {
								k, err := rd.Read(b)
								delivered = append(delivered, b[:k]...)
								if err != nil {
									break
								}
							}
						}
					}()
					if lastErr == nil || strings.HasPrefix(fmt.Sprint(lastErr), "prefix refused") || paniced != "" || len(delivered) > 0 {
						t.meta.Direct = append(t.meta.Direct, map[string]interface{}{"key": key,
							"what": fmt.Sprintf("a frame announcing a length with the top bit set was not refused (err=%v panic=%q delivered=%d bytes)", lastErr, paniced, len(delivered))})
					}
					t.traces++
				}
			}
		}
	}
	// MaxFrameSize around the announced length
	for _, side := range []string{"server", "client"} {
		for _, max := range []int{129, 130, 131, 1, 3} {
			for pos := 0; pos < 3; pos++ {
				fs := []fspec{}
				for i := 0; i < pos; i++ {
					fs = append(fs, fspec{Op: 2, Fin: true, Pay: []byte("ab")})
				}
				fs = append(fs, fspec{Op: 2, Fin: false, Pay: []byte("x")}, fspec{Op: 9, Fin: true, Pay: []byte("pi")}, fspec{Op: 0, Fin: true, Pay: asciiPay(130, 1)}, fspec{Op: 1, Fin: true, Pay: []byte("end")})
				for vi, v := range []rvariant{{"reader", nil, -1, false}, {"reader", nil, 0, false}} {
					key := fmt.Sprintf("max/%s/%d/%d/%d", side, max, pos, vi)
					sc := mkScenario(key, side, v, fs, rchunks[(pos+max)%len(rchunks)], 64)
					sc.Max = max
					t.run(sc)
					// the size limit is independent of the header check
					sk := mkScenario(key+"/skip", side, v, fs, rchunks[(pos+max)%len(rchunks)], 64)
					sk.Max, sk.Skip = max, true
					t.run(sk)
				}
			}
		}
	}
	t.finish(c)
}

// ---------------------------------------------------------------- C07

var utf8Samples = []struct {
	name string
	b    []byte
}{
	{"empty", []byte{}}, {"a", []byte("a")}, {"2b", []byte("é")}, {"3b", []byte("€")}, {"4b", []byte("𝄞")},
	{"mix", []byte("a€𝄞é!")}, {"u7f80", []byte("\u007f\u0080")}, {"u7ff800", []byte("߿ࠀ")},
	{"uffff10000", []byte("￿\U00010000")}, {"u10ffff", []byte("\U0010ffff")}, {"ud7ffe000", []byte("퟿")},
	{"over2", []byte{0xc0, 0x80}}, {"over2b", []byte{'a', 0xc1, 0xbf}}, {"over3", []byte{0xe0, 0x80, 0x80}}, {"over3b", []byte{0xe0, 0x9f, 0xbf}},
	{"over4", []byte{0xf0, 0x80, 0x80, 0x80}}, {"over4b", []byte{0xf0, 0x8f, 0xbf, 0xbf}},
	{"surrD800", []byte{0xed, 0xa0, 0x80}}, {"surrDFFF", []byte{0xed, 0xbf, 0xbf}}, {"big", []byte{0xf4, 0x90, 0x80, 0x80}},
	{"f5", []byte{0xf5, 0x80, 0x80, 0x80}}, {"ff", []byte{'o', 'k', 0xff}}, {"lone80", []byte{0x80}}, {"loneBF", []byte{'x', 0xbf, 'y'}},
	{"trunc3", []byte{'o', 'k', 0xe2, 0x82}}, {"trunc4", []byte{0xf0, 0x9f, 0x98}}, {"trunc2", []byte{0xc3}},
	{"bad2nd", []byte{0xe2, 0x28, 0xa1}}, {"bad3rd", []byte{0xe2, 0x82, 0x28}}, {"bad4th", []byte{0xf0, 0x9f, 0x98, 0x28}},
	{"goodthenbad", []byte{0xe2, 0x82, 0xac, 0xed, 0xa0, 0x80, 'z'}},
	{"lead2run8", append(append([]byte{0xc3}, []byte("abcdefgh")...), 0xa9)}, {"lead3run16", append(append([]byte{0xe2, 0x82}, []byte("abcdefghijklmnop")...), 0xac)},
	{"ufffd", []byte("a\xef\xbf\xbdb")}, {"ufffe", []byte("\xef\xbf\xbe\xef\xbf\xbf")}, {"ufeff", []byte("\xef\xbb\xbfbom")}, {"ufdd0", []byte("\xef\xb7\x90")},
	{"nul", []byte{'a', 0, 'b'}}, {"u1fffe", []byte("\xf0\x9f\xbf\xbe")}, {"ufffdonly", []byte("\xef\xbf\xbd")},
	{"max123cut", append(bytes.Repeat([]byte{'r'}, 121), 0xe2, 0x82)}, {"max123ok", append(bytes.Repeat([]byte{'r'}, 120), 0xe2, 0x82, 0xac)}, {"cut4", append(bytes.Repeat([]byte{'r'}, 20), 0xf0, 0x9f, 0x98)},
	{"run8ok", []byte("abcdefgh\xc3\xa9ijklmnop")}, {"lead4run7", append(append([]byte{0xf0, 0x9f}, []byte("abcdefg")...), 0x98, 0x80)}, {"long", append([]byte("κόσμε-"), append(asciiPay(20, 0), []byte("-𝄞")...)...)},
}

func c07(c *ctx) {
	t := &rsink{out: vh.NewOut(c.dir, "c07", 40000), shapes: vh.Shapes{}, meta: &vh.Meta{Property: "C07", Tier: c.tier, Seed: c.seed,
		Rule: "traces = 32 byte strings (valid boundaries U+7F/80/7FF/800/FFFF/10000/10FFFF/D7FF/E000, overlongs, surrogates, > U+10FFFF, lone/missing/invalid continuation bytes, truncated tails) as a text message under every split into <= 3 fragments (incl. inside a multi-byte sequence and empty fragments), optionally with a ping between fragments, followed by a second valid text message on the same reader, and as a binary message; entries Reader(CheckUTF8), ReadMessage, ReadData; chunkings/buffers rotated; distinct = (string, split, entry outcome)"}}
	defer t.out.Close()
	rot := 0
	vs := []rvariant{{"reader", nil, -1, true}, {"readmessage", nil, -1, true}, {"readdata", []int{1, 2}, -1, true}, {"readdata", []int{1}, -1, true}}
	for _, s := range utf8Samples {
		n := len(s.b)
		for i := 0; i <= n; i++ {
			for j := i; j <= n; j++ {
				if n > 8 && !c.thorough && (i+j)%3 != 0 {
					continue
				}
				for ping := 0; ping < 2; ping++ {
					for _, op := range []int{1, 2} {
						rot++
						if op == 2 && rot%4 != 0 {
							continue
						}
						if !c.thorough && rot%2 == 0 && n > 3 {
							continue
						}
						var fs []fspec
						parts := [][]byte{s.b[:i], s.b[i:j], s.b[j:]}
						if i == 0 && j == 0 {
							parts = [][]byte{s.b} // unfragmented: a single final frame
						} else if i == j {
							parts = [][]byte{s.b[:i], s.b[i:]} // two fragments
						}
						for pi, p := range parts {
							o := 0
							if pi == 0 {
								o = op
							}
							fs = append(fs, fspec{Op: o, Fin: pi == len(parts)-1, Pay: p})
							if ping == 1 && pi < len(parts)-1 {
								fs = append(fs, fspec{Op: 9, Fin: true, Pay: []byte{0xe2}}) // control payloads are never UTF-8 checked
							}
						}
						// a second message on the same reader: state must not leak
						fs = append(fs, fspec{Op: 1, Fin: false, Pay: []byte("o")}, fspec{Op: 0, Fin: true, Pay: []byte("k€")})
						side := []string{"server", "client"}[rot%2]
						v := vs[(rot/2)%len(vs)]
						key := fmt.Sprintf("utf8/%s/%d/%d/%d/%d/%s/%s", s.name, i, j, ping, op, side, v.Entry)
						t.run(mkScenario(key, side, v, fs, rchunks[rot%len(rchunks)], rbufs[(rot/5)%len(rbufs)]))
						// a caller that drops a text message reported invalid and reads on: what follows is
						// judged on its own (every sample that is not valid UTF-8, and some that are)
						if v.Entry == "reader" && op == 1 && (c.thorough || rot%2 == 1 || !utf8.Valid(s.b)) {
							sc := mkScenario("u8discard"+key[4:], side, v, fs, rchunks[(rot+1)%len(rchunks)], rbufs[(rot/5)%len(rbufs)])
							sc.DiscardInvalid = true
							t.run(sc)
						}
						// fragments of one message that differ in whether they are masked, read by a reader that does
						// not enforce the mask rule (SkipHeaderCheck): each is unmasked with its own key or not at
						// all, and the text is judged as a whole
						if v.Entry == "reader" && len(parts) > 1 && (c.thorough || rot%3 == 1 || !utf8.Valid(s.b)) {
							fm := append([]fspec(nil), fs...)
							for fi := range fm {
								fm[fi].Unmask = 1 + (fi+rot)%2
							}
							sc := mkScenario("mixmask"+key[4:], side, v, fm, rchunks[(rot+3)%len(rchunks)], rbufs[(rot/5)%len(rbufs)])
							sc.Skip = true
							sc.build(fm, len(key))
							t.run(sc)
						}
						// an OnContinuation callback that takes the first byte(s) of a continuation frame for
						// itself: they are part of the message, and of what the UTF-8 check has to see
						if v.Entry == "reader" && len(parts) > 1 && (c.thorough || rot%3 == 0 || len(parts[1]) > 0 && parts[1][0] >= 0x80) {
							sc := mkScenario("contread"+key[4:], side, v, fs, rchunks[(rot+2)%len(rchunks)], rbufs[(rot/5)%len(rbufs)])
							sc.ContRead = 1 + rot%2
							t.run(sc)
						}
					}
				}
			}
		}
	}
	// messages abandoned half-way (also inside a multi-byte sequence) must not disturb the next one
	reuseFamily(t, c, "utf8reuse", func(rot, disc int) bool { return disc >= 0 && (c.thorough || rot%4 == 1) })
	t.finish(c)
}

// c08r: control frames answered by the read helpers themselves (ReadData and its variants), also when
// they arrive between the fragments of a text message whose UTF-8 check must not touch their payloads.
func c08r(c *ctx) {
	t := &rsink{out: vh.NewOut(c.dir, "c08r", 40000), shapes: vh.Shapes{}, meta: &vh.Meta{Property: "C08", Tier: c.tier, Seed: c.seed,
		Rule: "traces = ReadData / ReadClientData / ReadServerData / Text / Binary over streams in which a ping, pong or close (payloads: empty, ASCII, bytes that are not UTF-8, a lone continuation byte, 125 bytes; closes with a code only, a reason, a bad code) arrives before, between the fragments of (text and binary, ending inside a multi-byte sequence or not) and after a message; both sides; replies parsed from the destination; distinct = (shape, control payload class, outcome)"}}
	defer t.out.Close()
	ctls := []fspec{
		{Op: 9, Fin: true, Pay: []byte{}}, {Op: 9, Fin: true, Pay: []byte("abc")}, {Op: 9, Fin: true, Pay: []byte{0xff, 0xfe, 0x80}}, {Op: 9, Fin: true, Pay: []byte{0xac}},
		{Op: 9, Fin: true, Pay: asciiPay(125, 3)}, {Op: 10, Fin: true, Pay: []byte{0xc3}}, {Op: 8, Fin: true, Pay: closePay(2)}, {Op: 8, Fin: true, Pay: append(closePay(2), []byte("bye")...)},
		{Op: 8, Fin: true, Pay: []byte{}}, {Op: 8, Fin: true, Pay: []byte{0x03, 0xed}}, {Op: 8, Fin: true, Pay: append(closePay(2), 0xff)},
	}
	msgs := [][]fspec{
		{{Op: 1, Fin: false, Pay: []byte("caf\xc3")}, {Op: 0, Fin: true, Pay: []byte("\xa9!")}},
		{{Op: 1, Fin: false, Pay: []byte("ab")}, {Op: 0, Fin: false, Pay: []byte{}}, {Op: 0, Fin: true, Pay: []byte("cd")}},
		{{Op: 2, Fin: false, Pay: []byte{0xff, 0x00}}, {Op: 0, Fin: true, Pay: []byte{0x80}}},
		{{Op: 1, Fin: true, Pay: []byte("whole")}},
	}
	rot := 0
	for mi, m := range msgs {
		for ci, ctl := range ctls {
			for pos := 0; pos <= len(m); pos++ {
				for _, side := range []string{"server", "client"} {
					rot++
					var fs []fspec
					fs = append(fs, m[:pos]...)
					fs = append(fs, ctl)
					fs = append(fs, m[pos:]...)
					fs = append(fs, fspec{Op: 2, Fin: true, Pay: []byte("after")})
					want := []int{1, 2}
					v := rvariant{"readdata", want, -1, true}
					key := fmt.Sprintf("reply/%d/%d/%d/%s", mi, ci, pos, side)
					t.run(mkScenario(key, side, v, fs, rchunks[rot%len(rchunks)], rbufs[(rot/3)%len(rbufs)]))
					// the helpers that want one kind only: the control frame then arrives inside (or
					// around) a message that is being skipped, and must be answered and reported all the same
					for _, w := range []int{1, 2} {
						if !c.thorough && (rot+w)%2 == 0 && ctl.Op != 8 {
							continue
						}
						v := rvariant{"readdata", []int{w}, -1, true}
						key := fmt.Sprintf("replyskip/%d/%d/%d/%d/%s", w, mi, ci, pos, side)
						t.run(mkScenario(key, side, v, fs, rchunks[(rot+w)%len(rchunks)], rbufs[(rot/3)%len(rbufs)]))
					}
				}
			}
		}
	}
	t.finish(c)
}

// c07u: the standalone UTF8Reader as records.
func c07u(c *ctx) {
	out := vh.NewOut(c.dir, "c07u", 60000)
	defer out.Close()
	shapes := vh.Shapes{}
	meta := &vh.Meta{Property: "C07", Tier: c.tier, Seed: c.seed,
		Rule: "records = wsutil.UTF8Reader over all 1-byte strings, all 2-byte strings over 40 boundary bytes (thorough: all 65536), the structured 3- and 4-byte cover (every lead byte class x boundary continuation values), and the message samples, each read whole, byte-wise and in 2-byte reads; distinct = (length, verdict, chunking)"}
	reps := []byte{0x00, 0x41, 0x7f, 0x80, 0x8f, 0x90, 0x9f, 0xa0, 0xbf, 0xc0, 0xc1, 0xc2, 0xdf, 0xe0, 0xe1, 0xec, 0xed, 0xee, 0xef, 0xf0, 0xf1, 0xf3, 0xf4, 0xf5, 0xff}
	n := 0
	emit := func(in []byte, key string) {
		if !vh.Only(key) {
			return
		}
		for ci, chunk := range [][]int{nil, {1}, {2}, {3}} {
			u := wsutil.NewUTF8Reader(&vh.ChunkReader{Data: in, Sizes: chunk, DataErr: ci == 3})
			var got []byte
			buf := make([]byte, 16)
			var err error
			for {
				var k int
				k, err = u.Read(buf)
				got = append(got, buf[:k]...)
				if err != nil {
					break
				}
			}
			kind, _ := rerr(err)
			out.Emit(map[string]interface{}{"k": "utf8", "key": key, "input": vh.Ints(in), "chunk": ci, "err": kind, "valid": u.Valid(),
				"got": vh.Ints(got), "accepted": u.Accepted()}, true)
			n++
			shapes.Add("%d/%s/%v/%d", len(in), kind, u.Valid(), ci)
		}
	}
	for b := 0; b < 256; b++ {
		emit([]byte{byte(b)}, fmt.Sprintf("u1/%d", b))
	}
	two := reps
	if c.thorough {
		two = make([]byte, 256)
		for i := range two {
			two[i] = byte(i)
		}
	}
	for _, a := range two {
		for _, b := range two {
			emit([]byte{a, b}, fmt.Sprintf("u2/%d/%d", a, b))
		}
	}
	conts := []byte{0x7f, 0x80, 0x8f, 0x90, 0x9f, 0xa0, 0xbf, 0xc0}
	for lead := 0xc0; lead < 0x100; lead++ {
		for _, b2 := range conts {
			for _, b3 := range conts {
				if !c.thorough && (lead+int(b2)+int(b3))%3 != 0 && lead < 0xe0 {
					continue
				}
				emit([]byte{byte(lead), b2, b3}, fmt.Sprintf("u3/%d/%d/%d", lead, b2, b3))
				if lead >= 0xf0 {
					for _, b4 := range []byte{0x7f, 0x80, 0xbf, 0xc0} {
						emit([]byte{byte(lead), b2, b3, b4}, fmt.Sprintf("u4/%d/%d/%d/%d", lead, b2, b3, b4))
					}
				}
			}
		}
	}
	// an unfinished sequence, an ASCII run of every length 0..17, then the missing continuation bytes
	for _, lead := range [][]byte{{0xc3}, {0xe2, 0x82}, {0xf0, 0x9f, 0x98}, {0xe2}} {
		for run := 0; run <= 17; run++ {
			for _, tail := range [][]byte{{0xa9}, {0xac}, {0x80}, {}} {
				in := append(append(append([]byte("x"), lead...), asciiPay(run, run)...), tail...)
				emit(in, fmt.Sprintf("run/%x/%d/%x", lead, run, tail))
			}
		}
	}
	for run := 0; run <= 33; run++ {
		emit(append(asciiPay(run, 1), 0xc3, 0xa9, 'z'), fmt.Sprintf("asciirun/%d", run))
	}
	for _, s := range utf8Samples {
		emit(s.b, "sample/"+s.name)
		emit(append(append([]byte("ab"), s.b...), 'z'), "sample+/"+s.name)
	}
	// Reset makes the reader start over (C18)
	for _, s := range utf8Samples {
		key := "reset/" + s.name
		if !vh.Only(key) {
			continue
		}
		u := wsutil.NewUTF8Reader(bytes.NewReader([]byte{0xe2, 0x82}))
		io.ReadAll(u)
		u.Reset(bytes.NewReader(s.b))
		got, err := io.ReadAll(u)
		kind, _ := rerr(err)
		if err == nil {
			kind = "eof" // io.ReadAll swallows the EOF
		}
		out.Emit(map[string]interface{}{"k": "utf8", "key": key, "input": vh.Ints(s.b), "chunk": 9, "err": kind, "valid": u.Valid(),
			"got": vh.Ints(got), "accepted": 0}, true)
		n++
	}
	meta.Evaluations = n
	meta.Distinct = len(shapes)
	out.Close()
	meta.Files = map[string][]string{"records": out.Files}
	meta.Write(c.dir)
}

// ---------------------------------------------------------------- C16 (reader side)

func cutShapes() [][]fspec {
	t5 := []byte("hello")
	return [][]fspec{
		{{Op: 1, Fin: true, Pay: t5}},
		{{Op: 2, Fin: true, Pay: asciiPay(130, 0)}},
		{{Op: 1, Fin: false, Pay: []byte("abc")}, {Op: 0, Fin: true, Pay: []byte("def")}},
		{{Op: 1, Fin: false, Pay: []byte("abc")}, {Op: 9, Fin: true, Pay: []byte("ping!")}, {Op: 0, Fin: true, Pay: []byte("def")}},
		{{Op: 2, Fin: false, Pay: []byte("ab")}, {Op: 10, Fin: true, Pay: []byte("po")}, {Op: 0, Fin: false, Pay: []byte{}}, {Op: 0, Fin: true, Pay: []byte("c")}},
		{{Op: 1, Fin: false, Pay: []byte("abc")}, {Op: 8, Fin: true, Pay: closePay(6)}, {Op: 0, Fin: true, Pay: []byte("def")}},
		{{Op: 9, Fin: true, Pay: []byte("ping-payload")}, {Op: 1, Fin: true, Pay: t5}},
		{{Op: 10, Fin: true, Pay: []byte("pong")}, {Op: 8, Fin: true, Pay: closePay(10)}},
		{{Op: 8, Fin: true, Pay: closePay(2)}},
		{{Op: 1, Fin: true, Pay: t5}, {Op: 2, Fin: true, Pay: []byte{}}, {Op: 1, Fin: true, Pay: []byte("x")}},
		{{Op: 2, Fin: false, Pay: asciiPay(126, 0)}, {Op: 9, Fin: true, Pay: asciiPay(125, 1)}, {Op: 0, Fin: true, Pay: asciiPay(10, 2)}},
		{{Op: 1, Fin: true, Pay: []byte("€€")}},
	}
}

func c16r(c *ctx) {
	t := &rsink{out: vh.NewOut(c.dir, "c16r", 40000), shapes: vh.Shapes{}, meta: &vh.Meta{Property: "C16", Tier: c.tier, Seed: c.seed,
		Rule: "reader side: 12 stream shapes (single, 130-byte, fragmented, with intermediate ping/pong/close, control-only, several messages, 126/125-byte frames) cut at every byte offset (quick: every offset of short shapes, every 3rd + frame boundaries +-2 of long ones) as EOF and as a transport error, both sides, entries Reader/Reader+Discard/NextReader/ReadMessage/ReadData; distinct = (shape, entry, cut position class, outcome)"}}
	defer t.out.Close()
	vs := []rvariant{{"reader", nil, -1, true}, {"reader", nil, 0, false}, {"nextreader", nil, -1, false}, {"readmessage", nil, -1, true}, {"readdata", []int{1, 2}, -1, true}, {"readdata", []int{2}, -1, true}}
	rot := 0
	for si, fs := range cutShapes() {
		for _, side := range []string{"server", "client"} {
			probe := mkScenario("probe", side, vs[0], fs, nil, 64)
			total := len(probe.stream)
			bounds := map[int]bool{}
			for _, f := range probe.Frames {
				for d := -2; d <= 2; d++ {
					bounds[f.Hs+d], bounds[f.Ps+d], bounds[f.Pe+d] = true, true, true
				}
			}
			for cut := 0; cut < total; cut++ {
				if !c.thorough && total > 60 && !bounds[cut] && cut%3 != 0 {
					continue
				}
				for vi, v := range vs {
					for _, kind := range []string{"eof", "err"} {
						rot++
						if !c.thorough && rot%2 == 0 && total > 30 {
							continue
						}
						key := fmt.Sprintf("cut/%d/%s/%d/%d/%s", si, side, vi, cut, kind)
						sc := mkScenario(key, side, v, fs, rchunks[rot%len(rchunks)], rbufs[(rot/5)%len(rbufs)])
						sc.Cut, sc.CutKind = cut, kind
						if kind == "err" {
							// an error delivered together with the last bytes may legitimately make the
							// library drop those bytes; data+error in one Read is only used with EOF
							sc.DataErr = false
						}
						t.run(sc)
					}
				}
			}
		}
	}
	t.finish(c)
}

// ---------------------------------------------------------------- C13 (receive side)

func c13r(c *ctx) {
	t := &rsink{out: vh.NewOut(c.dir, "c13r", 40000), shapes: vh.Shapes{}, meta: &vh.Meta{Property: "C13", Tier: c.tier, Seed: c.seed,
		Rule: "receive side: message shapes (single, 2 and 3 fragments, ping/pong/close between fragments, two messages) with every RSV pattern 0..7 on one frame at a time and on the first frame of each message, with the MessageState extension attached (StateExtended on/off), both sides, Reader entry with IsCompressed() sampled after every first data frame; distinct = (shape, rsv position, rsv value, outcome)"}}
	defer t.out.Close()
	shapes := [][]fspec{
		{{Op: 1, Fin: true, Pay: []byte("abc")}},
		{{Op: 2, Fin: false, Pay: []byte("ab")}, {Op: 0, Fin: true, Pay: []byte("cd")}},
		{{Op: 1, Fin: false, Pay: []byte("ab")}, {Op: 0, Fin: false, Pay: []byte{}}, {Op: 0, Fin: true, Pay: []byte("cd")}},
		{{Op: 2, Fin: false, Pay: []byte("ab")}, {Op: 9, Fin: true, Pay: []byte("pi")}, {Op: 0, Fin: true, Pay: []byte("cd")}},
		{{Op: 2, Fin: false, Pay: []byte("ab")}, {Op: 10, Fin: true, Pay: []byte{}}, {Op: 8, Fin: true, Pay: closePay(2)}, {Op: 0, Fin: true, Pay: []byte("cd")}},
		{{Op: 9, Fin: true, Pay: []byte("pi")}, {Op: 1, Fin: true, Pay: []byte("abc")}},
		// control frames without payload between messages (not read by the caller in half of the runs)
		{{Op: 1, Fin: true, Pay: []byte("abc")}, {Op: 9, Fin: true, Pay: []byte{}}, {Op: 2, Fin: true, Pay: []byte("zz")}},
		{{Op: 2, Fin: false, Pay: []byte("ab")}, {Op: 0, Fin: true, Pay: []byte{}}, {Op: 10, Fin: true, Pay: []byte{}}, {Op: 9, Fin: true, Pay: []byte{}}, {Op: 1, Fin: true, Pay: []byte("zz")}},
		{{Op: 10, Fin: true, Pay: []byte{}}, {Op: 1, Fin: true, Pay: []byte{}}, {Op: 9, Fin: true, Pay: []byte{}}, {Op: 2, Fin: true, Pay: []byte{}}},
	}
	rot := 0
	for si, base := range shapes {
		for pos := range base {
			for rsv := 0; rsv < 8; rsv++ {
				for _, second := range []int{0, 4} { // rsv of a following message's first frame
					for _, extended := range []bool{true, false} {
						for _, side := range []string{"server", "client"} {
							rot++
							fs := append([]fspec(nil), base...)
							fs[pos].Rsv = rsv
							fs = append(fs, fspec{Op: 2, Fin: false, Rsv: second, Pay: []byte("x")}, fspec{Op: 9, Fin: true, Pay: []byte("p")}, fspec{Op: 0, Fin: true, Pay: []byte("y")},
								fspec{Op: 1, Fin: true, Pay: []byte("last")})
							key := fmt.Sprintf("rsv/%d/%d/%d/%d/%v/%s", si, pos, rsv, second, extended, side)
							v := rvariant{"reader", nil, -1, true}
							if rot%3 == 0 {
								v.Discard = 0
							}
							sc := mkScenario(key, side, v, fs, rchunks[rot%len(rchunks)], rbufs[(rot/5)%len(rbufs)])
							sc.Ext, sc.Extended = true, extended
							sc.SkipEmptyCtl = rot%2 == 0
							t.run(sc)
							// a new extension object after every message (same list length)
							if c.thorough || rsv >= 4 || second == 4 || rot%4 == 2 {
								sw := mkScenario("rsvswap"+key[3:], side, rvariant{"reader", nil, -1, true}, fs, rchunks[(rot+2)%len(rchunks)], rbufs[(rot/5)%len(rbufs)])
								sw.Ext, sw.Extended, sw.SwapExt = true, extended, true
								t.run(sw)
							}
							// SkipHeaderCheck turns off the header rules, not the extension's own bit check
							if c.thorough || rsv >= 4 || rot%4 == 1 {
								sk := mkScenario("rsvskip"+key[3:], side, v, fs, rchunks[(rot+1)%len(rchunks)], rbufs[(rot/5)%len(rbufs)])
								sk.Ext, sk.Extended, sk.Skip = true, extended, true
								sk.SkipEmptyCtl = rot%2 == 1
								t.run(sk)
							}
						}
					}
				}
			}
		}
	}
	t.finish(c)
}

// ---------------------------------------------------------------- C18 (message reader reuse)

// c18r: a reader that has delivered or discarded a message - possibly after reading
// only a part of it, in the middle of a multi-byte sequence, or after an invalid tail -
// must read the next message exactly as a new reader would.
func c18r(c *ctx) {
	t := &rsink{out: vh.NewOut(c.dir, "c18r", 40000), shapes: vh.Shapes{}, meta: &vh.Meta{Property: "C18", Tier: c.tier, Seed: c.seed,
		Rule: "message reader reuse: first message (32 valid/invalid/truncated UTF-8 strings as text or binary, 1-3 fragments, optional ping) read with 1/2/7-byte buffers and discarded after 0..3 reads or read to the end, followed by two valid messages on the same reader (CheckUTF8 on/off, extension attached or not); distinct = (string, discard point, outcome)"}}
	defer t.out.Close()
	reuseFamily(t, c, "reuse", func(rot int, disc int) bool { return c.thorough || rot%3 == 0 || disc == 1 })
	// empty messages that the caller does not bother to read, followed by control frames whose payload is
	// not text and by further messages: nothing of the unread message's kind sticks to what follows
	for ei, emptyOp := range []int{1, 2} {
		for ci, ctl := range []fspec{{Op: 9, Fin: true, Pay: []byte{0xff, 0xfe}}, {Op: 10, Fin: true, Pay: []byte{0xc3}}, {Op: 8, Fin: true, Pay: closePay(2)},
			{Op: 9, Fin: true, Pay: []byte("ascii")}, {Op: 8, Fin: true, Pay: append(closePay(2), 0xe2, 0x82)}} {
			for _, side := range []string{"server", "client"} {
				for _, utf8on := range []bool{true, false} {
					for ni, next := range [][]fspec{{{Op: 2, Fin: true, Pay: []byte{0xff}}}, {{Op: 1, Fin: false, Pay: []byte("a")}, {Op: 0, Fin: true, Pay: []byte("b")}}} {
						fs := []fspec{{Op: emptyOp, Fin: true, Pay: []byte{}}, ctl}
						fs = append(fs, next...)
						fs = append(fs, fspec{Op: 1, Fin: true, Pay: []byte{}}, fspec{Op: 2, Fin: true, Pay: []byte{0x80}})
						key := fmt.Sprintf("skipempty/%d/%d/%s/%v/%d", ei, ci, side, utf8on, ni)
						sc := mkScenario(key, side, rvariant{"reader", nil, -1, utf8on}, fs, rchunks[(ei+ci+ni)%len(rchunks)], rbufs[(ci+ni)%len(rbufs)])
						sc.SkipEmptyMsg = true
						t.run(sc)
					}
				}
			}
		}
	}
	// a message given up after the application's own OnContinuation callback refused one of its
	// fragments (the last one, or an earlier one): once Discard() has dropped the rest, the reader
	// takes the next messages like a new one
	rot := 0
	for mi, m := range [][]fspec{
		{{Op: 1, Fin: false, Pay: []byte("ab")}, {Op: 0, Fin: true, Pay: []byte("cd")}},
		{{Op: 2, Fin: false, Pay: []byte("ab")}, {Op: 0, Fin: false, Pay: []byte("cd")}, {Op: 0, Fin: true, Pay: []byte("ef")}},
		{{Op: 1, Fin: false, Pay: []byte{}}, {Op: 9, Fin: true, Pay: []byte("p")}, {Op: 0, Fin: false, Pay: []byte("x")}, {Op: 0, Fin: true, Pay: []byte{}}},
	} {
		nc := 0
		for _, f := range m {
			if f.Op == 0 {
				nc++
			}
		}
		for k := 1; k <= nc; k++ {
			for _, side := range []string{"server", "client"} {
				for _, utf8 := range []bool{true, false} {
					for bi, buf := range []int{1, 2, 64} {
						rot++
						fs := append(append([]fspec(nil), m...), fspec{Op: 2, Fin: false, Pay: []byte("ne")}, fspec{Op: 0, Fin: true, Pay: []byte("xt")}, fspec{Op: 1, Fin: true, Pay: []byte("last")})
						key := fmt.Sprintf("cberr/%d/%d/%s/%v/%d", mi, k, side, utf8, bi)
						sc := mkScenario(key, side, rvariant{"reader", nil, -1, utf8}, fs, rchunks[rot%len(rchunks)], buf)
						sc.ContErr = k
						t.run(sc)
					}
				}
			}
		}
	}
	t.finish(c)
}

// reuseFamily: a first message (every UTF-8 sample, as text or binary, whole or in fragments around a
// ping) read with small buffers and discarded after 0..3 reads - possibly in the middle of a
// multi-byte sequence - or read to the end, followed by further messages on the same reader.
// Used in full by C18 and sampled by C04 and C07 (a reader that is ready for the next message).
func reuseFamily(t *rsink, c *ctx, prefix string, keep func(rot, disc int) bool) {
	rot := 0
	for _, s := range utf8Samples {
		n := len(s.b)
		for _, cut := range []int{0, n / 2, n} {
			for _, disc := range []int{-1, 0, 1, 2, 3} {
				for _, buf := range []int{1, 2, 7} {
					for _, op := range []int{1, 2} {
						rot++
						if !keep(rot, disc) {
							continue
						}
						var fs []fspec
						if cut == 0 || cut == n {
							fs = append(fs, fspec{Op: op, Fin: true, Pay: s.b})
						} else {
							fs = append(fs, fspec{Op: op, Fin: false, Pay: s.b[:cut]}, fspec{Op: 9, Fin: true, Pay: []byte("p")}, fspec{Op: 0, Fin: true, Pay: s.b[cut:]})
						}
						fs = append(fs, fspec{Op: 1, Fin: false, Pay: []byte("o")}, fspec{Op: 0, Fin: true, Pay: []byte("k€")}, fspec{Op: 2, Fin: true, Pay: []byte{0xff, 0xfe}}, fspec{Op: 1, Fin: true, Pay: []byte("é")})
						side := []string{"server", "client"}[rot%2]
						v := rvariant{"reader", nil, disc, rot%4 != 0}
						key := fmt.Sprintf("%s/%s/%d/%d/%d/%d/%s", prefix, s.name, cut, disc, buf, op, side)
						sc := mkScenario(key, side, v, fs, rchunks[rot%len(rchunks)], buf)
						if rot%5 == 0 {
							sc.Ext, sc.Extended = true, true
							sc.build(fs, len(key))
						}
						t.run(sc)
					}
				}
			}
		}
	}
}
