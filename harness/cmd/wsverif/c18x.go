package main

import (
	"bytes"
	"compress/flate"
	"fmt"
	"io"
	"strings"

	"github.com/gobwas/httphead"
	"github.com/gobwas/ws/wsflate"
	"github.com/gobwas/ws/wsutil"
	"wsverif/vh"
)

func init() { drivers["c18x"] = c18x }

// fakeCR is fakeC with the optional WriteResetter interface.
type fakeCR struct {
	fakeC
	resets int
}

func (f *fakeCR) Reset(w io.Writer) { f.w = w; f.resets++ }

// fakeCC is fakeC with an io.Closer: closing it flushes a final chunk, as deflate compressors do.
type fakeCC struct {
	fakeC
	closed int
}

func (f *fakeCC) Close() error {
	f.closed++
	_, err := f.w.Write([]byte{1, 0, 0, 255, 255})
	return err
}

// passDR is passD with the optional ReadResetter interface.
type passDR struct{ passD }

func (d *passDR) Reset(r io.Reader) { d.r = r }

// passDC is passD with an io.Closer whose Close fails when told to.
type passDC struct {
	passD
	fail *bool
}

func (d *passDC) Close() error {
	if *d.fail {
		return fmt.Errorf("decompressor close failed")
	}
	return nil
}

type errAfter struct {
	data []byte
	pos  int
}

func (e *errAfter) Read(p []byte) (int, error) {
	if e.pos >= len(e.data) {
		return 0, vh.ErrInjected
	}
	n := copy(p, e.data[e.pos:])
	e.pos += n
	return n, nil
}

// c18x: Reset of the compression writer and reader, the mask reader and writer, the UTF-8 reader and
// the extension negotiator after a history, in lock-step with a freshly constructed instance (C18).
func c18x(c *ctx) {
	out := vh.NewOut(c.dir, "c18x", 50000)
	defer out.Close()
	shapes := vh.Shapes{}
	meta := &vh.Meta{Property: "C18", Tier: c.tier, Seed: c.seed,
		Rule: "records = object x history x suffix, the suffix run on the reset object and on a new one with every observation compared: wsflate.Writer (scripted compressor with and without WriteResetter; histories: none, flushed message, flushed message + Close, bad tail (sticky error), destination error, unflushed partial output, tail only; suffixes: 14 compressor outputs x 2 chunkings through Write/Flush/Write/Flush/Close), wsflate.Reader (pass-through decompressor with and without ReadResetter; byte-reader and plain sources crossed; histories: none, partial read, read to EOF, source error; suffixes: 5 sources x 3 read sizes), CipherReader/CipherWriter (history: k=0..6 bytes under another mask; suffix: 0..9 bytes in 1..3 pieces, also judged against the mask definition), UTF8Reader (histories: none, ASCII, cut inside a sequence, rejected; suffixes: 8 strings x 3 read sizes with Valid()/Accepted() after every read), wsflate.Extension (histories: none, accepted offer, malformed offer; suffix: Accepted(), Negotiate x2); distinct = (object, history, suffix class)"}
	n := 0
	emit := func(obj, hist, key string, reused, fresh []string, extra map[string]interface{}) {
		if reused == nil {
			reused = []string{}
		}
		if fresh == nil {
			fresh = []string{}
		}
		rec := map[string]interface{}{"k": "reuse", "key": key, "obj": obj, "history": hist, "reused": reused, "fresh": fresh}
		for k, v := range extra {
			rec[k] = v
		}
		out.Emit(rec, true)
		shapes.Add("%s/%s/%d", obj, hist, len(reused))
		n++
		if len(meta.Samples) < 4 && n%397 == 5 {
			meta.Samples = append(meta.Samples, rec)
		}
	}
	// a panic inside the library while a reset object is used is an observation, not the end of the driver
	guard := func(obj, hist, key string, body func()) {
		defer func() {
			if p := recover(); p != nil {
				emit("panic:"+obj, hist, key, []string{fmt.Sprint("panic: ", p)}, []string{"no panic"}, nil)
			}
		}()
		body()
	}
	_ = guard
	tail := []byte{0, 0, 255, 255}
	cat := func(a ...[]byte) []byte { return bytes.Join(a, nil) }
	// ---------------- wsflate.Writer
	couts := [][]byte{{}, {7}, {0, 0}, {255, 255}, {0, 0, 255}, {0, 255, 255}, {255}, tail, cat([]byte{9}, tail), {0, 0, 255, 255, 255}, cat([]byte{1, 2, 3, 4, 5, 6}, tail), {0, 0, 255, 255, 0, 0, 255}, cat(tail, tail), {5, 5, 5, 5, 5}}
	whist := []string{"none", "flushed", "flushedclosed", "badtail", "desterr", "partial", "tailonly"}
	for ri, resetter := range []bool{false, true, false} {
		closer := ri == 2 // a compressor with Close() and without Reset(io.Writer)
		for _, h := range whist {
			for ci, cout := range couts {
				for _, split := range []int{-1, len(cout) / 2, 1} {
					if split > len(cout) {
						continue
					}
					key := fmt.Sprintf("flatewriter/%v%v/%s/%d/%d", resetter, closer, h, ci, split)
					if !vh.Only(key) {
						continue
					}
					var chunks [][]byte
					if split < 0 {
						chunks = [][]byte{cout}
					} else {
						chunks = [][]byte{cout[:split], cout[split:]}
					}
					var cur *fakeC
					mk := func(dest io.Writer) *wsflate.Writer {
						return wsflate.NewWriter(dest, func(x io.Writer) wsflate.Compressor {
							if resetter {
								f := &fakeCR{}
								f.w = x
								cur = &f.fakeC
								return f
							}
							if closer {
								f := &fakeCC{}
								f.w = x
								cur = &f.fakeC
								return f
							}
							f := &fakeC{w: x}
							cur = f
							return f
						})
					}
					suffix := func(w *wsflate.Writer, dest *bytes.Buffer) (obs []string, d1 []byte, flushErr bool) {
						cur.script, cur.i = append(append([][]byte{}, chunks...), []byte{1, 2, 3, 4, 5, 6}, tail, tail), 0
						o := func(name string, err error) {
							obs = append(obs, fmt.Sprintf("%s:%v:%v:%x", name, err != nil, w.Err() != nil, dest.Bytes()))
						}
						for i := 0; i < len(chunks)-1; i++ {
							_, err := w.Write([]byte("data"))
							o("write", err)
						}
						err := w.Flush()
						o("flush", err)
						d1, flushErr = append([]byte(nil), dest.Bytes()...), err != nil
						_, err = w.Write([]byte("more"))
						o("write", err)
						o("flush", w.Flush())
						o("close", w.Close())
						return
					}
					// history on the object to be reused
					hd := &vh.Dest{}
					if h == "desterr" {
						hd.FailAt = 1
					}
					w := mk(hd)
					switch h {
					case "flushed", "flushedclosed":
						cur.script = [][]byte{cat([]byte{7, 7, 7, 7, 7}, tail)}
						w.Flush()
						if h == "flushedclosed" {
							w.Close()
						}
					case "badtail":
						cur.script = [][]byte{{1, 2}}
						w.Flush()
					case "desterr":
						cur.script = [][]byte{{1, 2, 3, 4, 5, 6, 7, 8, 9, 10}, tail}
						w.Write([]byte("x"))
						w.Flush()
					case "partial":
						cur.script = [][]byte{{0, 0, 255}}
						w.Write([]byte("x"))
					case "tailonly":
						cur.script = [][]byte{tail}
						w.Flush()
					}
					rd := &bytes.Buffer{}
					var reused []string
					var d1 []byte
					var ferr bool
					paniced := true
					guard("flatewriter", h, key, func() {
						w.Reset(rd)
						reused, d1, ferr = suffix(w, rd)
						paniced = false
					})
					if paniced {
						continue
					}
					fd := &bytes.Buffer{}
					fresh, _, _ := suffix(mk(fd), fd)
					ch := [][]int{}
					for _, x := range chunks {
						ch = append(ch, vh.Ints(x))
					}
					emit("flatewriter", h, key, reused, fresh, map[string]interface{}{"chunks": ch, "dest": vh.Ints(d1), "flushErr": ferr})
				}
			}
		}
	}
	// ---------------- wsflate.Writer / Reader over compress/flate (flate.Writer is a WriteResetter)
	for _, level := range []int{-2, 1, 9} {
		for hi, hist := range []string{"none", "message", "unflushed", "closed", "desterr"} {
			for mi, msg := range [][]byte{{}, []byte("x"), bytes.Repeat([]byte("hello "), 40), vh.PBytes(8, 0, 3000)} {
				key := fmt.Sprintf("flatereal/%d/%s/%d", level, hist, mi)
				if !vh.Only(key) {
					continue
				}
				mk := func(dest io.Writer) *wsflate.Writer {
					return wsflate.NewWriter(dest, func(x io.Writer) wsflate.Compressor { f, _ := flate.NewWriter(x, level); return f })
				}
				suffix := func(w *wsflate.Writer, dest *bytes.Buffer) (obs []string) {
					_, e1 := w.Write(msg[:len(msg)/2])
					_, e2 := w.Write(msg[len(msg)/2:])
					e3 := w.Flush()
					obs = append(obs, fmt.Sprintf("%v:%v:%v:%x", e1, e2, e3, dest.Bytes()))
					// and what the library's own reader makes of it (a reused reader for the reused writer)
					return
				}
				hd := &vh.Dest{}
				if hist == "desterr" {
					hd.FailAt = 1
				}
				w := mk(hd)
				switch hist {
				case "message", "closed", "desterr":
					w.Write(bytes.Repeat([]byte("hello earlier "), 30))
					w.Flush()
					if hist == "closed" {
						w.Close()
					}
				case "unflushed":
					w.Write(bytes.Repeat([]byte("hello unflushed "), 300))
				}
				rd := &bytes.Buffer{}
				var reused []string
				paniced := true
				guard("flatereal", hist, key, func() {
					w.Reset(rd)
					reused = suffix(w, rd)
					paniced = false
				})
				if paniced {
					continue
				}
				fd := &bytes.Buffer{}
				fresh := suffix(mk(fd), fd)
				// reader side: a reader that has read an earlier message (or failed on garbage) reads this one
				mkr := func(src io.Reader) *wsflate.Reader {
					return wsflate.NewReader(src, func(r io.Reader) wsflate.Decompressor { return flate.NewReader(r) })
				}
				r := mkr(bytes.NewReader([]byte{0xff, 0xff, 0xff}))
				if hi%2 == 0 {
					r = mkr(bytes.NewReader(fd.Bytes()))
				}
				io.ReadAll(r)
				var back []byte
				var err error
				paniced = true
				guard("flatereal", hist, key, func() {
					r.Reset(bytes.NewReader(rd.Bytes()))
					back, err = io.ReadAll(r)
					paniced = false
				})
				if paniced {
					continue
				}
				reused = append(reused, fmt.Sprintf("read:%v:%x", err, back))
				back, err = io.ReadAll(mkr(bytes.NewReader(fd.Bytes())))
				fresh = append(fresh, fmt.Sprintf("read:%v:%x", err, back))
				emit("flatereal", hist, key, reused, fresh, map[string]interface{}{"roundtrip": bytes.Equal(back, msg) && err == nil})
			}
		}
	}
	// ---------------- wsflate.Reader
	mkSrc := func(data []byte, byteReader bool) io.Reader {
		if byteReader {
			return bytes.NewReader(data)
		}
		return plainReader{bytes.NewReader(data)}
	}
	for _, resetter := range []bool{false, true} {
		for _, h := range []string{"none", "partial", "eof", "srcerr", "closeerr", "closeok"} {
			for _, hb := range []bool{true, false} { // the history's source is a byte reader or not
				for _, sb := range []bool{true, false} {
					for si, srcLen := range []int{0, 1, 8, 9, 30} {
						for _, rsz := range []int{1, 4, 64} {
							key := fmt.Sprintf("flatereader/%v/%s/%v/%v/%d/%d", resetter, h, hb, sb, si, rsz)
							if !vh.Only(key) {
								continue
							}
							closeFails := false
							mk := func(src io.Reader) *wsflate.Reader {
								return wsflate.NewReader(src, func(x io.Reader) wsflate.Decompressor {
									if h == "closeerr" || h == "closeok" {
										return &passDC{passD{x, true}, &closeFails}
									}
									if resetter {
										return &passDR{passD{x, true}}
									}
									return &passD{x, true}
								})
							}
							suffix := func(r *wsflate.Reader) (obs []string, got []byte) {
								buf := make([]byte, rsz)
								for i := 0; i < 200; i++ {
									k, err := r.Read(buf)
									got = append(got, buf[:k]...)
									kind, _ := rerr(err)
									obs = append(obs, fmt.Sprintf("%d:%x:%s:%v", k, buf[:k], kind, r.Err() != nil))
									if err != nil {
										break
									}
								}
								obs = append(obs, fmt.Sprintf("close:%v", r.Close() != nil))
								return
							}
							var hsrc io.Reader = mkSrc(vh.PBytes(9, 0, 12), hb)
							if h == "srcerr" {
								hsrc = &errAfter{data: []byte{1, 2, 3}}
							}
							r := mk(hsrc)
							switch h {
							case "partial":
								r.Read(make([]byte, 3))
							case "eof", "srcerr":
								io.ReadAll(r)
							case "closeerr", "closeok": // the earlier use ended with Close(), which failed / succeeded
								io.ReadAll(r)
								closeFails = h == "closeerr"
								r.Close()
								closeFails = false
							}
							data := vh.PBytes(4, 0, srcLen)
							var reused []string
							var got []byte
							paniced := true
							guard("flatereader", h, key, func() {
								r.Reset(mkSrc(data, sb))
								reused, got = suffix(r)
								paniced = false
							})
							if paniced {
								continue
							}
							fresh, _ := suffix(mk(mkSrc(data, sb)))
							emit("flatereader", h, key, reused, fresh, map[string]interface{}{"src": vh.Ints(data), "got": vh.Ints(got)})
						}
					}
				}
			}
		}
	}
	// ---------------- CipherReader / CipherWriter
	m1, m2 := [4]byte{0xa1, 0xb2, 0xc3, 0xd4}, [4]byte{0x11, 0x22, 0x44, 0x88}
	for k := 0; k <= 13; k++ {
		for plen := 0; plen <= 9; plen++ {
			for _, piece := range []int{1, 3, 16} {
				key := fmt.Sprintf("cipher/%d/%d/%d", k, plen, piece)
				m1, m2 := m1, m2
				if k >= 7 { // reset to the very same key (the position must start over all the same)
					m1 = m2
				}
				if !vh.Only(key) {
					continue
				}
				data := vh.PBytes(2, 0, plen)
				want := append([]byte(nil), data...)
				for i := range want {
					want[i] ^= m2[i%4]
				}
				// reader
				rsuffix := func(r *wsutil.CipherReader) (obs []string, got []byte) {
					buf := make([]byte, piece)
					for i := 0; i < 50; i++ {
						kk, err := r.Read(buf)
						got = append(got, buf[:kk]...)
						obs = append(obs, fmt.Sprintf("%x:%v", buf[:kk], err))
						if err != nil {
							break
						}
					}
					return
				}
				cr := wsutil.NewCipherReader(bytes.NewReader(vh.PBytes(1, 0, 20)), m1)
				io.ReadFull(cr, make([]byte, k%7))
				cr.Reset(bytes.NewReader(data), m2)
				reused, got := rsuffix(cr)
				fresh, _ := rsuffix(wsutil.NewCipherReader(bytes.NewReader(data), m2))
				emit("cipherreader", fmt.Sprint(k), key+"/r", reused, fresh, map[string]interface{}{"got": vh.Ints(got), "want": vh.Ints(want)})
				// writer
				wsuffix := func(w *wsutil.CipherWriter, dest *bytes.Buffer) (obs []string) {
					for pos := 0; pos < len(data); pos += piece {
						end := pos + piece
						if end > len(data) {
							end = len(data)
						}
						kk, err := w.Write(data[pos:end])
						obs = append(obs, fmt.Sprintf("%d:%v:%x", kk, err, dest.Bytes()))
					}
					return
				}
				cw := wsutil.NewCipherWriter(&bytes.Buffer{}, m1)
				cw.Write(make([]byte, k%7))
				rd := &bytes.Buffer{}
				cw.Reset(rd, m2)
				reused = wsuffix(cw, rd)
				fd := &bytes.Buffer{}
				fresh = wsuffix(wsutil.NewCipherWriter(fd, m2), fd)
				emit("cipherwriter", fmt.Sprint(k), key+"/w", reused, fresh, map[string]interface{}{"got": vh.Ints(rd.Bytes()), "want": vh.Ints(want)})
			}
		}
	}
	// ---------------- UTF8Reader
	ustrings := []string{"", "a", "héllo", "€", "\xe2\x82", "\xff", "ab\xf0\x9f\x98\x80cd", "a\xc0\xafb"}
	for _, h := range []string{"none", "ascii", "midseq", "rejected", "midread"} {
		for si, s := range ustrings {
			for _, rsz := range []int{1, 2, 16} {
				key := fmt.Sprintf("utf8reader/%s/%d/%d", h, si, rsz)
				if !vh.Only(key) {
					continue
				}
				suffix := func(u *wsutil.UTF8Reader) (obs []string) {
					obs = append(obs, fmt.Sprintf("start:%v:%d", u.Valid(), u.Accepted()))
					buf := make([]byte, rsz)
					for i := 0; i < 50; i++ {
						k, err := u.Read(buf)
						obs = append(obs, fmt.Sprintf("%d:%v:%v:%d", k, err, u.Valid(), u.Accepted()))
						if err != nil {
							break
						}
					}
					return
				}
				u := wsutil.NewUTF8Reader(strings.NewReader(map[string]string{"none": "", "ascii": "abc", "midseq": "ab\xe2\x82", "rejected": "a\xffb", "midread": "abcdefgh"}[h]))
				switch h {
				case "ascii", "midseq", "rejected":
					io.ReadAll(u)
				case "midread":
					u.Read(make([]byte, 3))
				}
				u.Reset(strings.NewReader(s))
				reused := suffix(u)
				fresh := suffix(wsutil.NewUTF8Reader(strings.NewReader(s)))
				emit("utf8reader", h, key, reused, fresh, nil)
			}
		}
	}
	// ---------------- wsflate.Extension
	opt := func(s string) httphead.Option {
		o := httphead.Option{Name: []byte("permessage-deflate")}
		for _, kv := range strings.Split(s, ";") {
			if kv == "" {
				continue
			}
			p := strings.SplitN(kv, "=", 2)
			v := ""
			if len(p) == 2 {
				v = p[1]
			}
			o.Parameters.Set([]byte(p[0]), []byte(v))
		}
		return o
	}
	offers := []string{"", "client_max_window_bits", "server_max_window_bits=10;client_no_context_takeover", "server_max_window_bits=7", "client_max_window_bits=12;server_no_context_takeover"}
	cfgs := []wsflate.Parameters{{}, {ServerNoContextTakeover: true, ClientNoContextTakeover: true}, {ServerMaxWindowBits: 11, ClientMaxWindowBits: 10}}
	for _, h := range []string{"none", "accepted", "malformed", "acceptedtwice"} {
		for ci, cfg := range cfgs {
			for oi, of := range offers {
				for o2, of2 := range offers {
					key := fmt.Sprintf("extension/%s/%d/%d/%d", h, ci, oi, o2)
					if !vh.Only(key) {
						continue
					}
					suffix := func(e *wsflate.Extension) (obs []string) {
						p, ok := e.Accepted()
						obs = append(obs, fmt.Sprintf("accepted:%+v:%v", p, ok))
						for _, o := range []string{of, of2} {
							a, err := e.Negotiate(opt(o))
							p, ok = e.Accepted()
							obs = append(obs, fmt.Sprintf("negotiate:%s:%v:%+v:%v", extString(a), err != nil, p, ok))
						}
						return
					}
					e := &wsflate.Extension{Parameters: cfg}
					switch h {
					case "accepted":
						e.Negotiate(opt("client_max_window_bits=9;server_no_context_takeover"))
					case "malformed":
						e.Negotiate(opt("server_max_window_bits=77"))
					case "acceptedtwice":
						e.Negotiate(opt(""))
						e.Negotiate(opt("client_max_window_bits"))
					}
					e.Reset()
					reused := suffix(e)
					fresh := suffix(&wsflate.Extension{Parameters: cfg})
					emit("extension", h, key, reused, fresh, nil)
				}
			}
		}
	}
	meta.Evaluations = n
	meta.Distinct = len(shapes)
	out.Close()
	meta.Files = map[string][]string{"records": out.Files}
	meta.Write(c.dir)
}
