package main

import (
	"bytes"
	"context"
	"crypto/sha1"
	"encoding/base64"
	"errors"
	"fmt"
	"net"
	"os"
	"runtime"
	"strings"
	"sync"
	"time"

	"github.com/gobwas/ws"
	"github.com/gobwas/ws/wsutil"
	"wsverif/vh"
)

func init() { drivers["c20"] = c20 }

// dscenario describes one controlled run of Dialer.Dial.
type dscenario struct {
	Ev       string `json:"ev"`
	Key      string `json:"key"`
	CtxKind  string `json:"ctxKind"`  // background | cancel | deadline
	Timeout  string `json:"timeout"`  // none | shorter | longer
	DialMode string `json:"dialmode"` // ok | fail | hang
	PeerMode string `json:"peerMode"` // ok | silent | error
	PeerAt   int    `json:"peerAt"`
	// environment moves
	CancelAt  string `json:"cancelAt"`  // "" | before_dial | in_dial | io_begin:i | io_end:i
	HoldSetDl bool   `json:"holdSetDl"` // keep SetDeadline(past) blocked until the last I/O operation has finished
	Free      bool   `json:"free"`      // unforced race: cancel concurrently with the last operation
	// Debug: the dial goes through wsutil.DebugDialer (request and response callbacks set), which puts its
	// own reader between the dialer and the connection; everything C20 says holds for it as well
	Debug bool `json:"debug"`
	// Trailing: right behind the response head the peer sends a short frame and then stays silent with the
	// connection open: a read beyond those bytes blocks until a deadline or Close ends it
	Trailing bool `json:"trailing"`
	// Cause: the context is one that records a cause of its own (WithCancelCause / WithDeadlineCause):
	// "the context's error" is still ctx.Err() - Canceled or DeadlineExceeded -, not the cause
	Cause bool `json:"cause"`
}

type dev struct {
	Ev           string `json:"ev"`
	Seq          int    `json:"seq"`
	Res          string `json:"res"`
	I            int    `json:"i"`
	Kind         string `json:"kind"`
	Err          string `json:"err"`
	ConnNil      bool   `json:"connNil"`
	WatcherAlive bool   `json:"watcherAlive"`
	// Dl (netdial events): which deadline the context handed to NetDial carries - "timeout" (start +
	// Dialer.Timeout), "ctx" (the caller's own deadline), "none", or "other"
	Dl string `json:"dl"`
}

type timeoutErr struct{}

func (timeoutErr) Error() string   { return "i/o timeout (gated conn)" }
func (timeoutErr) Timeout() bool   { return true }
func (timeoutErr) Temporary() bool { return true }

var errPeer = errors.New("peer error (gated conn)")

// denv is the controlled environment: a gated net.Conn, the NetDial stub and
// the context.  All events get their sequence number under mu.
type denv struct {
	mu       sync.Mutex
	cond     *sync.Cond
	sc       dscenario
	evs      []dev
	deadline time.Time
	hasDl    bool
	closed   bool
	ios      int // completed or started I/O operations
	lastDone bool
	cancel   context.CancelFunc
	req      bytes.Buffer
	resp     []byte
	respPos  int
	timers   []*time.Timer
}

func (e *denv) log(d dev) {
	d.Seq = len(e.evs) + 1
	e.evs = append(e.evs, d)
}

func (e *denv) doCancel() {
	// called with mu held
	if e.cancel != nil {
		e.log(dev{Ev: "ctx_cancel"})
		c := e.cancel
		e.cancel = nil
		c()
	}
}

type gconn struct{ e *denv }

func (c gconn) LocalAddr() net.Addr  { return &net.TCPAddr{} }
func (c gconn) RemoteAddr() net.Addr { return &net.TCPAddr{} }

func (c gconn) SetReadDeadline(t time.Time) error  { return c.SetDeadline(t) }
func (c gconn) SetWriteDeadline(t time.Time) error { return c.SetDeadline(t) }

func (c gconn) SetDeadline(t time.Time) error {
	e := c.e
	e.mu.Lock()
	defer e.mu.Unlock()
	kind := "future"
	if t.IsZero() {
		kind = "none"
	} else if !t.After(time.Now()) {
		kind = "past"
	}
	if kind == "past" && e.sc.HoldSetDl {
		// the watcher is kept inside SetDeadline until the handshake I/O is over
		for !e.lastDone {
			e.cond.Wait()
		}
		e.mu.Unlock()
		time.Sleep(3 * time.Millisecond) // let main reach close(quit) / <-interrupt
		e.mu.Lock()
	}
	e.deadline, e.hasDl = t, !t.IsZero()
	e.log(dev{Ev: "setdl", Kind: kind})
	if kind == "future" {
		tm := time.AfterFunc(time.Until(t), func() { e.mu.Lock(); e.cond.Broadcast(); e.mu.Unlock() })
		e.timers = append(e.timers, tm)
	}
	e.cond.Broadcast()
	return nil
}

func (c gconn) Close() error {
	e := c.e
	e.mu.Lock()
	defer e.mu.Unlock()
	e.closed = true
	e.log(dev{Ev: "close"})
	e.cond.Broadcast()
	return nil
}

func (e *denv) passed() bool { return e.hasDl && !e.deadline.After(time.Now()) }

// op is one I/O operation of the handshake.  It returns "ok", "timeout" or "other".
func (c gconn) op(isLast func() bool, deliver func()) string {
	e := c.e
	e.mu.Lock()
	defer e.mu.Unlock()
	e.ios++
	i := e.ios
	if e.sc.CancelAt == fmt.Sprintf("io_begin:%d", i) {
		e.doCancel()
	}
	res := ""
	for res == "" {
		switch {
		case e.closed:
			res = "other"
		case e.passed():
			res = "timeout"
		case e.sc.PeerMode == "error" && i >= e.sc.PeerAt:
			res = "other"
		case e.sc.PeerMode == "silent" && i >= e.sc.PeerAt:
			e.cond.Wait() // only a deadline (or Close) ends this
		case e.sc.Trailing && e.resp != nil && e.respPos >= len(e.resp):
			e.cond.Wait() // everything the peer had to say has been delivered: it is silent now
		default:
			res = "ok"
		}
	}
	if res == "ok" {
		deliver()
		if e.sc.CancelAt == fmt.Sprintf("io_end:%d", i) || (e.sc.CancelAt == "io_end:last" && isLast()) {
			e.doCancel()
		}
		if e.sc.Free && isLast() {
			// unforced race: cancel from another goroutine right now
			cf := e.cancel
			e.cancel = nil
			if cf != nil {
				go func() { e.mu.Lock(); e.log(dev{Ev: "ctx_cancel"}); e.mu.Unlock(); cf() }()
				runtime.Gosched()
			}
		}
	}
	if isLast() || res != "ok" {
		e.lastDone = true
	}
	e.log(dev{Ev: "io", I: i, Res: res})
	e.cond.Broadcast()
	return res
}

func resErr(res string) error {
	switch res {
	case "timeout":
		return timeoutErr{}
	case "other":
		return errPeer
	}
	return nil
}

func (c gconn) Write(p []byte) (int, error) {
	res := c.op(func() bool { return false }, func() { c.e.req.Write(p) })
	if res != "ok" {
		return 0, resErr(res)
	}
	return len(p), nil
}

func (c gconn) Read(p []byte) (n int, err error) {
	e := c.e
	res := c.op(func() bool { return e.resp != nil && e.respPos >= len(e.resp) }, func() {
		if e.resp == nil {
			e.resp = buildResponse(e.req.Bytes())
			if e.sc.Trailing {
				e.resp = append(e.resp, 0x81, 0x02, 'h', 'i')
			}
		}
		// deliver the response in two parts so that the handshake needs two reads
		k := len(e.resp) - e.respPos
		if e.respPos == 0 && k > 40 {
			k = 40
			if e.sc.Debug {
				// (through the debug wrapper: the first part ends with a whole header line)
				k = bytes.Index(e.resp, []byte("websocket\r\n")) + len("websocket\r\n")
			}
		}
		if k > len(p) {
			k = len(p)
		}
		n = copy(p, e.resp[e.respPos:e.respPos+k])
		e.respPos += n
	})
	if res != "ok" {
		return 0, resErr(res)
	}
	return n, nil
}

func buildResponse(req []byte) []byte {
	key := ""
	for _, line := range strings.Split(string(req), "\r\n") {
		if strings.HasPrefix(strings.ToLower(line), "sec-websocket-key:") {
			key = strings.TrimSpace(line[len("sec-websocket-key:"):])
		}
	}
	h := sha1.Sum([]byte(key + "258EAFA5-E914-47DA-95CA-C5AB0DC85B11"))
	return []byte("HTTP/1.1 101 Switching Protocols\r\nUpgrade: websocket\r\nConnection: Upgrade\r\nSec-WebSocket-Accept: " +
		base64.StdEncoding.EncodeToString(h[:]) + "\r\n\r\n")
}

func derrClass(err error) string {
	switch {
	case err == nil:
		return "nil"
	case err == context.Canceled:
		return "ctx_canceled"
	case err == context.DeadlineExceeded:
		return "ctx_deadline"
	case err == errDialFail:
		return "dialerr"
	case err == errPeer:
		return "other"
	}
	if _, ok := err.(timeoutErr); ok {
		return "timeout"
	}
	return "other:" + err.Error()
}

var errDialFail = errors.New("netdial failed (stub)")

const (
	dShort = 30 * time.Millisecond
	dLong  = 400 * time.Millisecond
	dBound = 3 * time.Second
)

func watcherAlive() bool {
	buf := make([]byte, 1<<20)
	for try := 0; try < 50; try++ {
		n := runtime.Stack(buf, true)
		if !bytes.Contains(buf[:n], []byte("setupContextDeadliner")) {
			return false
		}
		time.Sleep(time.Millisecond)
	}
	return true
}

// runDial executes one scenario on the real Dialer and returns setup + events.
func runDial(sc dscenario) []interface{} {
	sc.Ev = "setup"
	e := &denv{sc: sc}
	e.cond = sync.NewCond(&e.mu)
	var ctx context.Context = context.Background()
	switch sc.CtxKind {
	case "cancel":
		if sc.Cause {
			var cc context.CancelCauseFunc
			ctx, cc = context.WithCancelCause(context.Background())
			e.cancel = func() { cc(errors.New("application shutdown")) }
		} else {
			ctx, e.cancel = context.WithCancel(context.Background())
		}
	case "deadline":
		var cf context.CancelFunc
		if sc.Cause {
			ctx, cf = context.WithDeadlineCause(context.Background(), time.Now().Add(dLong/2), errors.New("took too long"))
		} else {
			ctx, cf = context.WithDeadline(context.Background(), time.Now().Add(dLong/2))
		}
		e.cancel = cf
	}
	d := ws.Dialer{}
	switch sc.Timeout {
	case "shorter":
		d.Timeout = dShort
	case "longer":
		d.Timeout = dLong
	}
	start := time.Now()
	ctxDl, ctxHasDl := ctx.Deadline()
	d.NetDial = func(dctx context.Context, network, addr string) (net.Conn, error) {
		dlClass := "none"
		if dl, ok := dctx.Deadline(); ok {
			switch {
			case d.Timeout != 0 && !dl.After(time.Now().Add(d.Timeout)) && !dl.Before(start.Add(d.Timeout)):
				dlClass = "timeout"
			case ctxHasDl && dl.Equal(ctxDl):
				dlClass = "ctx"
			default:
				dlClass = "other"
			}
		}
		e.mu.Lock()
		if sc.CancelAt == "in_dial" {
			e.doCancel()
		}
		e.mu.Unlock()
		switch sc.DialMode {
		case "fail":
			e.mu.Lock()
			e.log(dev{Ev: "netdial", Res: "fail", Dl: dlClass})
			e.mu.Unlock()
			return nil, errDialFail
		case "hang":
			<-dctx.Done()
			e.mu.Lock()
			e.log(dev{Ev: "netdial", Res: "abort", Dl: dlClass})
			e.mu.Unlock()
			return nil, dctx.Err()
		}
		e.mu.Lock()
		e.log(dev{Ev: "netdial", Res: "ok", Dl: dlClass})
		e.mu.Unlock()
		return gconn{e}, nil
	}
	if sc.CancelAt == "before_dial" {
		e.mu.Lock()
		e.doCancel()
		e.mu.Unlock()
	}
	type result struct {
		conn net.Conn
		err  error
	}
	done := make(chan result, 1)
	go func() {
		var conn net.Conn
		var err error
		if sc.Debug {
			dd := wsutil.DebugDialer{Dialer: d, OnRequest: func([]byte) {}, OnResponse: func([]byte) {}}
			conn, _, _, err = dd.Dial(ctx, "ws://example.test/path")
		} else {
			conn, _, _, err = d.Dial(ctx, "ws://example.test/path")
		}
		e.mu.Lock()
		e.log(dev{Ev: "return", Err: derrClass(err), ConnNil: conn == nil})
		e.mu.Unlock()
		done <- result{conn, err}
	}()
	select {
	case <-done:
	case <-time.After(dBound):
		// liveness: Dial did not return within the bound (>= 20x the timers involved)
		e.mu.Lock()
		e.log(dev{Ev: "no_return"})
		e.closed = true
		e.cond.Broadcast()
		e.mu.Unlock()
		if e.cancel != nil {
			e.cancel()
		}
		select {
		case <-done:
		case <-time.After(time.Second):
		}
	}
	alive := watcherAlive()
	time.Sleep(2 * time.Millisecond) // grace period: any later touch of the conn is logged after `return`
	e.mu.Lock()
	e.log(dev{Ev: "goroutines", WatcherAlive: alive})
	for _, t := range e.timers {
		t.Stop()
	}
	if e.cancel != nil {
		e.cancel()
		e.cancel = nil
	}
	evs := []interface{}{sc}
	for _, x := range e.evs {
		evs = append(evs, x)
	}
	e.mu.Unlock()
	return evs
}

func c20(c *ctx) {
	out := vh.NewOut(c.dir, "c20", 100000)
	defer out.Close()
	shapes := vh.Shapes{}
	meta := &vh.Meta{Property: "C20", Tier: c.tier, Seed: c.seed,
		Rule: "controlled runs of Dialer.Dial over a gated net.Conn: context kind {background, cancel-only, deadline} x Timeout {none, shorter, longer} x NetDial {ok, fail, hang} x peer {responsive, silent from operation i, failing at i} x cancellation placed before the dial, inside NetDial, at the begin and at the end of every I/O operation and exactly as the handshake completes, with SetDeadline(past) either immediate or held until the handshake I/O has finished (both forced orders), plus the unforced race repeated N times; distinct = (scenario, observed event order)"}
	var scs []dscenario
	for _, ck := range []string{"background", "cancel", "deadline"} {
		for _, to := range []string{"none", "shorter", "longer"} {
			if ck != "deadline" && to == "longer" {
				continue
			}
			// dial phase
			for _, dm := range []string{"fail", "hang"} {
				if dm == "hang" && ck == "background" && to == "none" {
					continue // would block forever, legitimately
				}
				for _, ca := range []string{"", "before_dial", "in_dial"} {
					if ca != "" && ck == "background" {
						continue
					}
					if dm == "hang" && ck == "cancel" && to == "none" && ca == "" {
						continue // nothing ever ends the dial
					}
					scs = append(scs, dscenario{CtxKind: ck, Timeout: to, DialMode: dm, PeerMode: "ok", PeerAt: 1, CancelAt: ca})
				}
			}
			// handshake phase
			for _, pm := range []string{"ok", "silent", "error"} {
				for at := 1; at <= 3; at++ {
					if pm == "ok" && at > 1 {
						continue
					}
					cas := []string{""}
					if ck != "background" {
						cas = append(cas, "before_dial", "in_dial", "io_begin:1", "io_end:1", "io_begin:2", "io_end:2", "io_begin:3", "io_end:last")
					}
					for _, ca := range cas {
						for _, hold := range []bool{false, true} {
							if hold && (ca == "" || ck == "background") {
								continue
							}
							if pm == "silent" && ca == "" && to == "none" && ck != "deadline" {
								continue // nothing ever ends the wait, legitimately
							}
							if pm == "silent" && hold {
								continue // the held SetDeadline is the only thing that could end the wait
							}
							if pm != "ok" && !reachable(ca, at) {
								continue // the cancellation point is never reached with this peer
							}
							scs = append(scs, dscenario{CtxKind: ck, Timeout: to, DialMode: "ok", PeerMode: pm, PeerAt: at, CancelAt: ca, HoldSetDl: hold})
						}
					}
				}
			}
		}
	}
	n := 0
	emit := func(sc dscenario) {
		if !vh.Only(sc.Key) {
			return
		}
		evs := runDial(sc)
		emitAny(out, evs)
		n++
		var b strings.Builder
		for _, x := range evs[1:] {
			d := x.(dev)
			fmt.Fprintf(&b, "%s%s%s%s ", d.Ev[:2], d.Res, d.Kind, d.Err)
		}
		shapes.Add("%s/%s/%s/%s%d/%s/%v/%s", sc.CtxKind, sc.Timeout, sc.DialMode, sc.PeerMode, sc.PeerAt, sc.CancelAt, sc.HoldSetDl, b.String())
		if len(meta.Samples) < 3 && n%97 == 5 {
			meta.Samples = append(meta.Samples, evs)
		}
	}
	for i, sc := range scs {
		sc.Key = fmt.Sprintf("dial/%d/%s/%s/%s/%s%d/%s/%v", i, sc.CtxKind, sc.Timeout, sc.DialMode, sc.PeerMode, sc.PeerAt, sc.CancelAt, sc.HoldSetDl)
		emit(sc)
		if sc.CtxKind != "background" && (c.thorough || i%3 == 0 || sc.PeerMode == "silent") {
			cs := sc
			cs.Cause = true
			cs.Key = "c" + sc.Key
			emit(cs)
		}
		if sc.DialMode == "ok" && (c.thorough || sc.PeerMode != "ok" || i%2 == 0) {
			sc.Debug = true
			sc.Key = "d" + sc.Key
			emit(sc)
			if sc.PeerMode == "ok" {
				sc.Trailing = true
				sc.Key = "t" + sc.Key
				emit(sc)
				sc.Debug = false // (and the plain dialer, which hands those bytes over in its buffer)
				sc.Key = "p" + sc.Key
				emit(sc)
			}
		}
	}
	races := 300
	if c.thorough {
		races = 5000
	}
	if os.Getenv("VERIF_RACES") != "" {
		fmt.Sscanf(os.Getenv("VERIF_RACES"), "%d", &races)
	}
	for i := 0; i < races; i++ {
		sc := dscenario{CtxKind: "cancel", Timeout: "none", DialMode: "ok", PeerMode: "ok", PeerAt: 1, Free: true}
		if i%3 == 1 {
			sc.Timeout = "shorter"
		}
		sc.Key = fmt.Sprintf("race/%d", i)
		emit(sc)
	}
	meta.Evaluations = n
	meta.Distinct = len(shapes)
	out.Close()
	meta.Files = map[string][]string{"traces": out.Files}
	meta.Write(c.dir)
}

// reachable reports whether the cancellation trigger fires when the peer stops
// answering (or fails) at operation `at`.
func reachable(ca string, at int) bool {
	var i int
	switch {
	case ca == "" || ca == "before_dial" || ca == "in_dial":
		return true
	case ca == "io_end:last":
		return false
	case strings.HasPrefix(ca, "io_begin:"):
		fmt.Sscanf(ca, "io_begin:%d", &i)
		return i <= at
	case strings.HasPrefix(ca, "io_end:"):
		fmt.Sscanf(ca, "io_end:%d", &i)
		return i < at
	}
	return true
}
