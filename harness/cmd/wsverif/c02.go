package main

import (
	"bytes"
	"fmt"
	"io"
	"unsafe"

	"github.com/gobwas/ws"
	"github.com/gobwas/ws/wsutil"
	"wsverif/vh"
)

func init() { drivers["c02"] = c02 }

// alignedSlice returns a slice of n bytes whose first byte sits at address
// = align (mod 8).
func alignedSlice(n, align int) []byte {
	buf := make([]byte, n+16)
	base := int(uintptr(unsafe.Pointer(&buf[0])) % 8)
	start := (align - base + 8) % 8
	return buf[start : start+n : start+n]
}

// shortDest accepts at most Max bytes per Write and returns io.ErrShortWrite
// when it took fewer than offered.
type shortDest struct {
	buf []byte
	max []int
	i   int
}

func (d *shortDest) Write(p []byte) (int, error) {
	k := len(p)
	if len(d.max) > 0 {
		m := d.max[d.i%len(d.max)]
		d.i++
		if m < k {
			k = m
		}
	}
	d.buf = append(d.buf, p[:k]...)
	if k < len(p) {
		return k, io.ErrShortWrite
	}
	return k, nil
}

func c02(c *ctx) {
	out := vh.NewOut(c.dir, "c02", 15000)
	defer out.Close()
	shapes := vh.Shapes{}
	meta := &vh.Meta{Property: "C02", Tier: c.tier, Seed: c.seed,
		Rule: "records = ws.Cipher over lengths 0..80 x offsets x alignments x keys as one call, every 2-split and seeded multi-splits; CipherReader/CipherWriter over short-read/short-write transports; the six Mask/Unmask frame helpers; distinct = (kind, len, off mod 4, align, chunk count) shapes"}
	rng := vh.Rand(c.seed, "c02")
	keys := [][4]byte{{0x11, 0x22, 0x44, 0x88}, {0, 0, 0, 0}, {0xff, 0x00, 0xff, 0x80}, {1, 2, 3, 4}}
	n := 0
	emit := func(rec map[string]interface{}) {
		out.Emit(rec, true)
		n++
		if len(meta.Samples) < 3 && n%977 == 1 {
			meta.Samples = append(meta.Samples, rec)
		}
	}

	maxLen := 80
	offs := []int{0, 1, 2, 3, 4, 5, 6, 7, 9, 10, 11, 1<<20 + 1, 1<<20 + 2, 1<<20 + 3}
	for ln := 0; ln <= maxLen; ln++ {
		for oi, off := range offs {
			for align := 0; align < 8; align++ {
				if !c.thorough && (ln+oi+align)%4 != 0 && ln > 24 {
					continue
				}
				k := keys[(ln+oi+align)%len(keys)]
				key := fmt.Sprintf("cipher/%d/%d/%d", ln, off, align)
				if !vh.Only(key) {
					continue
				}
				p := alignedSlice(ln, align)
				for i := range p {
					p[i] = byte(rng.Intn(256))
				}
				orig := append([]byte(nil), p...)
				ws.Cipher(p, k, off)
				res := append([]byte(nil), p...)
				ws.Cipher(p, k, off)
				emit(map[string]interface{}{"k": "cipher", "key": key, "p": vh.Ints(orig), "key4": vh.Ints(k[:]), "off": off,
					"out": vh.Ints(res), "twice": vh.Ints(p), "cuts": []int{}})
				shapes.Add("cipher/%d/%d/%d/1", ln, off%4, align)
			}
		}
	}
	// offsets up to the largest int (a long-lived stream's running offset): byte i still gets
	// key[(offset+i) mod 4], with offset+i taken in the integers - no wrap-around.  The judge is given
	// the residue (offset mod 4) + 4, which names the same mask positions without exceeding TLC's ints.
	maxInt := int(^uint(0) >> 1)
	for oi, off := range []int{maxInt, maxInt - 1, maxInt - 2, maxInt - 3, maxInt - 4, maxInt - 7, maxInt - 16, 1 << 62, 1<<62 + 1, 1<<62 + 3, 1<<32 + 2, 1 << 32, 1<<31 - 1, 1 << 31, 1<<31 + 1} {
		for ln := 0; ln <= 40; ln++ {
			key := fmt.Sprintf("hugeoff/%d/%d", oi, ln)
			if !vh.Only(key) {
				continue
			}
			k := keys[(ln+oi)%len(keys)]
			p := alignedSlice(ln, (ln+oi)%8)
			rng.Read(p)
			orig := append([]byte(nil), p...)
			res, twice := []byte{}, []byte{}
			func() {
				defer func() {
					if pn := recover(); pn != nil {
						res, twice = []byte{}, []byte{} // (a panic: the record then shows no output at all)
						if ln == 0 {
							res = []byte{0xff}
						}
					}
				}()
				ws.Cipher(p, k, off)
				res = append([]byte(nil), p...)
				ws.Cipher(p, k, off)
				twice = append([]byte(nil), p...)
			}()
			emit(map[string]interface{}{"k": "cipher", "key": key, "p": vh.Ints(orig), "key4": vh.Ints(k[:]), "off": off%4 + 4,
				"out": vh.Ints(res), "twice": vh.Ints(twice), "cuts": []int{}})
			shapes.Add("hugeoff/%d/%d", oi, ln)
		}
	}
	// long payloads (beyond any block / page size of an unrolled loop) at every offset residue
	longLens := []int{255, 256, 257, 1000, 1023, 1024, 1025, 1043, 2047, 2048, 2100, 4095, 4096, 4111}
	if c.thorough {
		longLens = append(longLens, 8191, 8192, 8200, 16384, 16401, 65535, 65536, 65555)
	}
	for _, ln := range longLens {
		for off := 0; off < 8; off++ {
			key := fmt.Sprintf("long/%d/%d", ln, off)
			if !vh.Only(key) {
				continue
			}
			k := keys[(ln+off)%len(keys)]
			p := alignedSlice(ln, off%3)
			rng.Read(p)
			orig := append([]byte(nil), p...)
			ws.Cipher(p, k, off)
			res := append([]byte(nil), p...)
			ws.Cipher(p, k, off)
			emit(map[string]interface{}{"k": "cipher", "key": key, "p": vh.Ints(orig), "key4": vh.Ints(k[:]), "off": off,
				"out": vh.Ints(res), "twice": vh.Ints(p), "cuts": []int{}})
			shapes.Add("long/%d/%d", ln, off%4)
		}
	}
	// every 2-split, and seeded multi-splits
	for ln := 1; ln <= maxLen; ln++ {
		for cut := 0; cut <= ln; cut++ {
			if !c.thorough && (ln+cut)%3 != 0 && ln > 20 {
				continue
			}
			off := offs[(ln+cut)%len(offs)]
			k := keys[(ln+cut)%len(keys)]
			key := fmt.Sprintf("split2/%d/%d", ln, cut)
			if !vh.Only(key) {
				continue
			}
			p := make([]byte, ln)
			rng.Read(p)
			orig := append([]byte(nil), p...)
			ws.Cipher(p[:cut], k, off)
			ws.Cipher(p[cut:], k, off+cut)
			res := append([]byte(nil), p...)
			ws.Cipher(p, k, off)
			emit(map[string]interface{}{"k": "cipher", "key": key, "p": vh.Ints(orig), "key4": vh.Ints(k[:]), "off": off,
				"out": vh.Ints(res), "twice": vh.Ints(p), "cuts": []int{cut}})
			shapes.Add("split2/%d/%d/%d", ln, cut, off%4)
		}
	}
	nm := 1500
	if c.thorough {
		nm = 40000
	}
	for i := 0; i < nm; i++ {
		ln := rng.Intn(97)
		off := rng.Intn(64)
		var k [4]byte
		rng.Read(k[:])
		key := fmt.Sprintf("multi/%d", i)
		p := make([]byte, ln)
		rng.Read(p)
		if !vh.Only(key) {
			continue
		}
		orig := append([]byte(nil), p...)
		cuts := []int{}
		pos := 0
		for pos < ln {
			step := 1 + rng.Intn(20)
			if pos+step > ln {
				step = ln - pos
			}
			ws.Cipher(p[pos:pos+step], k, off+pos)
			pos += step
			cuts = append(cuts, pos)
		}
		res := append([]byte(nil), p...)
		ws.Cipher(p, k, off)
		emit(map[string]interface{}{"k": "cipher", "key": key, "p": vh.Ints(orig), "key4": vh.Ints(k[:]), "off": off,
			"out": vh.Ints(res), "twice": vh.Ints(p), "cuts": cuts})
		shapes.Add("multi/%d/%d", ln/8, len(cuts))
	}
	// streaming reader and writer
	ns := 1500
	if c.thorough {
		ns = 30000
	}
	for i := 0; i < ns; i++ {
		ln := rng.Intn(120)
		var k [4]byte
		rng.Read(k[:])
		p := make([]byte, ln)
		rng.Read(p)
		sizes := []int{1 + rng.Intn(9), 1 + rng.Intn(33), 1 + rng.Intn(5)}
		key := fmt.Sprintf("creader/%d", i)
		if vh.Only(key) {
			src := &vh.ChunkReader{Data: append([]byte(nil), p...), Sizes: sizes, DataErr: i%2 == 1}
			cr := wsutil.NewCipherReader(src, k)
			var got []byte
			buf := make([]byte, 1+rng.Intn(40))
			switch i % 4 {
			case 2: // a prefix through Read / ReadFull, the rest through io.Copy (which uses WriteTo if the reader has one)
				pre := make([]byte, rng.Intn(ln+1)%7)
				m, _ := io.ReadFull(cr, pre)
				got = append(got, pre[:m]...)
				var rest bytes.Buffer
				io.Copy(&rest, cr)
				got = append(got, rest.Bytes()...)
			case 3: // io.ReadAll after one small Read
				m, _ := cr.Read(buf[:1])
				got = append(got, buf[:m]...)
				rest, _ := io.ReadAll(cr)
				got = append(got, rest...)
			default:
				for guard := 0; guard < 100000; guard++ {
					m, err := cr.Read(buf)
					got = append(got, buf[:m]...)
					if err != nil {
						break
					}
				}
			}
			emit(map[string]interface{}{"k": "stream", "key": key, "who": "CipherReader", "p": vh.Ints(p), "key4": vh.Ints(k[:]),
				"out": vh.Ints(got), "callerIntact": true})
			shapes.Add("creader/%d/%v", ln/8, sizes[0])
		}
		key = fmt.Sprintf("cwriter/%d", i)
		if vh.Only(key) {
			d := &shortDest{max: sizes}
			if i%3 == 0 {
				d.max = nil
			}
			cw := wsutil.NewCipherWriter(d, k)
			caller := append([]byte(nil), p...)
			pos := 0
			guard := 0
			for pos < ln && guard < 10000 {
				guard++
				step := 1 + rng.Intn(50)
				if pos+step > ln {
					step = ln - pos
				}
				m, _ := cw.Write(caller[pos : pos+step])
				pos += m // pos advances by bytes transferred; the rest is resubmitted
			}
			emit(map[string]interface{}{"k": "stream", "key": key, "who": "CipherWriter", "p": vh.Ints(p), "key4": vh.Ints(k[:]),
				"out": vh.Ints(d.buf), "callerIntact": bytes.Equal(caller, p)})
			shapes.Add("cwriter/%d/%v", ln/8, len(d.max))
		}
		// Reset makes them start over
		key = fmt.Sprintf("creset/%d", i)
		if (vh.Only(key) || vh.Only(key+"w")) && i%4 == 0 {
			// the earlier stream ran under another key, or (every other time) under the very same key,
			// and stopped at every residue of the position modulo 4
			old, oldw := [4]byte{9, 9, 9, 9}, [4]byte{7, 7, 7, 7}
			if i%8 == 0 {
				old, oldw = k, k
			}
			cr := wsutil.NewCipherReader(bytes.NewReader([]byte{1, 2, 3, 4, 5, 6, 7}), old)
			io.ReadFull(cr, make([]byte, 1+(i/8)%5))
			switch (i / 4) % 4 {
			case 1: // the earlier source failed, after or together with its last bytes
				cr.Reset(&vh.ChunkReader{Data: []byte{1, 2, 3}, End: vh.ErrInjected, DataErr: i%16 < 8}, old)
				io.ReadAll(cr)
				cr.Read(make([]byte, 4))
			case 2: // the earlier source was read to its end and beyond
				io.ReadAll(cr)
				cr.Read(make([]byte, 4))
			}
			cr.Reset(bytes.NewReader(append([]byte(nil), p...)), k)
			got, _ := io.ReadAll(cr)
			emit(map[string]interface{}{"k": "stream", "key": key, "who": "CipherReader.Reset", "p": vh.Ints(p), "key4": vh.Ints(k[:]),
				"out": vh.Ints(got), "callerIntact": true})
			var db bytes.Buffer
			cw := wsutil.NewCipherWriter(io.Discard, oldw)
			cw.Write(make([]byte, 1+(i/8)%5))
			if (i/4)%4 == 1 { // the earlier destination failed
				cw.Reset(&vh.Dest{FailAt: 1, Partial: i % 3}, oldw)
				cw.Write(make([]byte, 5))
				cw.Write(make([]byte, 2))
			}
			cw.Reset(&db, k)
			cw.Write(p)
			emit(map[string]interface{}{"k": "stream", "key": key + "w", "who": "CipherWriter.Reset", "p": vh.Ints(p), "key4": vh.Ints(k[:]),
				"out": vh.Ints(db.Bytes()), "callerIntact": true})
		}
	}
	// single writes larger than the pooled scratch classes (the copy must still be a copy)
	for _, ln := range []int{65535, 65536, 65537, 65538, 70001, 131075} {
		key := fmt.Sprintf("cwriterbig/%d", ln)
		if !vh.Only(key) {
			continue
		}
		p := vh.PBytes(7, 0, ln)
		caller := append([]byte(nil), p...)
		k := [4]byte{0x5a, 0x01, 0xff, 0x80}
		var db bytes.Buffer
		cw := wsutil.NewCipherWriter(&db, k)
		cw.Write(caller)
		cw.Write(caller[:5])
		got := db.Bytes()
		want := append(append([]byte(nil), p...), p[:5]...)
		for i := range want {
			want[i] ^= k[i%4]
		}
		// (too long for the TLA+ judge to mask byte by byte: compared here, the verdict is what is logged)
		emit(map[string]interface{}{"k": "big", "key": key, "len": ln, "outOK": bytes.Equal(got, want), "callerIntact": bytes.Equal(caller, p)})
		shapes.Add("cwriterbig/%d", ln)
	}
	// frame helpers
	apis := []string{"MaskFrame", "MaskFrameWith", "MaskFrameInPlace", "MaskFrameInPlaceWith", "UnmaskFrame", "UnmaskFrameInPlace"}
	for ln := 0; ln <= 40; ln++ {
		for ai, api := range apis {
			for rep := 0; rep < 8; rep++ {
				key := fmt.Sprintf("frame/%s/%d/%d", api, ln, rep)
				if !vh.Only(key) {
					continue
				}
				var k, inmask [4]byte
				rng.Read(k[:])
				rng.Read(inmask[:])
				if rep >= 2 && rep < 5 { // special keys: all zero (a legal mask: the frame is still a masked frame), one bit, all ones
					k = [][4]byte{{0, 0, 0, 0}, {0, 0, 0, 1}, {0xff, 0xff, 0xff, 0xff}}[rep-2]
					inmask = k
				}
				p := make([]byte, ln)
				rng.Read(p)
				caller := append([]byte(nil), p...)
				f := ws.Frame{Header: ws.Header{Fin: rep%2 == 0, Rsv: byte(ln % 8), OpCode: ws.OpCode(ai), Length: int64(ln)}, Payload: caller}
				if rep >= 5 {
					// hand-built frames: the helpers work on the payload slice
					// whatever the header's length field says
					f.Header.Length = []int64{0, int64(ln / 2), int64(ln + 5)}[rep-5]
				}
				if api == "UnmaskFrame" || api == "UnmaskFrameInPlace" {
					f.Header.Masked = true
					f.Header.Mask = inmask
				}
				var g ws.Frame
				switch api {
				case "MaskFrame":
					g = ws.MaskFrame(f)
				case "MaskFrameWith":
					g = ws.MaskFrameWith(f, k)
				case "MaskFrameInPlace":
					g = ws.MaskFrameInPlace(f)
				case "MaskFrameInPlaceWith":
					g = ws.MaskFrameInPlaceWith(f, k)
				case "UnmaskFrame":
					g = ws.UnmaskFrame(f)
				case "UnmaskFrameInPlace":
					g = ws.UnmaskFrameInPlace(f)
				}
				same := g.Header.Fin == f.Header.Fin && g.Header.Rsv == f.Header.Rsv && g.Header.OpCode == f.Header.OpCode && g.Header.Length == f.Header.Length
				emit(map[string]interface{}{"k": "frame", "key": key, "api": api, "p": vh.Ints(p), "key4": vh.Ints(k[:]), "inmask": vh.Ints(inmask[:]),
					"out": vh.Ints(g.Payload), "outlen": len(g.Payload), "outmasked": g.Header.Masked, "outmask": vh.Ints(g.Header.Mask[:]),
					"callerAfter": vh.Ints(caller), "sameHeader": same})
				shapes.Add("frame/%s/%d", api, ln)
			}
		}
	}
	meta.Evaluations = n
	meta.Distinct = len(shapes)
	out.Close()
	meta.Files = map[string][]string{"records": out.Files}
	meta.Write(c.dir)
}
