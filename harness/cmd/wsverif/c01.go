package main

import (
	"bufio"
	"bytes"
	"fmt"
	"io"
	"runtime"
	"strings"
	"sync"

	"github.com/gobwas/ws"
	"github.com/gobwas/ws/wsutil"
	"wsverif/vh"
)

func init() { drivers["c01"] = c01 }

func toWS(h vh.H) ws.Header {
	return ws.Header{Fin: h.Fin, Rsv: byte(h.Rsv), OpCode: ws.OpCode(h.Op), Masked: h.Masked, Mask: h.MaskBytes(), Length: int64(h.N)}
}

func fromWS(h ws.Header) vh.H {
	return vh.H{Fin: h.Fin, Rsv: int(h.Rsv), Op: int(h.OpCode), Masked: h.Masked, Mask: vh.Ints(h.Mask[:]), Len: vh.Len8(uint64(h.Length)), N: uint64(h.Length)}
}

type decRes struct {
	Who      string `json:"who"`
	Chunk    string `json:"chunk"`
	St       string `json:"st"` // ok | err
	Err      string `json:"err"`
	H        vh.H   `json:"h"`
	Consumed int    `json:"consumed"`
	Neg      bool   `json:"neg"` // Length came back negative
}

var zeroH = vh.H{Mask: []int{0, 0, 0, 0}, Len: vh.Len8(0)}

// decode runs one of the two header decoders over data served with the given
// chunk sizes, and reports what it returned and how many source bytes it took.
func decode(who string, data []byte, sizes []int, chunk string) decRes {
	// A chunk name ending in "+eof" serves the last bytes together with io.EOF.
	src := &vh.ChunkReader{Data: data, Sizes: sizes, DataErr: strings.HasSuffix(chunk, "+eof")}
	var (
		h   ws.Header
		err error
	)
	switch who {
	case "ReadHeader":
		h, err = ws.ReadHeader(src)
	case "NextFrame":
		r := &wsutil.Reader{Source: src, SkipHeaderCheck: true}
		h, err = r.NextFrame()
	}
	d := decRes{Who: who, Chunk: chunk, St: "ok", Err: vh.ErrClass(err), H: zeroH, Consumed: src.Pos}
	if err != nil {
		d.St = "err"
		return d
	}
	if h.Length < 0 {
		d.Neg = true
		h.Length = 0
	}
	d.H = fromWS(h)
	return d
}

var sentinel = []byte{0xA5, 0x5A, 0xC3, 0x3C, 0x96, 0x69, 0xF0, 0x0F}

func c01(c *ctx) {
	out := vh.NewOut(c.dir, "c01", 20000)
	defer out.Close()
	shapes := vh.Shapes{}
	meta := &vh.Meta{Property: "C01", Tier: c.tier, Seed: c.seed,
		Rule: "records = header grid (fin x rsv x op x masked x mask x boundary length) through WriteHeader/HeaderSize and both decoders under 3 chunkings, random headers with uniform bit-width, random/structured byte strings to both decoders, whole-frame APIs; distinct = (kind, length form, masked, decoder outcome class, input length) shapes"}
	rng := vh.Rand(c.seed, "c01")

	lengths := []uint64{0, 1, 124, 125, 126, 127, 128, 255, 256, 65534, 65535, 65536, 65537,
		1<<31 - 1, 1 << 31, 1<<32 - 1, 1 << 32, 1 << 40, 1 << 47, 1<<62 - 1, 1 << 62, 1<<63 - 1}
	masks := [][4]byte{{0, 0, 0, 0}, {0xff, 0xff, 0xff, 0xff}, {1, 2, 3, 4}, {0x80, 0x7f, 0x00, 0xfe}}

	encRecord := func(h vh.H, key string) {
		h.Len = vh.Len8(h.N)
		var wb bytes.Buffer
		werr := ws.WriteHeader(&wb, toWS(h))
		size := ws.HeaderSize(toWS(h))
		// Decoders get the library's own bytes followed by a sentinel payload.
		data := append(append([]byte(nil), wb.Bytes()...), sentinel...)
		decs := []decRes{}
		for _, who := range []string{"ReadHeader", "NextFrame"} {
			decs = append(decs, decode(who, data, nil, "whole"))
			decs = append(decs, decode(who, data, []int{1}, "1"))
			// split once at every position inside the header
			k := 1 + rng.Intn(wb.Len()+1)
			decs = append(decs, decode(who, data, []int{k, 1 << 20}, fmt.Sprintf("split%d", k)))
			// the header is the last thing in the stream and its last bytes
			// arrive together with io.EOF
			decs = append(decs, decode(who, wb.Bytes(), nil, "whole+eof"))
			decs = append(decs, decode(who, wb.Bytes(), []int{2, 1 << 20}, "hop+eof"))
			decs = append(decs, decode(who, wb.Bytes(), []int{1}, "1+eof"))
		}
		out.Emit(map[string]interface{}{"k": "enc", "key": key, "h": h, "wbytes": vh.Ints(wb.Bytes()),
			"werr": werr != nil, "size": size, "decs": decs}, true)
		shapes.Add("enc/%d/%v/%v/%d", len(wb.Bytes()), h.Masked, h.Fin, h.Op)
	}

	n := 0
	sample := func(v interface{}) {
		if len(meta.Samples) < 4 {
			meta.Samples = append(meta.Samples, v)
		}
	}
	// 1. the grid
	for fin := 0; fin < 2; fin++ {
		for rsv := 0; rsv < 8; rsv++ {
			for op := 0; op < 16; op++ {
				for masked := 0; masked < 2; masked++ {
					for li, L := range lengths {
						full := c.thorough || (rsv+op+fin)%5 == li%5 || li < 2
						if !full {
							continue
						}
						ms := masks[:1]
						if masked == 1 {
							ms = masks
							if !c.thorough {
								ms = masks[(li+op)%4 : (li+op)%4+1]
							}
						}
						for _, m := range ms {
							h := vh.H{Fin: fin == 1, Rsv: rsv, Op: op, Masked: masked == 1, Mask: vh.Ints(m[:]), N: L}
							key := fmt.Sprintf("grid/%d/%d/%d/%d/%d/%x", fin, rsv, op, masked, L, m)
							if vh.Only(key) {
								encRecord(h, key)
								n++
							}
						}
					}
				}
			}
		}
	}
	// 2. random headers, bit-width of the length uniform in 0..63
	nr := 4000
	if c.thorough {
		nr = 100000
	}
	for i := 0; i < nr; i++ {
		bits := uint(rng.Intn(64))
		var L uint64
		if bits > 0 {
			L = (uint64(1) << (bits - 1)) | (rng.Uint64() & ((uint64(1) << (bits - 1)) - 1))
		}
		var m [4]byte
		rng.Read(m[:])
		h := vh.H{Fin: rng.Intn(2) == 1, Rsv: rng.Intn(8), Op: rng.Intn(16), Masked: rng.Intn(2) == 1, Mask: vh.Ints(m[:]), N: L}
		if !h.Masked {
			h.Mask = []int{0, 0, 0, 0}
		}
		key := fmt.Sprintf("rand/%d", i)
		if vh.Only(key) {
			encRecord(h, key)
			n++
		}
	}
	// 3. byte strings to both decoders
	nd := 8000
	if c.thorough {
		nd = 300000
	}
	decRecord := func(in []byte, key string) {
		a := decode("ReadHeader", in, nil, "whole")
		b := decode("NextFrame", in, nil, "whole")
		a1 := decode("ReadHeader", in, []int{1}, "1")
		b1 := decode("NextFrame", in, []int{1}, "1")
		a2 := decode("ReadHeader", in, nil, "whole+eof")
		b2 := decode("NextFrame", in, nil, "whole+eof")
		a3 := decode("ReadHeader", in, []int{2, 1 << 20}, "hop+eof")
		b3 := decode("NextFrame", in, []int{2, 1 << 20}, "hop+eof")
		rec := map[string]interface{}{"k": "dec", "key": key, "input": vh.Ints(in), "decs": []decRes{a, b, a1, b1, a2, b2, a3, b3}}
		out.Emit(rec, true)
		shapes.Add("dec/%d/%s/%s/%d", len(in), a.St, b.St, secondByte(in))
		sample(rec)
		n++
	}
	// every truncation of every second-byte class, both mask bits
	for _, b1 := range []byte{0, 1, 125, 126, 127, 128, 129, 253, 254, 255} {
		for _, top := range []byte{0x00, 0x7f, 0x80, 0xff} {
			full := []byte{0x81, b1, top, 0, 0, 0, 0, 0, 1, 2, 9, 8, 7, 6, 5, 4}
			for k := 0; k <= len(full); k++ {
				key := fmt.Sprintf("trunc/%d/%d/%d", b1, top, k)
				if vh.Only(key) {
					decRecord(full[:k], key)
				}
			}
		}
	}
	for i := 0; i < nd; i++ {
		ln := rng.Intn(17)
		in := make([]byte, ln)
		rng.Read(in)
		if ln >= 2 && rng.Intn(3) > 0 {
			in[1] = []byte{126, 127, 254, 255, 125, 0xfd}[rng.Intn(6)]
		}
		if ln >= 3 && rng.Intn(4) == 0 {
			in[2] |= 0x80
		}
		if ln >= 4 && rng.Intn(3) == 0 { // non-minimal forms
			in[2] = 0
			if rng.Intn(2) == 0 && ln >= 9 {
				copy(in[2:8], []byte{0, 0, 0, 0, 0, 0})
			}
		}
		key := fmt.Sprintf("bytes/%d", i)
		if vh.Only(key) {
			decRecord(in, key)
		}
	}
	// 4. whole frames
	plens := []int{0, 1, 124, 125, 126, 127, 65534, 65535, 65536, 65537, 70000}
	for _, pl := range plens {
		for masked := 0; masked < 2; masked++ {
			for _, fin := range []bool{true, false} {
				for _, op := range []int{0, 1, 2, 8, 9, 10, 3, 15} {
					if !c.thorough && (op+pl)%3 != 0 && pl > 127 {
						continue
					}
					key := fmt.Sprintf("frame/%d/%d/%v/%d", pl, masked, fin, op)
					if !vh.Only(key) {
						continue
					}
					m := masks[(pl+op)%4]
					h := vh.H{Fin: fin, Rsv: (op + pl) % 8, Op: op, Masked: masked == 1, Mask: vh.Ints(m[:]), N: uint64(pl)}
					if !h.Masked {
						h.Mask = []int{0, 0, 0, 0}
					}
					h.Len = vh.Len8(h.N)
					payload := vh.PBytes(op, 0, pl)
					f := ws.Frame{Header: toWS(h), Payload: payload}
					var wb bytes.Buffer
					werr := ws.WriteFrame(&wb, f)
					cb, cerr := ws.CompileFrame(f)
					hs := len(vh.OwnEncode(h))
					wHdr, wPayOK := splitAt(wb.Bytes(), hs, payload)
					cHdr, cPayOK := splitAt(cb, hs, payload)
					// ReadFrame gets own-codec bytes + payload + sentinel
					in := append(append(vh.OwnEncode(h), payload...), sentinel...)
					src := &vh.ChunkReader{Data: in, Sizes: []int{7, 1, 4096}}
					rf, rerr := ws.ReadFrame(src)
					// the Must* forms are the same calls (and panic exactly when those fail)
					mustOK := func() (ok bool) {
						defer func() {
							if recover() != nil {
								ok = werr != nil || cerr != nil || rerr != nil
							}
						}()
						var mb bytes.Buffer
						ws.MustWriteFrame(&mb, f)
						mc := ws.MustCompileFrame(f)
						mr := ws.MustReadFrame(bytes.NewReader(in))
						return bytes.Equal(mb.Bytes(), wb.Bytes()) && bytes.Equal(mc, cb) && mr.Header == rf.Header && bytes.Equal(mr.Payload, rf.Payload)
					}()
					rec := map[string]interface{}{"k": "frame", "key": key, "h": h, "plen": pl, "mustOK": mustOK,
						"werr": werr != nil, "whdr": vh.Ints(wHdr), "wtotal": wb.Len(), "wpayOK": wPayOK,
						"cerr": cerr != nil, "chdr": vh.Ints(cHdr), "ctotal": len(cb), "cpayOK": cPayOK,
						"inhdr": vh.Ints(vh.OwnEncode(h)),
						"rerr":  vh.ErrClass(rerr), "rh": fromWS(rf.Header), "rpayOK": bytes.Equal(rf.Payload, payload), "rconsumed": src.Pos}
					out.Emit(rec, true)
					shapes.Add("frame/%d/%d", hs, pl)
					n++
				}
			}
		}
	}
	// one streaming reader decoding several headers in a row (its scratch state must not leak from
	// one header into the next): all pairs and triples over boundary lengths, payloads discarded
	seqLens := []int{0, 1, 125, 126, 300, 65535, 65536, 70000}
	var seqs [][]int
	for _, a := range seqLens {
		for _, b := range seqLens {
			seqs = append(seqs, []int{a, b})
			for _, cc := range []int{0, 126, 65536} {
				seqs = append(seqs, []int{a, b, cc})
			}
		}
	}
	for si, ls := range seqs {
		for mode := 0; mode < 4; mode++ {
			// all frames unmasked, all masked, or alternating (a masked frame before an unmasked one and
			// the other way round: nothing of one header may show in the next)
			allMasked := mode == 1
			key := fmt.Sprintf("seq/%v/%v", ls, allMasked)
			if mode >= 2 {
				key = fmt.Sprintf("seq/%v/alt%d", ls, mode)
			}
			if !vh.Only(key) {
				continue
			}
			var stream []byte
			var hs []vh.H
			for i, l := range ls {
				masked := allMasked || (mode == 2 && i%2 == 0) || (mode == 3 && i%2 == 1)
				h := vh.H{Fin: true, Rsv: (si + i) % 8, Op: 1 + (si+i)%2, Masked: masked, Mask: []int{0, 0, 0, 0}, N: uint64(l)}
				if masked {
					h.Mask = []int{17 + i, 34, 51 + si%200, 68}
				}
				h.Len = vh.Len8(h.N)
				hs = append(hs, h)
				stream = append(append(stream, vh.OwnEncode(h)...), make([]byte, l)...)
			}
			src := &vh.ChunkReader{Data: stream, Sizes: [][]int{nil, {1}, {7, 4096}}[si%3]}
			rd := &wsutil.Reader{Source: src, SkipHeaderCheck: true}
			var decs []decRes
			for range ls {
				before := src.Pos
				h, err := rd.NextFrame()
				d := decRes{Who: "NextFrame", Chunk: "seq", St: "ok", Err: vh.ErrClass(err), H: zeroH, Consumed: src.Pos - before}
				if err != nil {
					d.St = "err"
					decs = append(decs, d)
					break
				}
				d.H = fromWS(h)
				decs = append(decs, d)
				src.Pos += ls[len(decs)-1] // skip the payload on the transport itself, whatever the reader believes
			}
			out.Emit(map[string]interface{}{"k": "seq", "key": key, "hs": hs, "decs": decs}, true)
			shapes.Add("seq/%d/%d", len(ls), mode)
			n++
		}
	}
	// ws.ReadHeader / ReadFrame through a bufio.Reader (small buffers, sources that deliver in pieces): several
	// frames in a row, so that headers straddle refills of the buffer
	for bi, bsz := range []int{16, 17, 32, 4096} {
		for ci, chunk := range [][]int{{1}, {3}, {7, 2}, {13}, nil} {
			key := fmt.Sprintf("bufseq/%d/%d", bsz, ci)
			if !vh.Only(key) {
				continue
			}
			var stream []byte
			var hs []vh.H
			var pls []int
			for i := 0; i < 12; i++ {
				l := []int{0, 5, 125, 126, 1, 40, 127, 3, 65536, 2, 200, 0}[(i+bi+ci)%12]
				h := vh.H{Fin: i%3 != 0, Rsv: (i + bi) % 8, Op: []int{1, 2, 0, 9, 10, 8}[(i+ci)%6], Masked: (i+bi)%2 == 0, Mask: []int{0, 0, 0, 0}, N: uint64(l)}
				if h.Masked {
					h.Mask = []int{0x80 + i, 0x10 + ci, 0xfe, 0x01}
				}
				h.Len = vh.Len8(h.N)
				hs = append(hs, h)
				pls = append(pls, l)
				stream = append(append(stream, vh.OwnEncode(h)...), bytes.Repeat([]byte{byte(0xe0 + i)}, l)...)
			}
			br := bufio.NewReaderSize(&vh.ChunkReader{Data: stream, Sizes: chunk}, bsz)
			var decs []decRes
			for i := range hs {
				h, err := ws.ReadHeader(br)
				d := decRes{Who: "ReadHeader", Chunk: "bufio", St: "ok", Err: vh.ErrClass(err), H: zeroH, Consumed: len(vh.OwnEncode(hs[i]))}
				if err != nil {
					d.St = "err"
					decs = append(decs, d)
					break
				}
				d.H = fromWS(h)
				decs = append(decs, d)
				if _, err := io.CopyN(io.Discard, br, int64(pls[i])); err != nil {
					break
				}
			}
			out.Emit(map[string]interface{}{"k": "seq", "key": key, "hs": hs, "decs": decs}, true)
			shapes.Add("bufseq/%d/%d", bsz, ci)
			n++
		}
	}
	// after a frame write that failed in the destination: frames written next - one of them from inside the
	// destination's Write of the other (a tunnel), so that both are in flight at once - still come out as
	// their own header followed by exactly their own payload
	for _, sz := range []int{100, 130, 300, 1000, 4000, 5000} {
		for _, failAt := range []int{1, 2} {
			key := fmt.Sprintf("afterfail/%d/%d", sz, failAt)
			if !vh.Only(key) {
				continue
			}
			calls := 0
			ws.WriteFrame(writerFunc(func(b []byte) (int, error) {
				calls++
				if calls >= failAt {
					return 0, vh.ErrInjected
				}
				return len(b), nil
			}), ws.NewBinaryFrame(vh.PBytes(1, 0, sz)))
			var outerBuf, innerBuf bytes.Buffer
			innerPay, outerPay := vh.PBytes(9, 0, sz+3), vh.PBytes(4, 0, sz)
			tw := writerFunc(func(b []byte) (int, error) {
				ws.WriteFrame(&innerBuf, ws.NewBinaryFrame(innerPay))
				return outerBuf.Write(b)
			})
			err := ws.WriteFrame(tw, ws.NewTextFrame(outerPay))
			of, orest := vh.ParseFrames(outerBuf.Bytes())
			inf, irest := vh.ParseFrames(innerBuf.Bytes())
			bad := ""
			switch {
			case err != nil:
				bad = "outer write failed: " + err.Error()
			case len(orest) != 0 || len(of) != 1 || of[0].Op != 1 || !of[0].Fin || !bytes.Equal(of[0].Raw, outerPay):
				bad = fmt.Sprintf("outer frame is not its header + payload (%d frames, %d stray bytes, first bytes % x)", len(of), len(orest), outerBuf.Bytes()[:minInt(6, outerBuf.Len())])
			case len(irest) != 0 || len(inf) == 0:
				bad = "inner frames are not whole frames"
			}
			for _, f := range inf {
				if bad == "" && (f.Op != 2 || !bytes.Equal(f.Raw, innerPay)) {
					bad = "an inner frame is not its header + payload"
				}
			}
			if bad != "" {
				meta.Direct = append(meta.Direct, map[string]interface{}{"key": key, "what": "after a failed frame write: " + bad})
			}
			n++
			shapes.Add("afterfail/%d", sz)
		}
	}
	// the codec under concurrent use: goroutines encode and decode their own headers at the same time,
	// through writers that yield before they copy (the encoder must not lend them shared scratch memory)
	for _, procs := range []int{1, 4} {
		key := fmt.Sprintf("conc/%d", procs)
		if !vh.Only(key) {
			continue
		}
		prev := runtime.GOMAXPROCS(procs)
		const G, K = 6, 400
		bad := make([]string, G)
		var wg sync.WaitGroup
		for g := 0; g < G; g++ {
			wg.Add(1)
			go func(g int) {
				defer wg.Done()
				for i := 0; i < K && bad[g] == ""; i++ {
					h := vh.H{Fin: i%2 == 0, Rsv: (g + i) % 8, Op: (g*3 + i) % 16, Masked: g%2 == 0, Mask: []int{0, 0, 0, 0}, N: uint64([]int{0, 125, 126, 65535, 65536, 1 << 33}[(g+i)%6] + g)}
					if h.Masked {
						h.Mask = []int{g + 1, i % 256, 7, 9}
					}
					h.Len = vh.Len8(h.N)
					want := vh.OwnEncode(h)
					var got []byte
					err := ws.WriteHeader(yieldWriter{&got}, toWS(h))
					if err != nil || !bytes.Equal(got, want) {
						bad[g] = fmt.Sprintf("goroutine %d header %d: WriteHeader gave %x, want %x (%v)", g, i, got, want, err)
						break
					}
					rh, err := ws.ReadHeader(&vh.ChunkReader{Data: want, Sizes: []int{1}})
					if err != nil || fromWS(rh).N != h.N || fromWS(rh).Op != h.Op {
						bad[g] = fmt.Sprintf("goroutine %d header %d: ReadHeader gave %+v (%v)", g, i, rh, err)
					}
				}
			}(g)
		}
		wg.Wait()
		runtime.GOMAXPROCS(prev)
		first := ""
		for _, b := range bad {
			if b != "" && first == "" {
				first = b
			}
		}
		out.Emit(map[string]interface{}{"k": "conc", "key": key, "procs": procs, "ok": first == "", "first": first}, true)
		shapes.Add("conc/%d", procs)
		n++
	}
	// whole frames whose payload exceeds the 1 MiB preallocation limit, from sources that hand over their
	// last bytes together with io.EOF (a complete frame is a complete frame however the end is signalled)
	for _, pl := range []int{1 << 20, 1<<20 + 1, 2<<20 + 3} {
		for _, dataErr := range []bool{false, true} {
			for ci, chunk := range [][]int{nil, {65536}, {1<<20 - 1, 7}} {
				key := fmt.Sprintf("framebig/%d/%v/%d", pl, dataErr, ci)
				if !vh.Only(key) {
					continue
				}
				h := vh.H{Fin: true, Op: 2, Mask: []int{0, 0, 0, 0}, N: uint64(pl)}
				h.Len = vh.Len8(h.N)
				payload := vh.PBytes(5, 0, pl)
				in := append(vh.OwnEncode(h), payload...)
				f, err := ws.ReadFrame(&vh.ChunkReader{Data: in, Sizes: chunk, DataErr: dataErr})
				out.Emit(map[string]interface{}{"k": "framebig", "key": key, "plen": pl, "rerr": vh.ErrClass(err),
					"rpayOK": bytes.Equal(f.Payload, payload), "rlen": int(f.Header.Length)}, true)
				shapes.Add("framebig/%d/%v", pl, dataErr)
				n++
			}
		}
	}
	// ReadFrame on a truncated payload must fail
	for _, pl := range []int{1, 125, 126, 65536} {
		for _, cut := range []int{0, 1, pl - 1} {
			if cut < 0 || cut >= pl {
				continue
			}
			key := fmt.Sprintf("framecut/%d/%d", pl, cut)
			if !vh.Only(key) {
				continue
			}
			h := vh.H{Fin: true, Op: 2, Mask: []int{0, 0, 0, 0}, N: uint64(pl)}
			h.Len = vh.Len8(h.N)
			in := append(vh.OwnEncode(h), vh.PBytes(1, 0, cut)...)
			_, rerr := ws.ReadFrame(bytes.NewReader(in))
			mustPanics := func() (p bool) {
				defer func() { p = recover() != nil }()
				ws.MustReadFrame(bytes.NewReader(in))
				return false
			}()
			out.Emit(map[string]interface{}{"k": "framecut", "key": key, "plen": pl, "cut": cut, "rerr": vh.ErrClass(rerr), "mustPanics": mustPanics}, true)
			n++
		}
	}
	_ = io.EOF
	meta.Evaluations = n
	meta.Distinct = len(shapes)
	meta.Files = map[string][]string{"records": out.Files}
	out.Close()
	meta.Files["records"] = out.Files
	meta.Write(c.dir)
}

func secondByte(in []byte) int {
	if len(in) < 2 {
		return -1
	}
	return int(in[1])
}

// splitAt splits b into a header of hs bytes and checks the rest is payload.
func splitAt(b []byte, hs int, payload []byte) ([]byte, bool) {
	if len(b) < hs {
		return b, false
	}
	return b[:hs], bytes.Equal(b[hs:], payload)
}

// yieldWriter lets other goroutines run between receiving a slice and copying it.
type yieldWriter struct{ dst *[]byte }

func (y yieldWriter) Write(p []byte) (int, error) {
	runtime.Gosched()
	*y.dst = append(*y.dst, p...)
	return len(p), nil
}
