package main

import (
	"bufio"
	"bytes"
	"context"
	"crypto/sha1"
	"fmt"
	"io"
	"net"
	"net/url"
	"strings"
	"time"

	"github.com/gobwas/httphead"
	"github.com/gobwas/ws"
	"github.com/gobwas/ws/wsflate"
	"github.com/gobwas/ws/wsutil"
	"wsverif/vh"
)

func init() { drivers["c11"] = c11 }

// chunkedConn re-chunks what is read from the underlying pipe end.
type chunkedConn struct {
	net.Conn
	sizes  []int
	i      int
	failAt int // the n-th Write fails (0: never); the bytes are not sent
	writes int
}

func (c *chunkedConn) Write(p []byte) (int, error) {
	c.writes++
	if c.failAt > 0 && c.writes >= c.failAt {
		return 0, vh.ErrInjected
	}
	return c.Conn.Write(p)
}

func (c *chunkedConn) Read(p []byte) (int, error) {
	if len(c.sizes) > 0 && len(p) > 0 {
		k := c.sizes[c.i%len(c.sizes)]
		c.i++
		if k < len(p) {
			p = p[:k]
		}
	}
	return c.Conn.Read(p)
}

type hsres struct {
	OK    bool     `json:"ok"`
	Proto string   `json:"proto"`
	Exts  []string `json:"exts"`
	Err   string   `json:"err"`
	Out   string   `json:"out"`
}

func resOf(hs ws.Handshake, err error) hsres {
	r := hsres{OK: err == nil, Proto: hs.Protocol, Exts: []string{}}
	for _, e := range hs.Extensions {
		r.Exts = append(r.Exts, extString(e))
	}
	if err != nil {
		r.Err = err.Error()
		r.Proto, r.Exts = "", []string{}
	}
	return r
}

type pairCfg struct {
	cProtos   []string
	sAccept   []string
	sHasSel   bool
	cExts     []httphead.Option
	sExtMode  string // none | select | deflate | table
	sExtTable []string
	cHeader   bool
	sHeader   bool
	crb, cwb  int
	srb, swb  int
	cChunk    []int
	sChunk    []int
	longHdr   int
	sFailAt   int // the server's / client's n-th transport write fails
	cFailAt   int
}

func digest(b []byte) string { h := sha1.Sum(b); return fmt.Sprintf("%x", h[:6]) }

func runPair(pc pairCfg) (c, s hsres, deadlock bool) {
	c.Exts, s.Exts = []string{}, []string{} // (never null in the log, also when a peer does not come back)
	c.Err, s.Err = "no result", "no result"
	a, b := net.Pipe()
	defer a.Close()
	defer b.Close()
	cc := &chunkedConn{Conn: a, sizes: pc.cChunk, failAt: pc.cFailAt}
	sc := &chunkedConn{Conn: b, sizes: pc.sChunk, failAt: pc.sFailAt}
	d := ws.Dialer{Protocols: pc.cProtos, Extensions: pc.cExts, ReadBufferSize: pc.crb, WriteBufferSize: pc.cwb}
	hdr := ""
	if pc.cHeader {
		hdr = "X-Client: 1\r\n"
	}
	if pc.longHdr > 0 {
		hdr += "X-Long: " + strings.Repeat("a", pc.longHdr) + "\r\nCookie: k=" + strings.Repeat("v", pc.longHdr/2) + "\r\n"
	}
	if hdr != "" {
		d.Header = ws.HandshakeHeaderString(hdr)
	}
	u := ws.Upgrader{ReadBufferSize: pc.srb, WriteBufferSize: pc.swb}
	if pc.sHasSel {
		u.Protocol = func(p []byte) bool { return inList(pc.sAccept, string(p)) }
	}
	var ext wsflate.Extension
	switch pc.sExtMode {
	case "select":
		u.Extension = func(o httphead.Option) bool { return inList(pc.sExtTable, string(o.Name)) }
	case "deflate":
		ext = wsflate.Extension{Parameters: wsflate.Parameters{ServerNoContextTakeover: true, ClientMaxWindowBits: 10}}
		u.Negotiate = ext.Negotiate
	case "table":
		u.Negotiate = func(o httphead.Option) (httphead.Option, error) {
			if inList(pc.sExtTable, string(o.Name)) {
				r := httphead.Option{Name: append([]byte(nil), o.Name...)}
				r.Parameters.Set([]byte("accepted"), []byte("yes, really; ok"))
				return r, nil
			}
			return httphead.Option{}, nil
		}
	}
	if pc.sHeader {
		u.Header = ws.HandshakeHeaderString("X-Server: " + strings.Repeat("s", 1+pc.longHdr/3) + "\r\n")
	}
	cch := make(chan hsres, 1)
	sch := make(chan hsres, 1)
	go func() {
		uu, _ := url.Parse("ws://pair.test/x")
		_, hs, err := d.Upgrade(cc, uu)
		cch <- resOf(hs, err)
		if err != nil {
			a.Close()
		}
	}()
	go func() {
		hs, err := u.Upgrade(sc)
		sch <- resOf(hs, err)
		if err != nil {
			// let the client see the error response, then end the stream
			time.Sleep(2 * time.Millisecond)
			b.Close()
		}
	}()
	timeout := time.After(pairTimeout)
	for i := 0; i < 2; i++ {
		select {
		case c = <-cch:
		case s = <-sch:
		case <-timeout:
			// (the verdict is a violation from here on: later pairs that hang as well are given up on
			// sooner, so that a library in which every pair hangs does not cost 5 s per pair)
			pairTimeout = 300 * time.Millisecond
			return c, s, true
		}
	}
	return c, s, false
}

func c11(c *ctx) {
	out := vh.NewOut(c.dir, "c11", 20000)
	defer out.Close()
	shapes := vh.Shapes{}
	meta := &vh.Meta{Property: "C11", Tier: c.tier, Seed: c.seed,
		Rule: "records = (pair) library dialer <-> library upgrader over an in-memory duplex re-chunked in both directions: subprotocol lists x selectors x extension offers (with parameters) x negotiators (selector, wsflate.Extension, table) x extra headers x header lines shorter/longer than the buffers x read/write buffer sizes {0,16,64,300,4096} x chunkings; (indep) one fixed request/response served to a single peer under 12 chunkings x 5 buffer sizes incl. 1-byte reads and lines longer than the buffer; (debug) DebugDialer/DebugUpgrader against the plain peers with 0..3 trailing frames and head lengths swept across the read-buffer size; distinct = (kind, outcome, configuration class)"}
	n := 0
	emit := func(rec map[string]interface{}, shape string) {
		out.Emit(rec, true)
		n++
		shapes.Add(shape)
		if len(meta.Samples) < 3 && n%211 == 1 {
			meta.Samples = append(meta.Samples, rec)
		}
	}
	// ---- pairs
	protoLists := [][]string{nil, {"chat"}, {"a", "b", "c"}, {"z", "chat"}}
	accepts := [][]string{{"chat"}, {"c", "b"}, {}}
	pmd := httphead.Option{Name: []byte("permessage-deflate")}
	pmd.Parameters.Set([]byte("client_max_window_bits"), nil)
	pmd2 := httphead.Option{Name: []byte("permessage-deflate")}
	pmd2.Parameters.Set([]byte("client_max_window_bits"), []byte("12"))
	pmd2.Parameters.Set([]byte("server_no_context_takeover"), nil)
	xq := httphead.Option{Name: []byte("x-quoted")}
	xq.Parameters.Set([]byte("p"), []byte("a b,c"))
	extOffers := [][]httphead.Option{nil, {pmd}, {xq, pmd2}, {{Name: []byte("x-a")}, {Name: []byte("x-b")}}}
	bufs := []int{0, 16, 64, 300, 4096}
	chunks := [][]int{nil, {1}, {3, 50}, {16}, {200}}
	rot := 0
	for pi, pl := range protoLists {
		for ai, ac := range accepts {
			for _, hasSel := range []bool{true, false} {
				for ei, eo := range extOffers {
					for _, mode := range []string{"none", "select", "deflate", "table"} {
						for _, long := range []int{0, 40, 400} {
							rot++
							if !c.thorough && rot%3 != 0 {
								continue
							}
							pc := pairCfg{cProtos: pl, sAccept: ac, sHasSel: hasSel, cExts: eo, sExtMode: mode, sExtTable: []string{"x-b", "x-quoted", "permessage-deflate"},
								cHeader: rot%2 == 0, sHeader: rot%3 == 0, longHdr: long,
								crb: bufs[rot%5], cwb: bufs[(rot/5)%5], srb: bufs[(rot/2)%5], swb: bufs[(rot/7)%5], cChunk: chunks[rot%5], sChunk: chunks[(rot/3)%5]}
							key := fmt.Sprintf("pair/%d/%d/%v/%d/%s/%d/%d", pi, ai, hasSel, ei, mode, long, rot)
							if !vh.Only(key) {
								continue
							}
							cr, sr, dl := runPair(pc)
							emit(map[string]interface{}{"k": "pair", "key": key, "c": cr, "s": sr, "deadlock": dl}, fmt.Sprintf("pair/%v/%v/%s/%d/%d/%d", cr.OK, sr.OK, mode, pi, ei, long))
						}
					}
				}
			}
		}
	}
	// ---- offers that hold names differing only in letter case (subprotocol names are case-sensitive
	// tokens): both peers must report the very spelling the server selected
	for pi, pl := range [][]string{{"chat", "CHAT"}, {"v1.Chat", "v1.chat", "json"}, {"Chat", "chat", "CHAT"}, {"json", "JSON", "Json"}} {
		for ai, ac := range [][]string{{"CHAT"}, {"v1.chat"}, {"chat"}, {"Json", "JSON"}, {"chat", "CHAT"}} {
			for bi := 0; bi < 3; bi++ {
				rot++
				pc := pairCfg{cProtos: pl, sAccept: ac, sHasSel: true, sExtMode: "none", cHeader: bi == 1, sHeader: bi == 2,
					crb: bufs[rot%5], cwb: bufs[(rot/5)%5], srb: bufs[(rot/2)%5], swb: bufs[(rot/7)%5], cChunk: chunks[rot%5], sChunk: chunks[(rot/3)%5]}
				key := fmt.Sprintf("casepair/%d/%d/%d", pi, ai, bi)
				if !vh.Only(key) {
					continue
				}
				cr, sr, dl := runPair(pc)
				emit(map[string]interface{}{"k": "pair", "key": key, "c": cr, "s": sr, "deadlock": dl}, fmt.Sprintf("casepair/%v/%v/%d/%d", cr.OK, sr.OK, pi, ai))
			}
		}
	}
	// ---- pairs over a transport whose n-th write fails on one side: neither peer may report success
	for _, who := range []string{"server", "client"} {
		for failAt := 1; failAt <= 4; failAt++ {
			for _, wb := range []int{0, 16, 300} {
				for _, long := range []int{0, 400} {
					pc := pairCfg{cProtos: []string{"chat"}, sAccept: []string{"chat"}, sHasSel: true, cExts: extOffers[1], sExtMode: "deflate", sExtTable: nil,
						cHeader: true, sHeader: true, longHdr: long, cwb: wb, swb: wb}
					if who == "server" {
						pc.sFailAt = failAt
					} else {
						pc.cFailAt = failAt
					}
					key := fmt.Sprintf("pairfault/%s/%d/%d/%d", who, failAt, wb, long)
					if !vh.Only(key) {
						continue
					}
					cr, sr, dl := runPair(pc)
					emit(map[string]interface{}{"k": "pairfault", "key": key, "c": cr, "s": sr, "deadlock": dl, "who": who}, fmt.Sprintf("pairfault/%s/%v/%v", who, cr.OK, sr.OK))
				}
			}
		}
	}
	// ---- single peer, many chunkings
	allChunks := [][]int{nil, {1}, {2}, {3}, {5, 1}, {7, 11}, {15}, {16}, {17}, {64}, {100, 1, 1}, {4096}}
	reqs := map[string]string{
		"plain":   "GET /x HTTP/1.1\r\nHost: h\r\nUpgrade: websocket\r\nConnection: Upgrade\r\nSec-WebSocket-Version: 13\r\nSec-WebSocket-Key: dGhlIHNhbXBsZSBub25jZQ==\r\nSec-WebSocket-Protocol: a, chat\r\n\r\n",
		"long":    "GET /x HTTP/1.1\r\nHost: h\r\nCookie: " + strings.Repeat("c", 333) + "\r\nUpgrade:   websocket\r\nConnection: keep-alive, Upgrade\r\nSec-WebSocket-Version: 13\r\nSec-WebSocket-Key: dGhlIHNhbXBsZSBub25jZQ==\r\nSec-WebSocket-Extensions: x-a; p=" + strings.Repeat("q", 40) + ", x-b\r\n\r\n",
		"bad":     "GET /x HTTP/1.1\r\nHost: h\r\nX-Pad: " + strings.Repeat("p", 70) + "\r\nUpgrade: websocket\r\nConnection: close\r\nSec-WebSocket-Version: 13\r\nSec-WebSocket-Key: dGhlIHNhbXBsZSBub25jZQ==\r\n\r\n",
		"lf":      "GET /x HTTP/1.1\nHost: h\nUpgrade: websocket\nConnection: Upgrade\nSec-WebSocket-Version: 13\nSec-WebSocket-Key: dGhlIHNhbXBsZSBub25jZQ==\n\n",
		"crsplit": "GET /x HTTP/1.1\r\nHost: h" + strings.Repeat("x", 9) + "\r\nUpgrade: websocket\r\nConnection: Upgrade\r\nSec-WebSocket-Version: 13\r\nSec-WebSocket-Key: dGhlIHNhbXBsZSBub25jZQ==\r\n\r\n",
	}
	for name, req := range reqs {
		key := "indep/server/" + name
		if !vh.Only(key) {
			continue
		}
		variants := []hsres{}
		for _, ch := range allChunks {
			for _, rb := range bufs {
				for _, wb := range []int{0, 16} {
					u := ws.Upgrader{ReadBufferSize: rb, WriteBufferSize: wb,
						Protocol:  func(p []byte) bool { return string(p) == "chat" },
						Extension: func(o httphead.Option) bool { return string(o.Name) == "x-a" }}
					rw := &rwBuf{r: &vh.ChunkReader{Data: []byte(req), Sizes: ch}}
					hs, err := u.Upgrade(rw)
					r := resOf(hs, err)
					r.Out = digest(rw.w.Bytes())
					variants = append(variants, r)
				}
			}
		}
		emit(map[string]interface{}{"k": "indep", "key": key, "variants": variants}, "indep/server/"+name)
	}
	resps := map[string]string{
		"plain":  "HTTP/1.1 101 Switching Protocols\r\nUpgrade: websocket\r\nConnection: Upgrade\r\nSec-WebSocket-Accept: %s\r\nSec-WebSocket-Protocol: chat\r\n\r\n",
		"long":   "HTTP/1.1 101 Switching Protocols\r\nSet-Cookie: " + strings.Repeat("s", 400) + "\r\nUpgrade: WebSocket\r\nConnection: upgrade\r\nSec-WebSocket-Accept: %s\r\nSec-WebSocket-Extensions: x-a; p=" + strings.Repeat("v", 30) + "\r\n\r\n",
		"bad":    "HTTP/1.1 101 Switching Protocols\r\nX-Pad: " + strings.Repeat("p", 50) + "\r\nUpgrade: websocket\r\nConnection: Upgrade\r\nSec-WebSocket-Accept: AAAAAAAAAAAAAAAAAAAAAAAAAAA=\r\n\r\n",
		"status": "HTTP/1.1 403 Forbidden\r\nContent-Length: 2\r\n\r\nno",
	}
	for name, tmpl := range resps {
		key := "indep/client/" + name
		if !vh.Only(key) {
			continue
		}
		variants := []hsres{}
		for _, ch := range allChunks {
			for _, rb := range bufs {
				for _, wb := range []int{0, 16} {
					d := ws.Dialer{ReadBufferSize: rb, WriteBufferSize: wb, Protocols: []string{"chat"}, Extensions: []httphead.Option{{Name: []byte("x-a")}}}
					pc := &peerConn{chunk: ch}
					pc.build = func(k string) []byte {
						if strings.Contains(tmpl, "%s") {
							return []byte(fmt.Sprintf(tmpl, acceptFor(k)))
						}
						return []byte(tmpl)
					}
					uu, _ := url.Parse("ws://h/x")
					_, hs, err := d.Upgrade(pc, uu)
					r := resOf(hs, err)
					// bytes written, with the random key masked out
					h := parseHead(pc.req.Bytes())
					r.Out = digest(bytes.Replace(pc.req.Bytes(), []byte(h.first("Sec-WebSocket-Key")), []byte("KEY"), 1))
					variants = append(variants, r)
				}
			}
		}
		emit(map[string]interface{}{"k": "indep", "key": key, "variants": variants}, "indep/client/"+name)
	}
	// ---- debug wrappers
	trailing := [][]byte{{}, vh.BuildFrame(1, true, 0, false, [4]byte{}, []byte("hello")),
		append(vh.BuildFrame(2, true, 0, false, [4]byte{}, vh.PBytes(1, 0, 300)), vh.BuildFrame(9, true, 0, false, [4]byte{}, []byte("p"))...)}
	for padLen := 0; padLen < 70; padLen++ {
		for ti, tr := range trailing {
			for _, rb := range []int{0, 16, 32, 64} {
				if !c.thorough && (padLen+ti+rb/16)%3 != 0 && (ti == 0 || rb == 0) {
					continue
				}
				for _, whole := range []bool{true, false} {
					key := fmt.Sprintf("debug/dialer/%d/%d/%d/%v", padLen, ti, rb, whole)
					if vh.Only(key) {
						emit(debugDial(key, padLen, tr, rb, whole), fmt.Sprintf("debug/dialer/%d/%d/%v", ti, rb, whole))
					}
					// the same with bare LF line ends (which the dialer accepts), all through or mixed
					if padLen%5 == 0 || c.thorough {
						for ei, eol := range []string{"\n", "mixed"} {
							debugDialEOL = eol
							k2 := fmt.Sprintf("debuglf/dialer/%d/%d/%d/%v/%d", padLen, ti, rb, whole, ei)
							if vh.Only(k2) {
								emit(debugDial(k2, padLen, tr, rb, whole), fmt.Sprintf("debuglf/dialer/%d/%d/%v/%d", ti, rb, whole, ei))
							}
							debugDialEOL = "\r\n"
						}
					}
				}
			}
		}
	}
	type dreq struct {
		name, req string
		rb        int
	}
	dreqs := []dreq{{"plain", reqs["plain"], 0}, {"long", reqs["long"], 0}, {"bad", reqs["bad"], 0}}
	// requests that net/http's own parser refuses or reads differently, but the zero-copy upgrader handles
	// (the wrapper must not change the outcome whatever it uses to look at the bytes)
	okHead := "GET /x HTTP/1.1\r\nHost: h\r\nUpgrade: websocket\r\nConnection: Upgrade\r\nSec-WebSocket-Version: 13\r\nSec-WebSocket-Protocol: chat\r\nSec-WebSocket-Key: dGhlIHNhbXBsZSBub25jZQ==\r\n"
	dreqs = append(dreqs,
		dreq{"twohosts", okHead + "Host: other\r\n\r\n", 0},
		dreq{"nocolon", okHead + "X-NoColon-Line\r\n\r\n", 0},
		dreq{"lfonly", strings.ReplaceAll(okHead, "\r\n", "\n") + "\n", 0},
		dreq{"badmethod", "G@T" + okHead[3:] + "\r\n", 0},
		dreq{"http10", strings.Replace(okHead, "HTTP/1.1", "HTTP/1.0", 1) + "\r\n", 0},
		dreq{"spaceinname", okHead + "X Bad: v\r\n\r\n", 0},
		dreq{"emptyname", okHead + ": v\r\n\r\n", 0})
	// a header line whose length sweeps across the read-buffer size and its multiples (the line
	// "X-Pad: ppp..." is lineLen bytes long without its CRLF)
	padded := func(lineLen int) string {
		return "GET /x HTTP/1.1\r\nHost: h\r\nUpgrade: websocket\r\nConnection: Upgrade\r\nX-Pad: " + strings.Repeat("p", lineLen-7) +
			"\r\nSec-WebSocket-Version: 13\r\nSec-WebSocket-Protocol: chat\r\nSec-WebSocket-Key: dGhlIHNhbXBsZSBub25jZQ==\r\n\r\n"
	}
	for _, rb := range []int{16, 32, 64} {
		for lineLen := 8; lineLen <= 2*rb+3; lineLen++ {
			dreqs = append(dreqs, dreq{fmt.Sprintf("pad%d", lineLen), padded(lineLen), rb})
		}
	}
	for lineLen := 4090; lineLen <= 4100; lineLen++ {
		dreqs = append(dreqs, dreq{fmt.Sprintf("pad%d", lineLen), padded(lineLen), 0})
	}
	for lineLen := 8188; lineLen <= 8194; lineLen++ {
		dreqs = append(dreqs, dreq{fmt.Sprintf("pad%d", lineLen), padded(lineLen), 0})
	}
	for ri, dr := range dreqs {
		req := dr.req
		for _, ch := range [][]int{nil, {1}, {7}} {
			key := fmt.Sprintf("debug/upgrader/%d/%s/%d/%v", ri, dr.name, dr.rb, ch)
			if !vh.Only(key) {
				continue
			}
			var gotReq, gotResp []byte
			calls := 0
			mkU := func() ws.Upgrader {
				return ws.Upgrader{ReadBufferSize: dr.rb, Protocol: func(p []byte) bool { return string(p) == "chat" }}
			}
			du := wsutil.DebugUpgrader{Upgrader: mkU(),
				OnRequest: func(b []byte) { gotReq = append([]byte(nil), b...); calls++ }, OnResponse: func(b []byte) { gotResp = append([]byte(nil), b...) }}
			// (a client must not send frames before it has the response, so nothing follows the request)
			src := &vh.ChunkReader{Data: []byte(req), Sizes: ch}
			rw := &rwBuf{r: src}
			hs, err := du.Upgrade(rw)
			plain := &rwBuf{r: bytes.NewReader([]byte(req))}
			hs2, err2 := mkU().Upgrade(plain)
			emit(map[string]interface{}{"k": "debug", "key": key, // (the bytes exchanged are those taken from the transport: an upgrader that refuses the request line does not read on)
				"reqEq": bytes.Equal(gotReq, []byte(req)[:src.Pos]), "respEq": bytes.Equal(gotResp, rw.w.Bytes()),
				"sameOutcome": (err == nil) == (err2 == nil) && hs.Protocol == hs2.Protocol && bytes.Equal(rw.w.Bytes(), plain.w.Bytes()),
				"trailingOK":  true, "wrapOK": true, "calls": calls}, fmt.Sprintf("debug/upgrader/%s/%d", dr.name[:3], dr.rb))
		}
	}
	meta.Evaluations = n
	meta.Distinct = len(shapes)
	out.Close()
	meta.Files = map[string][]string{"records": out.Files}
	meta.Write(c.dir)
}

// debugDial dials through wsutil.DebugDialer against a scripted server whose
// response head has a pad header of padLen bytes and is followed by trailing
// frames, either in the same segment (whole) or in small reads.
// pairTimeout: how long a pair of peers may take before it counts as hanging.
var pairTimeout = 5 * time.Second

// debugDialEOL: the line end of the scripted response ("\r\n", "\n" or "mixed").
var debugDialEOL = "\r\n"

func debugDial(key string, padLen int, trailing []byte, rb int, whole bool) map[string]interface{} {
	mk := func() (*peerConn, *[]byte) {
		pc := &peerConn{trailing: trailing}
		if !whole {
			pc.chunk = []int{9}
		}
		head := new([]byte)
		pc.build = func(k string) []byte {
			lines := []string{"HTTP/1.1 101 Switching Protocols", "Upgrade: websocket", "Connection: Upgrade", "X-Pad: " + strings.Repeat("p", padLen),
				"Sec-WebSocket-Accept: " + acceptFor(k), ""}
			var b []byte
			for i, l := range lines {
				eol := debugDialEOL
				if eol == "mixed" {
					eol = []string{"\r\n", "\n"}[(i+padLen)%2]
				}
				b = append(append(b, l...), eol...)
			}
			*head = b
			return *head
		}
		return pc, head
	}
	readAll := func(conn net.Conn, br *bufio.Reader) []byte {
		// the returned buffer wraps the connection: when it is non-nil everything is read
		// through it (buffered bytes first, then what the connection still delivers)
		if br != nil {
			got, _ := io.ReadAll(br)
			return got
		}
		rest, _ := io.ReadAll(conn)
		return rest
	}
	pc, head := mk()
	var gotReq, gotResp []byte
	calls := 0
	// every second case: the application wraps the connection itself (Dialer.WrapConn); the debug
	// wrapper must hand back that wrapper and all traffic must keep going through it
	wrap := padLen%2 == 1
	var w1, w2 *countConn
	dd := wsutil.DebugDialer{Dialer: ws.Dialer{ReadBufferSize: rb, NetDial: func(ctx context.Context, n, a string) (net.Conn, error) { return &memConnRW{pc}, nil }},
		OnRequest: func(b []byte) { gotReq = append([]byte(nil), b...); calls++ }, OnResponse: func(b []byte) { gotResp = append([]byte(nil), b...) }}
	if wrap {
		dd.Dialer.WrapConn = func(c net.Conn) net.Conn { w1 = &countConn{Conn: c}; return w1 }
	}
	conn, br, _, err := dd.Dial(context.Background(), "ws://debug.test/p")
	var got []byte
	if err == nil {
		got = readAll(conn, br)
	}
	pc2, _ := mk()
	pd := ws.Dialer{ReadBufferSize: rb, NetDial: func(ctx context.Context, n, a string) (net.Conn, error) { return &memConnRW{pc2}, nil }}
	if wrap {
		pd.WrapConn = func(c net.Conn) net.Conn { w2 = &countConn{Conn: c}; return w2 }
	}
	conn2, br2, _, err2 := pd.Dial(context.Background(), "ws://debug.test/p")
	var got2 []byte
	if err2 == nil {
		got2 = readAll(conn2, br2)
	}
	wrapOK := !wrap || (err == nil && err2 == nil && w1 != nil && w2 != nil && conn == net.Conn(w1) && conn2 == net.Conn(w2) &&
		w1.read == w2.read && w1.written == w2.written && w1.read >= len(*head)+len(trailing))
	return map[string]interface{}{"k": "debug", "key": key, "wrapOK": wrapOK, "reqEq": bytes.Equal(gotReq, pc.req.Bytes()), "respEq": bytes.Equal(gotResp, *head),
		"sameOutcome": (err == nil) == (err2 == nil), "trailingOK": bytes.Equal(got, trailing) && bytes.Equal(got2, trailing), "calls": calls,
		"got": len(got), "want": len(trailing), "plainGot": len(got2)}
}
