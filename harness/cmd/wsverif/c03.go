package main

import (
	"fmt"

	"github.com/gobwas/ws"
	"wsverif/vh"
)

func init() { drivers["c03"] = c03 }

func ruleName(err error) string {
	switch err {
	case nil:
		return "nil"
	case ws.ErrProtocolOpCodeReserved:
		return "reserved"
	case ws.ErrProtocolControlPayloadOverflow:
		return "ctl_overflow"
	case ws.ErrProtocolControlNotFinal:
		return "ctl_notfinal"
	case ws.ErrProtocolNonZeroRsv:
		return "rsv"
	case ws.ErrProtocolMaskRequired:
		return "mask_required"
	case ws.ErrProtocolMaskUnexpected:
		return "mask_unexpected"
	case ws.ErrProtocolContinuationExpected:
		return "cont_expected"
	case ws.ErrProtocolContinuationUnexpected:
		return "cont_unexpected"
	}
	if pe, ok := err.(ws.ProtocolError); ok {
		return "protocol:" + string(pe)
	}
	return "other:" + err.Error()
}

func c03(c *ctx) {
	out := vh.NewOut(c.dir, "c03", 40000)
	defer out.Close()
	shapes := vh.Shapes{}
	meta := &vh.Meta{Property: "C03", Tier: c.tier, Seed: c.seed,
		Rule: "complete grid fin x rsv x op x masked x len{0,125,126,65536} x state 0..15 through CheckHeader (32768 cases); all 65536 close codes with an empty reason and boundary codes x 9 reason shapes through CheckCloseFrameData; NewCloseFrameBody/ParseCloseFrameData(+Unsafe) for codes x reason lengths 0..130; distinct = (kind, op, state, len class | code class, reason shape | reason length) shapes"}
	rng := vh.Rand(c.seed, "c03")
	n := 0
	emit := func(rec map[string]interface{}) {
		out.Emit(rec, true)
		n++
		if len(meta.Samples) < 3 && n%7919 == 3 {
			meta.Samples = append(meta.Samples, rec)
		}
	}
	for fin := 0; fin < 2; fin++ {
		for rsv := 0; rsv < 8; rsv++ {
			for op := 0; op < 16; op++ {
				for masked := 0; masked < 2; masked++ {
					for _, ln := range []int64{0, 125, 126, 65536} {
						for st := 0; st < 16; st++ {
							key := fmt.Sprintf("hdr/%d/%d/%d/%d/%d/%d", fin, rsv, op, masked, ln, st)
							if !vh.Only(key) {
								continue
							}
							h := ws.Header{Fin: fin == 1, Rsv: byte(rsv), OpCode: ws.OpCode(op), Masked: masked == 1, Length: ln}
							err := ws.CheckHeader(h, ws.State(st))
							emit(map[string]interface{}{"k": "hdr", "key": key,
								"h":     map[string]interface{}{"fin": h.Fin, "rsv": rsv, "op": op, "masked": h.Masked, "len": ln},
								"state": st, "err": ruleName(err),
								"isControl": h.OpCode.IsControl(), "isData": h.OpCode.IsData(), "isReserved": h.OpCode.IsReserved()})
							shapes.Add("hdr/%d/%d/%d", op, st, ln)
						}
					}
				}
			}
		}
	}
	reasons := map[string][]byte{
		"empty":     {},
		"ascii":     []byte("going away"),
		"utf8":      []byte("закрыто €𝄞"),
		"len123":    vh.PBytes(0, 0, 0),
		"bad_cont":  {0x80},
		"bad_trunc": {'o', 'k', 0xe2, 0x82},
		"bad_surr":  {0xed, 0xa0, 0x80},
		"bad_long":  {0xc0, 0xaf},
		"bad_big":   {0xf4, 0x90, 0x80, 0x80},
	}
	l123 := make([]byte, 123)
	for i := range l123 {
		l123[i] = 'a' + byte(i%26)
	}
	reasons["len123"] = l123
	rnames := []string{"empty", "ascii", "utf8", "len123", "bad_cont", "bad_trunc", "bad_surr", "bad_long", "bad_big"}
	// every UTF-8 sample string (valid: boundaries, noncharacters, U+FFFD, BOM, NUL; invalid: overlongs,
	// surrogates, truncated, ...) as a reason of codes of each class
	for _, smp := range utf8Samples {
		for _, code := range []int{1000, 1002, 1011, 3000, 4999, 1005, 999} {
			key := fmt.Sprintf("code/%d/sample/%s", code, smp.name)
			if vh.Only(key) && len(smp.b) <= 123 {
				err := ws.CheckCloseFrameData(ws.StatusCode(code), string(smp.b))
				emit(map[string]interface{}{"k": "code", "key": key, "code": code, "reason": vh.Ints(smp.b), "err": ruleName(err)})
				shapes.Add("code/%d/sample/%s", code, smp.name)
			}
		}
	}
	for code := 0; code < 65536; code++ {
		key := fmt.Sprintf("code/%d/empty", code)
		if vh.Only(key) {
			err := ws.CheckCloseFrameData(ws.StatusCode(code), "")
			emit(map[string]interface{}{"k": "code", "key": key, "code": code, "reason": []int{}, "err": ruleName(err)})
		}
		boundary := code < 3 || (code >= 995 && code <= 1020) || (code >= 2995 && code <= 3005) || (code >= 3995 && code <= 4005) ||
			(code >= 4995 && code <= 5005) || code > 65530 || (c.thorough && code%97 == 0)
		if boundary {
			for _, rn := range rnames[1:] {
				key := fmt.Sprintf("code/%d/%s", code, rn)
				if vh.Only(key) {
					err := ws.CheckCloseFrameData(ws.StatusCode(code), string(reasons[rn]))
					emit(map[string]interface{}{"k": "code", "key": key, "code": code, "reason": vh.Ints(reasons[rn]), "err": ruleName(err)})
					shapes.Add("code/%d/%s", code, rn)
				}
			}
		}
	}
	shapes.Add("code/all65536/empty")
	// close bodies
	codes := []int{0, 1, 999, 1000, 1005, 1011, 2999, 3000, 4999, 5000, 65535}
	for _, code := range codes {
		for ln := 0; ln <= 130; ln++ {
			for variant := 0; variant < 6; variant++ {
				key := fmt.Sprintf("body/%d/%d/%d", code, ln, variant)
				if !vh.Only(key) || (variant >= 2 && ln < 110) {
					continue
				}
				reason := make([]byte, 0, ln)
				if variant == 0 {
					for i := 0; i < ln; i++ {
						reason = append(reason, 'a'+byte(i%26))
					}
				} else { // multi-byte characters so that a crop can split one: after 1, 2 or 3 of its bytes
					ch := []string{"", "€", "é", "😀", "€", "😀"}[variant]
					if variant >= 4 {
						reason = append(reason, "ab"[:variant-3]...)
					}
					for len(reason) < ln {
						reason = append(reason, []byte(ch)...)
					}
					reason = reason[:ln]
				}
				// (an earlier body for the same arguments, modified in place by its owner - e.g. masked -
				// must not show through in the next one)
				earlier := ws.NewCloseFrameBody(ws.StatusCode(code), string(reason))
				for i := range earlier {
					earlier[i] ^= 0x5a
				}
				body := ws.NewCloseFrameBody(ws.StatusCode(code), string(reason))
				pc, pr := ws.ParseCloseFrameData(body)
				uc, ur := ws.ParseCloseFrameDataUnsafe(body)
				// PutCloseFrameBody encodes into the caller's buffer without cropping (reasons that fit only)
				put := append([]byte(nil), body...)
				if ln <= 123 {
					put = make([]byte, 2+ln)
					ws.PutCloseFrameBody(put, ws.StatusCode(code), string(reason))
				}
				emit(map[string]interface{}{"k": "body", "key": key, "code": code, "reason": vh.Ints(reason), "body": vh.Ints(body), "put": vh.Ints(put),
					"pcode": int(pc), "preason": vh.Ints([]byte(pr)), "ucode": int(uc), "ureason": vh.Ints([]byte(ur))})
				shapes.Add("body/%d/%d", ln, variant)
			}
		}
	}
	for _, b := range [][]byte{{}, {0}, {3}, {0xff}} {
		key := fmt.Sprintf("short/%v", b)
		if vh.Only(key) {
			pc, pr := ws.ParseCloseFrameData(b)
			uc, ur := ws.ParseCloseFrameDataUnsafe(b)
			emit(map[string]interface{}{"k": "short", "key": key, "body": vh.Ints(b), "pcode": int(pc), "preason": vh.Ints([]byte(pr)), "ucode": int(uc), "ureason": vh.Ints([]byte(ur))})
		}
	}
	if c.thorough {
		for i := 0; i < 20000; i++ {
			code := rng.Intn(5200)
			ln := rng.Intn(60)
			r := make([]byte, ln)
			rng.Read(r)
			if i%2 == 0 {
				for j := range r {
					r[j] &= 0x7f
				}
			}
			key := fmt.Sprintf("coderand/%d", i)
			if vh.Only(key) {
				err := ws.CheckCloseFrameData(ws.StatusCode(code), string(r))
				emit(map[string]interface{}{"k": "code", "key": key, "code": code, "reason": vh.Ints(r), "err": ruleName(err)})
			}
		}
	}
	meta.Evaluations = n
	meta.Distinct = len(shapes)
	meta.Extra = map[string]interface{}{"exhaustive": true, "exhaustive_note": "the header-check grid (32768 cases) and the 65536 close codes are enumerated completely"}
	out.Close()
	meta.Files = map[string][]string{"records": out.Files}
	meta.Write(c.dir)
}
