package main

import (
	"bytes"
	"fmt"
	"github.com/gobwas/pool/pbytes"
	"io"

	"github.com/gobwas/ws"
	"github.com/gobwas/ws/wsutil"
	"wsverif/vh"
)

func init() { drivers["c08h"] = c08h }

func c08h(c *ctx) {
	out := vh.NewOut(c.dir, "c08h", 30000)
	defer out.Close()
	shapes := vh.Shapes{}
	meta := &vh.Meta{Property: "C08", Tier: c.tier, Seed: c.seed,
		Rule: "records = ping/pong/close x every payload length 0..125 x both sides x 5 entry points (ControlHandler.Handle with masked and pre-unmasked source, HandlePing/HandlePong/HandleClose called directly, ControlFrameHandler, HandleControlMessage and its Client/Server shortcuts); close frames for all 65536 status codes (quick: every 16th + all class boundaries) with a valid reason, an invalid-UTF-8 reason and no reason, plus 1-byte close payloads; distinct = (entry, side, op, payload length class, outcome)"}
	n := 0
	run := func(key, entry, side string, op int, pay []byte) {
		if !vh.Only(key) {
			return
		}
		dst := &vh.Dest{}
		st := wsState(side)
		h := ws.Header{Fin: true, OpCode: ws.OpCode(op), Length: int64(len(pay)), Masked: side == "server"}
		var err error
		func() {
			defer func() {
				if p := recover(); p != nil {
					err = fmt.Errorf("panic: %v", p)
				}
			}()
			switch entry {
			case "Handle":
				var src io.Reader = bytes.NewReader(pay)
				if side == "server" {
					h.Mask = [4]byte{0x3a, byte(len(pay)), 0xc5, byte(op)}
					mp := append([]byte(nil), pay...)
					for i := range mp {
						mp[i] ^= h.Mask[i%4]
					}
					src = &vh.ChunkReader{Data: mp, Sizes: []int{7, 1, 64}}
				}
				err = wsutil.ControlHandler{Src: src, Dst: dst, State: st}.Handle(h)
			case "Direct": // the per-opcode methods called by the application itself
				var src io.Reader = bytes.NewReader(pay)
				if side == "server" {
					if len(pay)%3 != 0 { // every third case keeps the all-zero key
						h.Mask = [4]byte{0x11, byte(op), 0x80, byte(len(pay))}
					}
					mp := append([]byte(nil), pay...)
					for i := range mp {
						mp[i] ^= h.Mask[i%4]
					}
					src = &vh.ChunkReader{Data: mp, Sizes: []int{1, 5, 64}}
				}
				ch := wsutil.ControlHandler{Src: src, Dst: dst, State: st}
				switch op {
				case 9:
					err = ch.HandlePing(h)
				case 10:
					err = ch.HandlePong(h)
				default:
					err = ch.HandleClose(h)
				}
			case "HandleNoCipher":
				err = wsutil.ControlHandler{Src: &vh.ChunkReader{Data: pay, Sizes: []int{3, 50}}, Dst: dst, State: st, DisableSrcCiphering: true}.Handle(h)
			case "ControlFrameHandler":
				err = wsutil.ControlFrameHandler(dst, st)(h, bytes.NewReader(pay))
			case "HandleControlMessage":
				msg := wsutil.Message{OpCode: ws.OpCode(op), Payload: append([]byte(nil), pay...)}
				if len(pay)%2 == 0 {
					err = wsutil.HandleControlMessage(dst, st, msg)
				} else if side == "server" {
					err = wsutil.HandleClientControlMessage(dst, msg)
				} else {
					err = wsutil.HandleServerControlMessage(dst, msg)
				}
			}
		}()
		// the caller looks at the reported reason after other traffic has gone through the pooled buffers
		if op == 8 && len(pay) > 40 {
			for _, sz := range []int{64, 128, 256} {
				for k := 0; k < 3; k++ {
					b := pbytes.GetLen(sz)
					for i := range b {
						b[i] = 0xA5
					}
					pbytes.Put(b)
				}
			}
		}
		e := newRev("handle")
		e.setErr(err)
		fs, rest := vh.ParseFrames(dst.Buf)
		wrote := []vh.F{}
		for _, f := range fs {
			f.Pay = vh.Ints(f.Raw)
			wrote = append(wrote, f)
		}
		if len(rest) > 0 {
			wrote = append(wrote, vh.F{Op: -1, Len: len(rest), Pay: []int{}})
		}
		out.Emit(map[string]interface{}{"k": "handle", "key": key, "entry": entry, "side": side, "op": op, "pay": vh.Ints(pay),
			"err": e.Err, "rule": e.Rule, "code": e.Code, "reason": e.Reason, "wrote": wrote}, true)
		n++
		cl := "0"
		switch {
		case len(pay) == 1:
			cl = "1"
		case len(pay) == 125:
			cl = "125"
		case len(pay) > 1:
			cl = "n"
		}
		shapes.Add("%s/%s/%d/%s/%s/%d", entry, side, op, cl, e.Err, len(wrote))
		if len(meta.Samples) < 3 && n%3001 == 17 {
			meta.Samples = append(meta.Samples, map[string]interface{}{"key": key, "err": e.Err, "wrote": wrote})
		}
	}
	entries := []string{"Handle", "HandleNoCipher", "ControlFrameHandler", "HandleControlMessage", "Direct"}
	// every UTF-8 sample (valid and invalid, up to the maximal 123 bytes, also cut inside a character at
	// the very end) as the reason of an otherwise acceptable close frame
	for _, smp := range utf8Samples {
		if len(smp.b) > 123 {
			continue
		}
		for _, code := range []int{1000, 3000} {
			for ei, entry := range entries {
				side := []string{"server", "client"}[(ei+len(smp.b))%2]
				pay := append([]byte{byte(code >> 8), byte(code)}, smp.b...)
				run(fmt.Sprintf("reason/%s/%d/%s/%s", smp.name, code, entry, side), entry, side, 8, pay)
			}
		}
	}
	for _, side := range []string{"server", "client"} {
		for _, entry := range entries {
			for ln := 0; ln <= 125; ln++ {
				for _, op := range []int{9, 10} {
					run(fmt.Sprintf("ctl/%s/%s/%d/%d", entry, side, op, ln), entry, side, op, asciiPay(ln, op))
				}
				// close with code 1000 and an ASCII / multi-byte reason of every length
				if ln != 1 {
					run(fmt.Sprintf("close/%s/%s/len/%d", entry, side, ln), entry, side, 8, closePay(ln))
				}
			}
			run(fmt.Sprintf("close/%s/%s/len/1", entry, side), entry, side, 8, []byte{0x03})
			run(fmt.Sprintf("close/%s/%s/len/1b", entry, side), entry, side, 8, []byte{0xe8})
		}
	}
	// all close codes
	reasons := map[string][]byte{"none": {}, "ok": []byte("bye €"), "badutf8": {'x', 0xed, 0xa0, 0x80}, "trunc": {0xe2, 0x82}}
	ei := 0
	for code := 0; code < 65536; code++ {
		boundary := code < 3 || (code >= 995 && code <= 1020) || (code >= 2995 && code <= 3005) || (code >= 3995 && code <= 4005) ||
			(code >= 4995 && code <= 5005) || code > 65530
		if !c.thorough && !boundary && code%16 != 5 {
			continue
		}
		for _, rn := range []string{"none", "ok", "badutf8", "trunc"} { // fixed order: keys must be reproducible
			r := reasons[rn]
			if !boundary && !c.thorough && rn != "ok" && code%64 != 5 {
				continue
			}
			ei++
			side := []string{"server", "client"}[ei%2]
			entry := entries[(ei/2)%len(entries)]
			pay := append([]byte{byte(code >> 8), byte(code)}, r...)
			run(fmt.Sprintf("code/%d/%s/%s/%s", code, rn, side, entry), entry, side, 8, pay)
			if boundary {
				side2 := []string{"client", "server"}[ei%2]
				run(fmt.Sprintf("code/%d/%s/%s/%s", code, rn, side2, entry), entry, side2, 8, pay)
			}
		}
	}
	meta.Evaluations = n
	meta.Distinct = len(shapes)
	out.Close()
	meta.Files = map[string][]string{"records": out.Files}
	meta.Write(c.dir)
}
