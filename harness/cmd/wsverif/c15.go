package main

import (
	"bufio"
	"bytes"
	"compress/flate"
	"context"
	"encoding/json"
	"fmt"
	"io"
	"math/rand"
	"net"
	"net/http"
	"net/url"
	"os"
	"path/filepath"
	"regexp"
	"runtime"
	"strings"
	"time"

	"github.com/gobwas/httphead"
	"github.com/gobwas/ws"
	"github.com/gobwas/ws/wsflate"
	"github.com/gobwas/ws/wsutil"
	"wsverif/vh"
)

func init() { drivers["c15"] = c15 }

const acceptPlaceholder = "@@ACCEPT@@@@@@@@@@@@@@@@@@@@@"

type mop struct {
	Op    string          `json:"op"`
	At    int             `json:"at"`
	Bit   int             `json:"bit"`
	Field int             `json:"field"`
	Val   json.RawMessage `json:"val"`
	N     int             `json:"n"`
	From  int             `json:"from"`
	Times int             `json:"times"`
}

var extremes = map[string]uint64{"2^31-1": 1<<31 - 1, "2^31": 1 << 31, "2^32": 1 << 32, "2^40": 1 << 40, "2^47": 1 << 47, "2^62": 1 << 62,
	"2^63-1": 1<<63 - 1, "0": 0, "126": 126, "65536": 65536,
	// the top bit of the 64-bit length set (not a length at all: RFC 6455 5.2)
	"2^63": 1 << 63, "2^63+16": 1<<63 + 16, "2^64-1": 1<<64 - 1}

var digitsRe = regexp.MustCompile(`[0-9]+`)

// applyMut applies one mutation to b (kind tells how length fields look).
func applyMut(kind string, b []byte, m mop) []byte {
	pos := func(at int) int {
		if len(b) == 0 {
			return 0
		}
		p := at * len(b) / 8
		if p >= len(b) {
			p = len(b) - 1
		}
		return p
	}
	switch m.Op {
	case "flip":
		if len(b) > 0 {
			b = append([]byte(nil), b...)
			b[pos(m.At)] ^= 1 << uint(m.Bit)
		}
	case "truncate":
		b = b[:pos(m.At)]
	case "dup":
		p := pos(m.At)
		e := p + m.N
		if e > len(b) {
			e = len(b)
		}
		b = append(append(append([]byte(nil), b[:e]...), b[p:e]...), b[e:]...)
	case "insert":
		var v int
		json.Unmarshal(m.Val, &v)
		p := pos(m.At)
		b = append(append(append([]byte(nil), b[:p]...), byte(v)), b[p:]...)
	case "dropcr":
		p := pos(m.At)
		if i := bytes.IndexByte(b[p:], '\r'); i >= 0 {
			b = append(append([]byte(nil), b[:p+i]...), b[p+i+1:]...)
		}
	case "splice":
		p, f := pos(m.At), pos(m.From)
		b = append(append([]byte(nil), b[:p]...), b[f:]...)
	case "repeat":
		p := pos(m.At)
		if len(b) > 0 {
			b = append(append(append([]byte(nil), b[:p]...), bytes.Repeat(b[p:p+1], m.Times)...), b[p:]...)
		}
	case "setlen":
		var name string
		json.Unmarshal(m.Val, &name)
		v := extremes[name]
		if kind == "frames" {
			// rewrite the length of the Field-th frame header (64-bit form)
			off := 0
			for i := 0; off < len(b); i++ {
				h, n, err := vh.OwnDecode(b[off:])
				if err != nil {
					break
				}
				if i == m.Field {
					h.N = v
					nb := vh.OwnEncode(h)
					if v <= 0xffff { // force the 64-bit form for small values too, sometimes
						nb = append([]byte{nb[0], (nb[1] & 0x80) | 127, 0, 0, 0, 0, 0, 0, byte(v >> 8), byte(v)}, nb[len(nb)-4*btoi(h.Masked):]...)
					}
					return append(append(append([]byte(nil), b[:off]...), nb...), b[off+n:]...)
				}
				if h.N > uint64(len(b)) {
					break
				}
				off += n + int(h.N)
			}
		} else {
			locs := digitsRe.FindAllIndex(b, -1)
			if len(locs) > 0 {
				l := locs[m.Field%len(locs)]
				return append(append(append([]byte(nil), b[:l[0]]...), []byte(fmt.Sprint(v))...), b[l[1]:]...)
			}
		}
	}
	return b
}

func btoi(x bool) int {
	if x {
		return 1
	}
	return 0
}

// budgetReader panics with errHang when it is polled too often: a decoder that
// keeps asking without consuming input is looping.
type budgetReader struct {
	r       io.Reader
	calls   int
	Pos     int
	empties int
}

type hangSignal struct{}

func (b *budgetReader) Read(p []byte) (int, error) {
	b.calls++
	if b.calls > 200000 {
		panic(hangSignal{})
	}
	n, err := b.r.Read(p)
	b.Pos += n
	return n, err
}

type discardRW struct {
	io.Reader
	n int
}

func (d *discardRW) Write(p []byte) (int, error) { d.n += len(p); return len(p), nil }

// entry points per input kind; each returns an error or nil
var entries = map[string][]struct {
	name string
	f    func(in []byte, src *budgetReader) error
}{
	"frames": {
		{"ReadHeader", func(in []byte, s *budgetReader) error { _, err := ws.ReadHeader(s); return err }},
		{"ReadFrame", func(in []byte, s *budgetReader) error {
			for {
				if _, err := ws.ReadFrame(s); err != nil {
					return err
				}
			}
		}},
		{"Reader", func(in []byte, s *budgetReader) error {
			rd := &wsutil.Reader{Source: s, State: ws.StateServerSide, CheckUTF8: true,
				OnIntermediate: func(h ws.Header, r io.Reader) error { _, err := io.Copy(io.Discard, r); return err }}
			for {
				if _, err := rd.NextFrame(); err != nil {
					return err
				}
				if _, err := io.Copy(io.Discard, rd); err != nil {
					return err
				}
			}
		}},
		{"ReaderDiscardClientExt", func(in []byte, s *budgetReader) error {
			var ms wsflate.MessageState
			rd := &wsutil.Reader{Source: s, State: ws.StateClientSide | ws.StateExtended, Extensions: []wsutil.RecvExtension{&ms}, MaxFrameSize: 1 << 20}
			for {
				if _, err := rd.NextFrame(); err != nil {
					return err
				}
				if err := rd.Discard(); err != nil {
					return err
				}
			}
		}},
		{"ReadMessage", func(in []byte, s *budgetReader) error {
			for {
				if _, err := wsutil.ReadMessage(s, ws.StateServerSide, nil); err != nil {
					return err
				}
			}
		}},
		{"ReadData", func(in []byte, s *budgetReader) error {
			rw := &discardRW{Reader: s}
			for {
				if _, _, err := wsutil.ReadData(rw, ws.StateServerSide); err != nil {
					return err
				}
			}
		}},
		{"ReadServerText", func(in []byte, s *budgetReader) error {
			rw := &discardRW{Reader: s}
			for {
				if _, err := wsutil.ReadServerText(rw); err != nil {
					return err
				}
			}
		}},
		{"NextReader", func(in []byte, s *budgetReader) error {
			for {
				_, r, err := wsutil.NextReader(s, ws.StateClientSide)
				if err != nil {
					return err
				}
				if _, err := io.Copy(io.Discard, r); err != nil {
					return err
				}
			}
		}},
		{"DecompressFrame", func(in []byte, s *budgetReader) error {
			f, err := ws.ReadFrame(s)
			if err != nil {
				return err
			}
			_, err = wsflate.DecompressFrame(ws.UnmaskFrameInPlace(f))
			return err
		}},
	},
	"request": {
		{"Upgrader", func(in []byte, s *budgetReader) error {
			ext := wsflate.Extension{Parameters: wsflate.DefaultParameters}
			u := ws.Upgrader{Protocol: func(p []byte) bool { return len(p) > 3 }, Negotiate: ext.Negotiate, OnHeader: func(k, v []byte) error { return nil }}
			_, err := u.Upgrade(&discardRW{Reader: s})
			return err
		}},
		{"UpgraderSelect", func(in []byte, s *budgetReader) error {
			u := ws.Upgrader{ReadBufferSize: 16, Protocol: func(p []byte) bool { return false }, Extension: func(o httphead.Option) bool { return true }}
			_, err := u.Upgrade(&discardRW{Reader: s})
			return err
		}},
		{"HTTPUpgrader", func(in []byte, s *budgetReader) error {
			req, err := http.ReadRequest(bufio.NewReader(s))
			if err != nil {
				return err
			}
			ext := wsflate.Extension{Parameters: wsflate.DefaultParameters}
			u := ws.HTTPUpgrader{Protocol: func(p string) bool { return len(p) > 3 }, Negotiate: ext.Negotiate}
			_, _, _, err = u.Upgrade(req, &hijackRW{conn: &memConn{r: bytes.NewReader(nil)}, hdr: http.Header{}})
			return err
		}},
		{"DebugUpgrader", func(in []byte, s *budgetReader) error {
			du := wsutil.DebugUpgrader{OnRequest: func([]byte) {}, OnResponse: func([]byte) {}}
			_, err := du.Upgrade(&discardRW{Reader: s})
			return err
		}},
	},
	"response": {
		{"Dialer", func(in []byte, s *budgetReader) error {
			o := httphead.Option{Name: []byte("permessage-deflate")}
			d := ws.Dialer{Protocols: []string{"chat"}, Extensions: []httphead.Option{o}, OnHeader: func(k, v []byte) error { return nil },
				OnStatusError: func(status int, reason []byte, r io.Reader) { io.Copy(io.Discard, r) }}
			uu, _ := url.Parse("ws://h/p")
			// the response is served once the request (and so the key) is known: the
			// placeholder is replaced by the right Sec-WebSocket-Accept value
			pc := &peerConn{}
			pc.build = func(k string) []byte { return bytes.Replace(in, []byte(acceptPlaceholder), []byte(acceptFor(k)), 1) }
			br, _, err := d.Upgrade(pc, uu)
			if br != nil {
				ws.PutReader(br)
			}
			return err
		}},
		{"DebugDialer", func(in []byte, s *budgetReader) error {
			pc := &peerConn{}
			pc.build = func(k string) []byte { return bytes.Replace(in, []byte(acceptPlaceholder), []byte(acceptFor(k)), 1) }
			dd := wsutil.DebugDialer{Dialer: ws.Dialer{NetDial: func(ctx context.Context, n, a string) (net.Conn, error) { return &memConnRW{pc}, nil }},
				OnRequest: func([]byte) {}, OnResponse: func([]byte) {}}
			_, _, _, err := dd.Dial(context.Background(), "ws://h/p")
			return err
		}},
		{"DialerSmallBuf", func(in []byte, s *budgetReader) error {
			d := ws.Dialer{ReadBufferSize: 16}
			uu, _ := url.Parse("ws://h/p")
			_, _, err := d.Upgrade(&discardRW{Reader: s}, uu)
			return err
		}},
	},
	"options": {
		{"ParametersParse", func(in []byte, s *budgetReader) error {
			opts, ok := httphead.ParseOptions(in, nil)
			if !ok {
				return fmt.Errorf("unparsable")
			}
			for _, o := range opts {
				var p wsflate.Parameters
				if err := p.Parse(o); err != nil {
					return err
				}
				_ = p.Option()
				e := wsflate.Extension{Parameters: p}
				if _, err := e.Negotiate(o); err != nil {
					return err
				}
			}
			return nil
		}},
		{"UpgraderHeaders", func(in []byte, s *budgetReader) error {
			line := strings.NewReplacer("\r", " ", "\n", " ").Replace(string(in))
			req := "GET / HTTP/1.1\r\nHost: h\r\nUpgrade: websocket\r\nConnection: Upgrade\r\nSec-WebSocket-Version: 13\r\nSec-WebSocket-Key: dGhlIHNhbXBsZSBub25jZQ==\r\n" +
				"Sec-WebSocket-Extensions: " + line + "\r\nSec-WebSocket-Protocol: " + line + "\r\n\r\n"
			ext := wsflate.Extension{Parameters: wsflate.DefaultParameters}
			u := ws.Upgrader{Protocol: func(p []byte) bool { return bytes.HasPrefix(p, []byte("c")) }, Negotiate: ext.Negotiate}
			_, err := u.Upgrade(&discardRW{Reader: strings.NewReader(req)})
			return err
		}},
		{"DialerHeaders", func(in []byte, s *budgetReader) error {
			line := strings.NewReplacer("\r", " ", "\n", " ").Replace(string(in))
			pc := &peerConn{}
			pc.build = func(k string) []byte {
				return []byte("HTTP/1.1 101 Switching Protocols\r\nUpgrade: websocket\r\nConnection: Upgrade\r\nSec-WebSocket-Accept: " + acceptFor(k) +
					"\r\nSec-WebSocket-Extensions: " + line + "\r\nSec-WebSocket-Protocol: " + line + "\r\n\r\n")
			}
			o := httphead.Option{Name: []byte("permessage-deflate")}
			d := ws.Dialer{Protocols: []string{"chat"}, Extensions: []httphead.Option{o}}
			uu, _ := url.Parse("ws://h/p")
			_, _, err := d.Upgrade(pc, uu)
			return err
		}},
	},
	"deflate": {
		{"FlateReader", func(in []byte, s *budgetReader) error {
			r := wsflate.NewReader(s, func(x io.Reader) wsflate.Decompressor { return flate.NewReader(x) })
			_, err := io.Copy(io.Discard, io.LimitReader(r, 64<<20))
			if err == nil {
				err = r.Close()
			}
			return err
		}},
		{"Decompress", func(in []byte, s *budgetReader) error {
			_, err := wsflate.DefaultHelper.Decompress(in)
			return err
		}},
		// one reader taken through sources of different kinds (with and without ReadByte), as a
		// connection's reader is when it is reset for every message
		{"FlateReaderReset", func(in []byte, s *budgetReader) error {
			r := wsflate.NewReader(bytes.NewReader(in), func(x io.Reader) wsflate.Decompressor { return flate.NewReader(x) })
			io.Copy(io.Discard, io.LimitReader(r, 64<<20))
			r.Reset(s)
			_, err := io.Copy(io.Discard, io.LimitReader(r, 64<<20))
			r.Reset(bytes.NewBuffer(in))
			io.Copy(io.Discard, io.LimitReader(r, 64<<20))
			r.Reset(plainReader{bytes.NewReader(in)})
			io.Copy(io.Discard, io.LimitReader(r, 64<<20))
			return err
		}},
		{"FlateReaderReset2", func(in []byte, s *budgetReader) error {
			r := wsflate.NewReader(s, func(x io.Reader) wsflate.Decompressor { return flate.NewReader(x) })
			_, err := io.Copy(io.Discard, io.LimitReader(r, 64<<20))
			r.Reset(bytes.NewReader(in))
			io.Copy(io.Discard, io.LimitReader(r, 64<<20))
			r.Reset(plainReader{bytes.NewReader(in)})
			io.Copy(io.Discard, io.LimitReader(r, 64<<20))
			return err
		}},
	},
}

func c15seeds(rng *rand.Rand) map[string][][]byte {
	seeds := map[string][][]byte{}
	for _, side := range []string{"server", "client"} {
		for _, fs := range cutShapes() {
			sc := mkScenario("seed", side, rvariant{"reader", nil, -1, false}, fs, nil, 64)
			seeds["frames"] = append(seeds["frames"], sc.stream)
		}
	}
	var cbuf bytes.Buffer
	fw := wsflate.NewWriter(&cbuf, func(x io.Writer) wsflate.Compressor { f, _ := flate.NewWriter(x, 6); return f })
	fw.Write(bytes.Repeat([]byte("compressed payload "), 20))
	fw.Flush()
	seeds["frames"] = append(seeds["frames"], vh.BuildFrame(1, true, 4, true, [4]byte{1, 2, 3, 4}, cbuf.Bytes()))
	seeds["deflate"] = [][]byte{cbuf.Bytes(), {0x00}, {0xf2, 0x48, 0xcd, 0xc9, 0xc9, 0x07, 0x00}}
	big := &bytes.Buffer{}
	fw2 := wsflate.NewWriter(big, func(x io.Writer) wsflate.Compressor { f, _ := flate.NewWriter(x, 9); return f })
	fw2.Write(make([]byte, 1<<20))
	fw2.Flush()
	seeds["deflate"] = append(seeds["deflate"], big.Bytes())
	q := sreq{Method: "GET", Version: "1.1", Host: "ok", Upgrade: "ok", Connection: "varied", WsVersion: "ok", Key: "ok", Extra: true,
		Protos: []string{"chat", "superchat"}, Exts: []string{"permessage-deflate", "x-foo"}}
	for i := 0; i < 3; i++ {
		seeds["request"] = append(seeds["request"], q.render(rng))
	}
	seeds["response"] = [][]byte{
		[]byte("HTTP/1.1 101 Switching Protocols\r\nUpgrade: websocket\r\nConnection: Upgrade\r\nSec-WebSocket-Accept: " + acceptPlaceholder + "\r\nSec-WebSocket-Protocol: chat\r\nSec-WebSocket-Extensions: permessage-deflate; server_max_window_bits=10\r\nContent-Length: 0\r\n\r\n"),
		[]byte("HTTP/1.1 400 Bad Request\r\nContent-Type: text/plain\r\nContent-Length: 11\r\n\r\nbad request"),
	}
	seeds["options"] = [][]byte{
		[]byte("permessage-deflate; client_max_window_bits=10; server_no_context_takeover, x-foo; a=\"b c\"; d"),
		[]byte("chat, superchat,v2.x"), []byte("permessage-deflate; server_max_window_bits=15; client_max_window_bits"),
	}
	return seeds
}

func c15(c *ctx) {
	out := vh.NewOut(c.dir, "c15", 40000)
	defer out.Close()
	shapes := vh.Shapes{}
	meta := &vh.Meta{Property: "C15", Tier: c.tier, Seed: c.seed,
		Rule: "records = valid seeds of each kind (frame streams incl. a compressed frame, requests, responses, option lists, deflate streams) mutated by scripts that TLC -simulate draws from Mutate.tla (flip, truncate, set a length field to an extreme, duplicate, insert separator bytes, drop CR, splice, blow up) and by seeded random scripts, fed to every decoding entry point of that kind (9 frame, 4 request, 3 response, 3 option, 2 deflate entry points); plus the extreme announced lengths 2^31-1..2^63-1 at every frame entry point with the allocation during header decoding measured, and MaxFrameSize refusals with the payload bytes pulled counted; distinct = (kind, entry point, outcome, mutation operator sequence)"}
	rng := vh.Rand(c.seed, "c15")
	seeds := c15seeds(rng)
	marker, _ := os.OpenFile(c.dir+"/current_input", os.O_CREATE|os.O_RDWR, 0o644)
	n := 0
	current := make(chan string, 1)
	// watchdog: a single call that takes longer than 20 s is a hang
	go func() {
		var last string
		var since time.Time
		for {
			time.Sleep(500 * time.Millisecond)
			select {
			case k := <-current:
				last, since = k, time.Now()
			default:
				if last != "" && time.Since(since) > 20*time.Second {
					fmt.Fprintf(os.Stderr, "C15-HANG %s\n", last)
					os.Exit(3)
				}
			}
		}
	}()
	limitPrefix := 0 // limit checks: bytes in front of the frame that must be refused
	call := func(key, kind, ename string, f func([]byte, *budgetReader) error, in []byte, opsDesc string, allocCheck bool, limitCheck bool, limit int64) {
		if !vh.Only(key) {
			return
		}
		pad := make([]byte, 200)
		copy(pad, key)
		marker.WriteAt(pad, 0)
		select {
		case <-current:
		default:
		}
		current <- key
		src := &budgetReader{r: bytes.NewReader(in)}
		outcome := "value"
		var m1, m2 runtime.MemStats
		if allocCheck {
			runtime.ReadMemStats(&m1)
		}
		func() {
			defer func() {
				if p := recover(); p != nil {
					if _, ok := p.(hangSignal); ok {
						outcome = "hang"
					} else {
						outcome = "panic"
						opsDesc += fmt.Sprint(" :: ", p)
					}
				}
			}()
			if err := f(in, src); err != nil {
				outcome = "error"
			}
		}()
		alloc := 0
		if allocCheck {
			runtime.ReadMemStats(&m2)
			alloc = int(m2.TotalAlloc - m1.TotalAlloc)
		}
		pulled := 0
		if limitCheck {
			_, hn, _ := vh.OwnDecode(in[limitPrefix:])
			pulled = src.Pos - hn - limitPrefix
			if pulled < 0 {
				pulled = 0
			}
		}
		marker.WriteAt(make([]byte, 200), 0) // the call is over: a later crash is not this input's
		rec := map[string]interface{}{"k": "hostile", "key": key, "kind": kind, "entry": ename, "outcome": outcome, "ops": opsDesc, "len": len(in),
			"allocChecked": allocCheck, "alloc": alloc, "supplied": len(in), "limitChecked": limitCheck, "payloadPulled": pulled}
		out.Emit(rec, true)
		n++
		shapes.Add("%s/%s/%s/%s", kind, ename, outcome, strings.SplitN(opsDesc, " ::", 2)[0])
		if len(meta.Samples) < 4 && n%5003 == 11 {
			meta.Samples = append(meta.Samples, rec)
		}
	}
	// a single input handed over by the native fuzzer (thorough tier): every entry point of its kind
	if f := os.Getenv("C15_INPUT"); f != "" {
		in, _ := os.ReadFile(f)
		kind := os.Getenv("C15_KIND")
		for _, e := range entries[kind] {
			call(fmt.Sprintf("fuzz/%s/%s/%s", kind, e.name, filepath.Base(f)), kind, e.name, e.f, in, "native-fuzz", false, false, 0)
		}
		meta.Evaluations = n
		meta.Distinct = len(shapes)
		out.Close()
		meta.Files = map[string][]string{"records": out.Files}
		meta.Write(c.dir)
		return
	}
	// scripts from the specification
	var scripts [][]mop
	if f := os.Getenv("C15_MUT"); f != "" {
		data, _ := os.ReadFile(f)
		for _, line := range bytes.Split(data, []byte("\n")) {
			var ops []mop
			if json.Unmarshal(line, &ops) == nil && len(ops) > 0 {
				scripts = append(scripts, ops)
			}
		}
	}
	meta.Extra = map[string]interface{}{"tlc_scripts": len(scripts)}
	opsName := func(ops []mop) string {
		s := ""
		for _, o := range ops {
			s += o.Op + ","
		}
		return s
	}
	kinds := []string{"frames", "request", "response", "options", "deflate"}
	for si, ops := range scripts {
		for _, kind := range kinds {
			seedList := seeds[kind]
			seed := seedList[(si+len(kind))%len(seedList)]
			in := seed
			for _, o := range ops {
				in = applyMut(kind, in, o)
			}
			for _, e := range entries[kind] {
				call(fmt.Sprintf("tlc/%d/%s/%s", si, kind, e.name), kind, e.name, e.f, in, opsName(ops), false, false, 0)
			}
		}
	}
	// seeded random scripts (bulk)
	nr := 1500
	if c.thorough {
		nr = 60000
	}
	opNames := []string{"flip", "flip", "flip", "truncate", "dup", "insert", "dropcr", "splice", "repeat", "setlen", "setlen"}
	exNames := []string{"2^31-1", "2^31", "2^32", "2^40", "2^47", "2^62", "2^63-1", "0", "126", "65536"}
	for i := 0; i < nr; i++ {
		kind := kinds[i%len(kinds)]
		seedList := seeds[kind]
		in := seedList[rng.Intn(len(seedList))]
		var ops []mop
		for k := 0; k < 1+rng.Intn(4); k++ {
			o := mop{Op: opNames[rng.Intn(len(opNames))], At: rng.Intn(9), Bit: rng.Intn(8), Field: rng.Intn(4), N: []int{1, 2, 14, 200}[rng.Intn(4)], From: rng.Intn(9), Times: []int{100, 5000}[rng.Intn(2)]}
			if o.Op == "setlen" {
				o.Val, _ = json.Marshal(exNames[rng.Intn(len(exNames))])
			} else {
				o.Val, _ = json.Marshal([]int{0, 10, 13, 34, 44, 58, 59, 127, 128, 255}[rng.Intn(10)])
			}
			ops = append(ops, o)
			in = applyMut(kind, in, o)
		}
		e := entries[kind][rng.Intn(len(entries[kind]))]
		call(fmt.Sprintf("rnd/%d/%s/%s", i, kind, e.name), kind, e.name, e.f, in, opsName(ops), false, false, 0)
	}
	// structured boundary inputs: every control/data opcode with tiny payloads (a close frame with a
	// 1-byte payload has no status code), and malformed heads / option lists
	for _, op := range []int{8, 9, 10, 1, 2, 0, 3, 11} {
		for _, pl := range [][]byte{{}, {0x03}, {0xff}, {0x03, 0xe8}, {0x03, 0xe8, 0xff}, {0x00, 0x00}, bytes.Repeat([]byte{0x80}, 125), bytes.Repeat([]byte{'a'}, 126)} {
			for _, masked := range []bool{true, false} {
				for _, fin := range []bool{true, false} {
					in := vh.BuildFrame(op, fin, 0, masked, [4]byte{0, 0, 0, 0}, pl)
					in2 := append(vh.BuildFrame(1, false, 0, masked, [4]byte{9, 8, 7, 6}, []byte("x")), in...) // the same frame as an intermediate one
					for _, e := range entries["frames"] {
						call(fmt.Sprintf("tiny/%d/%d/%v/%v/%s", op, len(pl), masked, fin, e.name), "frames", e.name, e.f, in, "tiny", false, false, 0)
						call(fmt.Sprintf("tinyfrag/%d/%d/%v/%v/%s", op, len(pl), masked, fin, e.name), "frames", e.name, e.f, in2, "tinyfrag", false, false, 0)
					}
				}
			}
		}
	}
	// handshake requests whose key is 24 characters of the base64 alphabet that are NOT the encoding of 16
	// bytes (no padding: 18 bytes; one '=': 17 bytes), padding in odd places, and neighbours in length
	for ki, kv := range []string{"dGhlIHNhbXBsZSBub25jZQA=", "dGhlIHNhbXBsZSBub25jZQAA", "0123456789abcdef01234567", "////////////////////////", "++++++++++++++++++++++==",
		"========================", "dGhlIHNhbXBsZSBub25jZQ=A", "dGhl=HNhbXBsZSBub25jZQ==", "dGhlIHNhbXBsZSBub25jZ===", "dGhlIHNhbXBsZSBub25jZQ==", "AAAAAAAAAAAAAAAAAAAAAAAA",
		"dGhlIHNhbXBsZSBub25jZQAAA", "dGhlIHNhbXBsZSBub25jZQA", "dGhlIHNhbXBsZSBub25jZQ\x00=", "dGhlIHNhbXBsZSBub25j\r\n==", "-_-_-_-_-_-_-_-_-_-_-_=="} {
		for hi, head := range []string{"GET /x HTTP/1.1\r\nHost: h\r\nUpgrade: websocket\r\nConnection: Upgrade\r\nSec-WebSocket-Version: 13\r\nSec-WebSocket-Key: %s\r\n\r\n",
			"GET /x HTTP/1.1\r\nSec-WebSocket-Key: %s\r\nHost: h\r\nUpgrade: websocket\r\nConnection: Upgrade\r\nSec-WebSocket-Version: 13\r\nSec-WebSocket-Protocol: chat\r\n\r\n",
			"GET /x HTTP/1.1\r\nHost: h\r\nSec-WebSocket-Key: %s\r\n\r\n"} {
			in := []byte(fmt.Sprintf(head, kv))
			for _, e := range entries["request"] {
				call(fmt.Sprintf("keyform/%d/%d/%s", ki, hi, e.name), "request", e.name, e.f, in, "keyform", false, false, 0)
			}
		}
	}
	// fragmented text whose fragments end inside a multi-byte sequence, closed by an empty (or tiny)
	// final continuation: the helpers read these through growing buffers
	for _, first := range []int{0, 1, 200, 300, 511, 512, 600, 5000} {
		for _, lead := range [][]byte{{0xe2}, {0xe2, 0x82}, {0xf0, 0x9f, 0x98}, {0xc3}} {
			for _, last := range [][]byte{{}, {0xac}, {'x'}} {
				for _, masked := range []bool{true, false} {
					body := append(bytes.Repeat([]byte{'a'}, first), lead...)
					in := append(vh.BuildFrame(1, false, 0, masked, [4]byte{1, 2, 3, 4}, body), vh.BuildFrame(0, true, 0, masked, [4]byte{5, 6, 7, 8}, last)...)
					in3 := append(append(vh.BuildFrame(1, false, 0, masked, [4]byte{1, 2, 3, 4}, body), vh.BuildFrame(0, false, 0, masked, [4]byte{0, 0, 0, 0}, nil)...), vh.BuildFrame(0, true, 0, masked, [4]byte{5, 6, 7, 8}, last)...)
					for _, e := range entries["frames"] {
						call(fmt.Sprintf("midrune/%d/%x/%x/%v/%s", first, lead, last, masked, e.name), "frames", e.name, e.f, in, "midrune", false, false, 0)
						call(fmt.Sprintf("midrune3/%d/%x/%x/%v/%s", first, lead, last, masked, e.name), "frames", e.name, e.f, in3, "midrune", false, false, 0)
					}
				}
			}
		}
	}
	// compressed payloads that stop inside a block: stored blocks announcing more than follows, a header
	// cut in the middle, a dynamic block without its tables, empty input
	for di, d := range [][]byte{{}, {0x00}, {0x00, 0x10}, {0x00, 0x10, 0x00}, {0x00, 0x10, 0x00, 0xef, 0xff}, {0x00, 0x10, 0x00, 0xef, 0xff, 0x61, 0x62}, {0x00, 0x05, 0x00, 0xfa, 0xff},
		{0x00, 0xff, 0xff, 0x00, 0x00, 1, 2, 3}, {0x01, 0x02, 0x00, 0xfd, 0xff, 0x61}, {0x04}, {0x05, 0xc0}, {0xf2, 0x48}, {0xf2, 0x48, 0xcd, 0xc9}, {0x02}, {0x06}, {0xff},
		{0x00, 0x00, 0x00, 0xff, 0xff, 0x00, 0x02, 0x00, 0xfd, 0xff, 0x61}} {
		for _, e := range entries["deflate"] {
			call(fmt.Sprintf("cutdeflate/%d/%s", di, e.name), "deflate", e.name, e.f, d, "cutdeflate", false, false, 0)
		}
		// the same as the payload of a compressed frame
		fr := vh.BuildFrame(2, true, 4, false, [4]byte{}, d)
		for _, e := range entries["frames"] {
			if e.name == "DecompressFrame" {
				call(fmt.Sprintf("cutdeflateframe/%d", di), "frames", e.name, e.f, fr, "cutdeflate", false, false, 0)
			}
		}
	}
	okReq := "GET /x HTTP/1.1\r\nHost: h\r\nUpgrade: websocket\r\nConnection: Upgrade\r\nSec-WebSocket-Version: 13\r\nSec-WebSocket-Key: dGhlIHNhbXBsZSBub25jZQ==\r\n"
	badLines := []string{"X-Blank: ", "X-Blank:  \t ", "X-Blank:\t", " \t: v", "\t:\t", "Sec-WebSocket-Protocol:  ", "Sec-WebSocket-Extensions: \t", "Host:   ", "Connection:  ", "Upgrade: \t",
		"", ":", ": v", "NoColon", " : ", "X", "\x00: \x00", "A:" + strings.Repeat(" ", 5000), strings.Repeat("k", 5000) + ": v", "Sec-WebSocket-Key", "Sec-WebSocket-Key:",
		"Sec-WebSocket-Protocol: ,", "Sec-WebSocket-Protocol: ,,a,,", "Sec-WebSocket-Protocol: \"", "Sec-WebSocket-Extensions: ;", "Sec-WebSocket-Extensions: a;", "Sec-WebSocket-Extensions: a; b=",
		"Sec-WebSocket-Extensions: a; b=\"", "Sec-WebSocket-Extensions: ,;=", "Sec-WebSocket-Extensions: permessage-deflate; client_max_window_bits=", "Sec-WebSocket-Extensions: permessage-deflate; server_max_window_bits=999999999999999999999",
		"Connection: ,", "Connection: \"upgrade", "Upgrade:", "Host:"}
	for li, l := range badLines {
		for _, pos := range []string{"mid", "last"} {
			req := okReq + l + "\r\n\r\n"
			if pos == "mid" {
				req = "GET /x HTTP/1.1\r\n" + l + "\r\n" + okReq[len("GET /x HTTP/1.1\r\n"):] + "\r\n"
			}
			for _, e := range entries["request"] {
				call(fmt.Sprintf("badline/%d/%s/%s", li, pos, e.name), "request", e.name, e.f, []byte(req), "badline", false, false, 0)
			}
			resp := "HTTP/1.1 101 Switching Protocols\r\nUpgrade: websocket\r\nConnection: Upgrade\r\nSec-WebSocket-Accept: " + acceptPlaceholder + "\r\n" + l + "\r\n\r\n"
			for _, e := range entries["response"] {
				call(fmt.Sprintf("badresp/%d/%s/%s", li, pos, e.name), "response", e.name, e.f, []byte(resp), "badline", false, false, 0)
			}
		}
	}
	for li, l := range []string{"", " ", "HTTP/1.1", "HTTP/1.1 ", "HTTP/1.1 101", "HTTP/1.1  101 x", "HTTP/ 101 x", "HTTP/1. 101 x", "HTTP/.1 101 x", "HTTP/1.1.1 101 x", " 101 x", "GET", "GET /", "GET / ", "GET  / HTTP/1.1", " / HTTP/1.1"} {
		for _, e := range entries["response"] {
			call(fmt.Sprintf("badstatus/%d/%s", li, e.name), "response", e.name, e.f, []byte(l+"\r\nUpgrade: websocket\r\n\r\n"), "badstatusline", false, false, 0)
		}
		for _, e := range entries["request"] {
			call(fmt.Sprintf("badreqline/%d/%s", li, e.name), "request", e.name, e.f, []byte(l+"\r\nHost: h\r\n\r\n"), "badrequestline", false, false, 0)
		}
	}
	badOpts := []string{"", ",", ";", "=", "a;", "a;b", "a;b=", "a;b=\"", "a;b=\"c", "a;b=c;", "a,,", ",a", "a; b; b", "permessage-deflate;", "permessage-deflate; client_max_window_bits=;", "\"", "a b", "a;b=c d", strings.Repeat("a;", 3000)}
	// every small / boundary number as a window size, for both parameters, alone and combined
	for _, v := range []string{"0", "1", "2", "3", "4", "5", "6", "7", "8", "9", "10", "14", "15", "16", "17", "31", "32", "99", "127", "128", "255", "256", "257", "65535", "65536", "-1", "+8", "08", "8.0", "0x8", "4294967304", "18446744073709551624"} {
		badOpts = append(badOpts, "permessage-deflate; client_max_window_bits="+v, "permessage-deflate; server_max_window_bits="+v,
			"permessage-deflate; server_max_window_bits="+v+"; client_max_window_bits="+v, "permessage-deflate; client_no_context_takeover="+v)
	}
	for li, l := range badOpts {
		for _, e := range entries["options"] {
			call(fmt.Sprintf("badopt/%d/%s", li, e.name), "options", e.name, e.f, []byte(l), "badoptions", false, false, 0)
		}
	}
	// extreme announced lengths at every frame entry point; header decoding must not allocate for them
	for name, v := range extremes {
		for _, masked := range []bool{true, false} {
			for _, op := range []int{1, 2, 0, 9, 8} {
				for _, extra := range []int{0, 10} {
					h := vh.H{Fin: true, Op: op, Masked: masked, Mask: []int{1, 2, 3, 4}, N: v}
					in := append(vh.OwnEncode(h), make([]byte, extra)...)
					for _, e := range entries["frames"] {
						allocCheck := e.name == "ReadHeader"
						call(fmt.Sprintf("extreme/%s/%v/%d/%d/%s", name, masked, op, extra, e.name), "frames", e.name, e.f, in, "extreme:"+name, allocCheck, false, 0)
					}
					// NextFrame alone (header decoding of the streaming reader), allocation measured
					call(fmt.Sprintf("extreme/%s/%v/%d/%d/NextFrame", name, masked, op, extra), "frames", "NextFrame", func(in []byte, s *budgetReader) error {
						st := ws.StateClientSide
						if masked {
							st = ws.StateServerSide
						}
						rd := &wsutil.Reader{Source: s, State: st}
						_, err := rd.NextFrame()
						return err
					}, in, "extreme:"+name, true, false, 0)
					// MaxFrameSize: refused before any payload byte is read
					if v > 1000 && op < 3 && op > 0 {
						call(fmt.Sprintf("limit/%s/%v/%d/%d", name, masked, op, extra), "frames", "MaxFrameSize", func(in []byte, s *budgetReader) error {
							st := ws.StateClientSide
							if masked {
								st = ws.StateServerSide
							}
							rd := &wsutil.Reader{Source: s, State: st, MaxFrameSize: 1000}
							if _, err := rd.NextFrame(); err != nil {
								return err
							}
							_, err := io.Copy(io.Discard, rd)
							return err
						}, in, "limit:"+name, false, true, 1000)
						// the same frame later in the stream: as a continuation of an in-limit first fragment
						// (with or without a ping in between), or as the message after a complete one
						for pi, pre := range [][]byte{
							vh.BuildFrame(op, false, 0, masked, [4]byte{1, 2, 3, 4}, []byte("0123456789")),
							append(vh.BuildFrame(op, false, 0, masked, [4]byte{1, 2, 3, 4}, []byte("0123456789")), vh.BuildFrame(9, true, 0, masked, [4]byte{5, 6, 7, 8}, []byte("pp"))...),
							append(vh.BuildFrame(op, false, 0, masked, [4]byte{1, 2, 3, 4}, []byte("01")), vh.BuildFrame(0, false, 0, masked, [4]byte{5, 6, 7, 8}, nil)...),
							vh.BuildFrame(op, true, 0, masked, [4]byte{1, 2, 3, 4}, []byte("0123456789")),
						} {
							h2 := vh.H{Fin: true, Op: 0, Masked: masked, Mask: []int{1, 2, 3, 4}, N: v}
							if pi == 3 {
								h2.Op = op
							}
							in2 := append(append(append([]byte{}, pre...), vh.OwnEncode(h2)...), make([]byte, extra)...)
							for _, how := range []string{"read", "discard", "nextframe"} {
								limitPrefix = len(pre)
								call(fmt.Sprintf("limitlater/%s/%v/%d/%d/%d/%s", name, masked, op, extra, pi, how), "frames", "MaxFrameSize", func(in []byte, s *budgetReader) error {
									st := ws.StateClientSide
									if masked {
										st = ws.StateServerSide
									}
									rd := &wsutil.Reader{Source: s, State: st, MaxFrameSize: 1000}
									for i := 0; i < 6; i++ {
										if _, err := rd.NextFrame(); err != nil {
											return err
										}
										switch how {
										case "read":
											if _, err := io.Copy(io.Discard, rd); err != nil {
												return err
											}
										case "discard":
											if err := rd.Discard(); err != nil {
												return err
											}
										default:
											var b [16]byte
											for {
												if _, err := rd.Read(b[:]); err == io.EOF {
													break
												} else if err != nil {
													return err
												}
											}
										}
									}
									return nil
								}, in2, "limitlater:"+name, false, true, 1000)
								limitPrefix = 0
							}
						}
					}
				}
			}
		}
	}
	meta.Evaluations = n
	meta.Distinct = len(shapes)
	out.Close()
	meta.Files = map[string][]string{"records": out.Files}
	meta.Write(c.dir)
}
