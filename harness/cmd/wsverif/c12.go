package main

import (
	"bytes"
	"compress/flate"
	"fmt"
	"io"
	"os"
	"path/filepath"
	"sort"
	"strings"

	"github.com/gobwas/ws"
	"github.com/gobwas/ws/wsflate"
	"github.com/gobwas/ws/wsutil"
	"wsverif/vh"
)

func init() { drivers["c12"] = c12 }

// fakeC is a scripted "compressor": every Write emits the next scripted chunk
// into the writer below it (the cbuf), Flush emits the flush chunk.
type fakeC struct {
	w      io.Writer
	script [][]byte
	i      int
}

func (f *fakeC) emit() error {
	if f.i < len(f.script) {
		c := f.script[f.i]
		f.i++
		_, err := f.w.Write(c)
		return err
	}
	return nil
}
func (f *fakeC) Write(p []byte) (int, error) { return len(p), f.emit() }
func (f *fakeC) Flush() error                { return f.emit() }

// passD is a "decompressor" that passes through what it reads from the
// suffixed reader, so the harness sees exactly what a real one would be fed.
type passD struct {
	r      io.Reader
	byByte bool
}

func (d *passD) Read(p []byte) (int, error) {
	if br, ok := d.r.(io.ByteReader); ok && d.byByte && len(p) > 0 {
		b, err := br.ReadByte()
		if err != nil {
			return 0, err
		}
		p[0] = b
		return 1, nil
	}
	return d.r.Read(p)
}

type plainReader struct{ r io.Reader } // hides ReadByte

func (p plainReader) Read(b []byte) (int, error) { return p.r.Read(b) }

func payloadClasses(thorough bool) map[string][]byte {
	rng := vh.Rand(7, "c12payload")
	rnd := func(n int) []byte { b := make([]byte, n); rng.Read(b); return b }
	far := append(rnd(3000), make([]byte, 40000)...)
	far = append(far, far[:3000]...) // a repeat farther away than the 32 KiB window
	m := map[string][]byte{
		"empty": {}, "one": {'x'}, "hello": []byte("Hello, permessage-deflate! Hello, permessage-deflate!"),
		"rand1k": rnd(1024), "zeros100k": make([]byte, 100*1024), "far": far, "text4k": bytes.Repeat([]byte("lorem ipsum dolor sit amet, "), 150),
	}
	if thorough {
		m["rand70k"] = rnd(70000)
		m["zeros1"] = make([]byte, 1)
		m["ff300"] = bytes.Repeat([]byte{0xff}, 300)
	}
	return m
}

func c12(c *ctx) {
	out := vh.NewOut(c.dir, "c12", 20000)
	defer out.Close()
	shapes := vh.Shapes{}
	meta := &vh.Meta{Property: "C12", Tier: c.tier, Seed: c.seed,
		Rule: "records = (a) scripted compressor output through wsflate.Writer/cbuf: all chunkings of byte strings <= 7 over {0,255,7} with and without the 00 00 ff ff tail, then writes/flush/close after the verdict; (b) wsflate.Reader's suffixed source with pass-through decompressor (byte-reader and plain sources, several read sizes, Reset); (c) compress/flate levels {-2,0,1,6,9} x payload classes {empty, 1 byte, text, random 1 KiB, zeros 100 KiB, repeat beyond the 32 KiB window, ...} x write/flush patterns, inflated by Python zlib; (d) zlib sync-flushed streams minus tail read back through wsflate.Reader under 5 chunkings and both source kinds; (e) Compress/DecompressFrame helpers; (f) end-to-end through wsflate.Writer -> wsutil.Writer -> wsutil.Reader -> wsflate.Reader with MessageState; distinct = (kind, payload class, level/pattern/chunking, outcome)"}
	rng := vh.Rand(c.seed, "c12")
	n := 0
	emit := func(rec map[string]interface{}, shape string) {
		out.Emit(rec, true)
		n++
		shapes.Add(shape)
		if len(meta.Samples) < 4 && n%257 == 3 {
			meta.Samples = append(meta.Samples, rec)
		}
	}
	// ---- (a) cbuf
	alpha := []byte{0, 255, 7}
	tail := []byte{0, 0, 255, 255}
	var gen func(cur []byte, ln int, f func([]byte))
	gen = func(cur []byte, ln int, f func([]byte)) {
		if len(cur) == ln {
			f(append([]byte(nil), cur...))
			return
		}
		for _, a := range alpha {
			gen(append(cur, a), ln, f)
		}
	}
	cbufCase := func(key string, cout []byte, cuts []int) {
		if !vh.Only(key) {
			return
		}
		var chunks [][]byte
		pos := 0
		for _, cpos := range append(cuts, len(cout)) {
			chunks = append(chunks, cout[pos:cpos])
			pos = cpos
		}
		// the last chunk is emitted by Flush()
		dest := &bytes.Buffer{}
		fc := &fakeC{script: chunks}
		w := wsflate.NewWriter(dest, func(x io.Writer) wsflate.Compressor { fc.w = x; return fc })
		if strings.HasSuffix(key, "/reused") { // the writer has carried a whole message before and was Reset
			fc.script = [][]byte{{7, 7, 7, 7, 7, 0, 0, 255, 255}}
			w.Flush()
			dest = &bytes.Buffer{}
			w.Reset(dest)
			fc.script, fc.i = chunks, 0
		}
		for i := 0; i < len(chunks)-1; i++ {
			w.Write([]byte("data"))
		}
		ferr := w.Flush()
		d1 := append([]byte(nil), dest.Bytes()...)
		fc.script = append(fc.script, []byte{1, 2, 3, 4, 5, 6}, tail, tail)
		_, werr := w.Write([]byte("more"))
		ferr2 := w.Flush()
		cerr := w.Close()
		d2 := dest.Bytes()
		if ferr == nil {
			d2 = d1 // after a successful flush later output is not compared
		}
		ch := [][]int{}
		for _, x := range chunks {
			ch = append(ch, vh.Ints(x))
		}
		emit(map[string]interface{}{"k": "cbuf", "key": key, "chunks": ch, "dest": vh.Ints(d1), "flushErr": ferr != nil,
			"afterWriteErr": werr != nil, "afterFlushErr": ferr2 != nil, "afterCloseErr": cerr != nil, "destAfter": vh.Ints(d2), "errIsSame": w.Err() != nil},
			fmt.Sprintf("cbuf/%d/%d/%v", len(cout), len(cuts), ferr != nil))
	}
	maxLen := 5
	if c.thorough {
		maxLen = 7
	}
	for ln := 0; ln <= maxLen; ln++ {
		gen(nil, ln, func(body []byte) {
			for _, withTail := range []bool{true, false} {
				cout := body
				if withTail {
					cout = append(append([]byte(nil), body...), tail...)
				}
				// every split into <= 3 chunks
				for i := 0; i <= len(cout); i++ {
					for j := i; j <= len(cout); j++ {
						if !c.thorough && (i+j+ln)%3 != 0 && len(cout) > 4 {
							continue
						}
						cbufCase(fmt.Sprintf("cbuf/%v/%v/%d/%d", body, withTail, i, j), cout, []int{i, j})
					}
				}
				cbufCase(fmt.Sprintf("cbuf/%v/%v/one", body, withTail), cout, nil)
				cbufCase(fmt.Sprintf("cbuf/%v/%v/one/reused", body, withTail), cout, nil)
				cbufCase(fmt.Sprintf("cbuf/%v/%v/split/reused", body, withTail), cout, []int{len(cout) / 2})
			}
		})
	}
	// ---- (b) suffixed reader
	// sources that return their last bytes together with io.EOF, read with buffers that leave
	// 0..9 bytes of room behind the source bytes
	for _, srcLen := range []int{0, 1, 5, 9, 40} {
		for room := 0; room <= 10; room++ {
			for _, chunk := range [][]int{nil, {3}} {
				key := fmt.Sprintf("suffixeof/%d/%d/%v", srcLen, room, chunk)
				if !vh.Only(key) {
					continue
				}
				src := vh.PBytes(6, 0, srcLen)
				r := wsflate.NewReader(&vh.ChunkReader{Data: src, Sizes: chunk, DataErr: true}, func(x io.Reader) wsflate.Decompressor { return &passD{x, false} })
				var got []byte
				buf := make([]byte, srcLen+room+1)
				var err error
				for i := 0; i < 1000; i++ {
					var k int
					k, err = r.Read(buf)
					got = append(got, buf[:k]...)
					if err != nil {
						break
					}
				}
				kind, _ := rerr(err)
				emit(map[string]interface{}{"k": "suffix", "key": key, "src": vh.Ints(src), "got": vh.Ints(got), "err": kind}, fmt.Sprintf("suffixeof/%d/%d", srcLen, room))
			}
		}
	}
	for _, srcLen := range []int{0, 1, 2, 8, 9, 10, 100} {
		src := vh.PBytes(5, 0, srcLen)
		for mode := 0; mode < 8; mode++ {
			key := fmt.Sprintf("suffix/%d/%d", srcLen, mode)
			if !vh.Only(key) {
				continue
			}
			var s io.Reader = bytes.NewReader(src)
			byByte := false
			switch mode {
			case 1:
				byByte = true
			case 2:
				s = plainReader{bytes.NewReader(src)}
			case 3:
				s = &vh.ChunkReader{Data: src, Sizes: []int{1}}
			case 4:
				s = &vh.ChunkReader{Data: src, Sizes: []int{3, 4}}
			}
			r := wsflate.NewReader(s, func(x io.Reader) wsflate.Decompressor { return &passD{x, byByte} })
			if mode == 5 { // Reset onto the real source after reading something else
				r = wsflate.NewReader(bytes.NewReader([]byte("garbage")), func(x io.Reader) wsflate.Decompressor { return &passD{x, false} })
				io.ReadAll(r)
				r.Reset(bytes.NewReader(src))
			}
			if mode == 6 || mode == 7 { // Reset from a byte-reader source onto a plain one, and the other way round
				first, second := io.Reader(bytes.NewReader([]byte("garbage"))), io.Reader(plainReader{bytes.NewReader(src)})
				if mode == 7 {
					first, second = plainReader{bytes.NewReader([]byte("garbage"))}, bytes.NewReader(src)
				}
				r = wsflate.NewReader(first, func(x io.Reader) wsflate.Decompressor { return &passD{x, true} })
				r.Read(make([]byte, 3))
				r.Reset(second)
			}
			var got []byte
			buf := make([]byte, []int{1, 2, 3, 7, 4096, 5, 2, 6}[mode])
			var err error
			for i := 0; i < 10000; i++ {
				var k int
				k, err = r.Read(buf)
				got = append(got, buf[:k]...)
				if err != nil {
					break
				}
			}
			kind, _ := rerr(err)
			emit(map[string]interface{}{"k": "suffix", "key": key, "src": vh.Ints(src), "got": vh.Ints(got), "err": kind}, fmt.Sprintf("suffix/%d/%d", srcLen, mode))
		}
	}
	// ---- (c) real compressor, judged by the independent inflater afterwards
	pcs := payloadClasses(c.thorough)
	names := []string{}
	for k := range pcs {
		names = append(names, k)
	}
	sort.Strings(names)
	id := 0
	for _, pn := range names {
		msg := pcs[pn]
		for _, level := range []int{-2, 0, 1, 6, 9} {
			for pat := 0; pat < 10; pat++ {
				if !c.thorough && len(msg) > 50000 && pat > 1 && pat < 5 && level != 9 {
					continue
				}
				key := fmt.Sprintf("deflate/%s/%d/%d", pn, level, pat)
				if !vh.OnlyGroup(key) {
					continue
				}
				dest := &bytes.Buffer{}
				w := wsflate.NewWriter(dest, func(x io.Writer) wsflate.Compressor { f, _ := flate.NewWriter(x, level); return f })
				var err error
				sofar := 0
				step := func(k int) {
					if err == nil && sofar+k <= len(msg) {
						_, err = w.Write(msg[sofar : sofar+k])
						sofar += k
					}
				}
				flushes := 0
				check := func(label string) {
					id++
					wf := filepath.Join(c.dir, fmt.Sprintf("wire_%d.bin", id))
					mf := filepath.Join(c.dir, fmt.Sprintf("msg_%d.bin", id))
					os.WriteFile(wf, dest.Bytes(), 0o644)
					os.WriteFile(mf, msg[:sofar], 0o644)
					// the library's own reader must recover it too
					back, rerr2 := io.ReadAll(wsflate.NewReader(bytes.NewReader(dest.Bytes()), func(r io.Reader) wsflate.Decompressor { return flate.NewReader(r) }))
					kind, _ := rerr(err)
					emit(map[string]interface{}{"k": "deflate", "key": key + "/" + label, "wire": wf, "msg": mf, "err": kind, "inflateOK": false,
						"selfReadOK": rerr2 == nil && bytes.Equal(back, msg[:sofar]), "flushes": flushes}, fmt.Sprintf("deflate/%s/%d/%d/%s", pn, level, pat, label))
				}
				// patterns 5..7 end the message with Close() alone, as example/autobahn does (compress/flate's
				// Close ends with the empty final stored block 01 00 00 ff ff, so the tail rule holds)
				closeOnly := pat >= 5
				if pat == 7 { // a reused writer: an earlier message, Reset, then this one
					w.Write([]byte("an earlier message"))
					w.Flush()
					w.Close()
					dest.Reset()
					w.Reset(dest)
				}
				if pat == 8 || pat == 9 { // reused after a message that was ended by Flush() alone and shares its content
					w.Write(msg)
					w.Write([]byte("the earlier message shares its content with the next one"))
					w.Flush()
					if pat == 9 {
						w.Flush()
					}
					dest.Reset()
					w.Reset(dest)
				}
				switch pat {
				case 0, 5, 7, 8, 9:
					step(len(msg))
				case 1, 6:
					for sofar < len(msg) {
						k := 1 + rng.Intn(1+len(msg)/7)
						if sofar+k > len(msg) {
							k = len(msg) - sofar
						}
						step(k)
					}
				case 2: // flush in the middle: the message so far must inflate at every flush
					step(len(msg) / 2)
					if err == nil {
						err = w.Flush()
						flushes++
						check("mid")
					}
					step(len(msg) - sofar)
				case 3: // empty writes and double flush
					step(0)
					step(len(msg))
					if err == nil {
						err = w.Flush()
						flushes++
					}
				case 4: // byte-wise for small payloads, 1000-byte chunks otherwise
					k := 1
					if len(msg) > 200 {
						k = 1000
					}
					for sofar < len(msg) {
						kk := k
						if sofar+kk > len(msg) {
							kk = len(msg) - sofar
						}
						step(kk)
					}
				}
				if !closeOnly {
					if err == nil {
						err = w.Flush()
						flushes++
					}
					check("flush")
				}
				if err == nil {
					err = w.Close()
				}
				check("close")
			}
		}
	}
	// ---- (d) independent deflater's output through wsflate.Reader
	if in := os.Getenv("C12_IN"); in != "" {
		files, _ := filepath.Glob(filepath.Join(in, "in_*.bin"))
		sort.Strings(files)
		for _, f := range files {
			comp, _ := os.ReadFile(f)
			orig, _ := os.ReadFile(filepath.Join(in, "orig_"+filepath.Base(f)[3:]))
			for mode := 0; mode < 8; mode++ {
				key := fmt.Sprintf("inflate/%s/%d", filepath.Base(f), mode)
				if !vh.Only(key) {
					continue
				}
				var s io.Reader = bytes.NewReader(comp)
				switch mode {
				case 1:
					s = plainReader{bytes.NewReader(comp)}
				case 2:
					s = &vh.ChunkReader{Data: comp, Sizes: []int{1}}
				case 3:
					s = &vh.ChunkReader{Data: comp, Sizes: []int{2, 3, 7}}
				case 4:
					s = &vh.ChunkReader{Data: comp, Sizes: []int{4096}}
				case 6: // the last bytes arrive together with io.EOF
					s = &vh.ChunkReader{Data: comp, Sizes: []int{4096}, DataErr: true}
				case 7:
					s = &vh.ChunkReader{Data: comp, Sizes: []int{5}, DataErr: true}
				}
				r := wsflate.NewReader(s, func(x io.Reader) wsflate.Decompressor { return flate.NewReader(x) })
				if mode == 5 { // Reset reuse (C18): read another stream first
					r = wsflate.NewReader(bytes.NewReader([]byte{0xf3, 0x48, 0xcd, 0xc9, 0xc9, 0x07, 0x00}), func(x io.Reader) wsflate.Decompressor { return flate.NewReader(x) })
					io.ReadAll(r)
					r.Reset(bytes.NewReader(comp))
				}
				back, err := io.ReadAll(r)
				if err == nil {
					err = r.Close()
				}
				kind, _ := rerr(err)
				emit(map[string]interface{}{"k": "inflate", "key": key, "equal": bytes.Equal(back, orig), "err": kind, "n": len(orig)}, fmt.Sprintf("inflate/%d/%d", len(orig)/1000, mode))
			}
		}
	}
	// ---- (e) frame helpers
	hn := 0
	// Helper.Compress / CompressTo as a message: judged like the writer's output
	for _, pn := range names {
		msg := pcs[pn]
		for li, level := range []int{1, 9} {
			key := fmt.Sprintf("deflate/helper/%s/%d", pn, level)
			if !vh.OnlyGroup(key) {
				continue
			}
			hp := &wsflate.Helper{
				Compressor:   func(w io.Writer) wsflate.Compressor { fw, _ := flate.NewWriter(w, level); return fw },
				Decompressor: func(r io.Reader) wsflate.Decompressor { return flate.NewReader(r) },
			}
			var wire []byte
			var err error
			if li == 0 {
				wire, err = hp.Compress(msg)
			} else {
				var b bytes.Buffer
				err = hp.CompressTo(&b, msg)
				wire = b.Bytes()
			}
			id++
			wf := filepath.Join(c.dir, fmt.Sprintf("wire_%d.bin", id))
			mf := filepath.Join(c.dir, fmt.Sprintf("msg_%d.bin", id))
			os.WriteFile(wf, wire, 0o644)
			os.WriteFile(mf, msg, 0o644)
			var back []byte
			var derr error
			if li == 0 {
				back, derr = hp.Decompress(wire)
			} else {
				var b bytes.Buffer
				derr = hp.DecompressTo(&b, wire)
				back = b.Bytes()
			}
			kind, _ := rerr(err)
			emit(map[string]interface{}{"k": "deflate", "key": key + "/bytes", "wire": wf, "msg": mf, "err": kind, "inflateOK": false,
				"selfReadOK": derr == nil && bytes.Equal(back, msg), "flushes": 1}, fmt.Sprintf("deflate/helper/%s/%d", pn, level))
		}
	}
	for _, pn := range names {
		msg := pcs[pn]
		if len(msg) > 5000 {
			msg = msg[:5000]
		}
		for _, fin := range []bool{true, false} {
			for _, op := range []int{1, 2} {
				for _, rsv := range []int{0, 1, 2, 3, 4, 8, 16} {
					key := fmt.Sprintf("helper/%s/%v/%d/%d", pn, fin, op, rsv)
					// (4, 8: frames put together by hand, whose header length field is 0 / half the payload:
					// the helpers take the message from the payload slice)
					hlen := int64(len(msg))
					masked := rsv == 16 // (16: a header that says "masked": the helpers compress and inflate the payload as it is)
					if masked {
						rsv = 0
					}
					if rsv >= 4 {
						hlen = []int64{0, int64(len(msg) / 2)}[rsv/8]
						rsv = 0
					}
					if !vh.Only(key) {
						continue
					}
					f := ws.Frame{Header: ws.Header{Fin: fin, Rsv: byte(rsv), OpCode: ws.OpCode(op), Length: hlen, Masked: masked}, Payload: append([]byte(nil), msg...)}
					if masked {
						f.Header.Mask = [4]byte{0x11, 0x22, 0x33, 0x44}
					}
					// the API forms rotate: package-level functions, an own Helper (other level), the
					// Buffer variants with one buffer per direction
					hn++
					own := &wsflate.Helper{
						Compressor:   func(w io.Writer) wsflate.Compressor { fw, _ := flate.NewWriter(w, []int{1, 9, -2}[hn%3]); return fw },
						Decompressor: func(r io.Reader) wsflate.Decompressor { return flate.NewReader(r) },
					}
					var cbuf, dbuf, pbuf bytes.Buffer
					compress := func(x ws.Frame) (ws.Frame, error) {
						switch hn % 4 {
						case 0:
							return wsflate.CompressFrame(x)
						case 1:
							return own.CompressFrame(x)
						case 2:
							return wsflate.CompressFrameBuffer(&cbuf, x)
						}
						return own.CompressFrameBuffer(&cbuf, x)
					}
					decompress := func(x ws.Frame, buf *bytes.Buffer) (ws.Frame, error) {
						switch hn % 4 {
						case 0:
							return wsflate.DecompressFrame(x)
						case 1:
							return own.DecompressFrame(x)
						case 2:
							return wsflate.DecompressFrameBuffer(buf, x)
						}
						return own.DecompressFrameBuffer(buf, x)
					}
					cf, cerr := compress(f)
					var df ws.Frame
					var derr error
					if cerr == nil {
						df, derr = decompress(cf, &dbuf)
					} else {
						_, derr = decompress(ws.Frame{Header: ws.Header{Fin: fin, Rsv: byte(rsv | 4), OpCode: ws.OpCode(op)}, Payload: []byte{0}}, &dbuf)
					}
					pf, perr := decompress(f, &pbuf) // no RSV1: returned as it is
					emit(map[string]interface{}{"k": "helper", "key": key, "fin": fin, "op": op, "rsv": rsv, "masked": masked, "dmasked": df.Header.Masked, "maskKept": cf.Header.Mask == f.Header.Mask && (cerr != nil || derr != nil || df.Header.Mask == f.Header.Mask),
						"cerr": cerr != nil, "derr": derr != nil, "perr": perr != nil, "crsv": int(cf.Header.Rsv), "cop": int(cf.Header.OpCode), "cfin": cf.Header.Fin, "cmasked": cf.Header.Masked,
						"clenOK": cf.Header.Length == int64(len(cf.Payload)), "dlenOK": df.Header.Length == int64(len(df.Payload)),
						"drsv": int(df.Header.Rsv), "dop": int(df.Header.OpCode), "dfin": df.Header.Fin, "roundtrip": bytes.Equal(df.Payload, msg),
						"plainUntouched": !fin || (perr == nil && bytes.Equal(pf.Payload, msg) && pf.Header == f.Header)},
						fmt.Sprintf("helper/%v/%d/%d/%d", fin, op, rsv, len(msg)/100))
				}
			}
		}
	}
	// ---- (f) end to end through both stacks
	sizes := []int{0, 1, 100, 5000, 70000}
	if c.thorough {
		sizes = append(sizes, 200*1024)
	}
	for _, size := range sizes {
		for _, bufsz := range []int{16, 125, 126, 4096} {
			for _, compressed := range []bool{true, false} {
				for _, side := range []string{"client", "server"} {
					key := fmt.Sprintf("e2e/%d/%d/%v/%s", size, bufsz, compressed, side)
					if !vh.Only(key) {
						continue
					}
					emit(e2e(key, size, bufsz, compressed, side, rng.Int63()), fmt.Sprintf("e2e/%d/%d/%v/%s", size, bufsz, compressed, side))
				}
			}
		}
	}
	meta.Evaluations = n
	meta.Distinct = len(shapes)
	out.Close()
	meta.Files = map[string][]string{"records": out.Files}
	meta.Write(c.dir)
}

// e2e writes one message through wsflate.Writer -> wsutil.Writer (with
// MessageState), splices a ping between the fragments, and reads it back
// through wsutil.Reader (with MessageState) -> wsflate.Reader.
func e2e(key string, size, bufsz int, compressed bool, side string, seed int64) map[string]interface{} {
	rng := vh.Rand(seed, "e2e")
	msg := make([]byte, size)
	for i := range msg {
		if i%3 == 0 {
			msg[i] = byte(rng.Intn(256))
		} else {
			msg[i] = byte(i / 64)
		}
	}
	var wire bytes.Buffer
	var wms wsflate.MessageState
	wms.SetCompressed(compressed)
	w := wsutil.NewWriterSize(&wire, wsState(side), ws.OpBinary, bufsz)
	w.SetExtensions(&wms)
	var err error
	if compressed {
		fw := wsflate.NewWriter(w, func(x io.Writer) wsflate.Compressor { f, _ := flate.NewWriter(x, 6); return f })
		_, err = fw.Write(msg)
		if err == nil {
			err = fw.Flush()
		}
	} else {
		_, err = w.Write(msg)
	}
	if err == nil {
		err = w.Flush()
	}
	fs, rest := vh.ParseFrames(wire.Bytes())
	frames := []map[string]interface{}{}
	// rebuild the stream for the peer with a ping spliced in after every fragment but the last
	peer := "server"
	if side == "server" {
		peer = "client"
	}
	var stream []byte
	for i, f := range fs {
		frames = append(frames, map[string]interface{}{"first": i == 0, "rsv": f.Rsv, "op": f.Op, "fin": f.Fin, "len": f.Len})
		stream = append(stream, vh.BuildFrame(f.Op, f.Fin, f.Rsv, f.Masked, [4]byte{1, 2, 3, byte(i)}, f.Raw)...)
		if i < len(fs)-1 && i%2 == 0 {
			stream = append(stream, vh.BuildFrame(9, true, 0, f.Masked, [4]byte{9, 9, 9, 9}, []byte("ping"))...)
		}
	}
	var rms wsflate.MessageState
	rd := &wsutil.Reader{Source: &vh.ChunkReader{Data: stream, Sizes: []int{1000, 1, 77}}, State: wsState(peer) | ws.StateExtended, Extensions: []wsutil.RecvExtension{&rms}}
	pings := 0
	rd.OnIntermediate = func(h ws.Header, r io.Reader) error { pings++; _, e := io.ReadAll(r); return e }
	var back []byte
	reported := false
	if err == nil && len(rest) == 0 {
		_, err = rd.NextFrame()
		reported = rms.IsCompressed()
		if err == nil {
			if reported {
				fr := wsflate.NewReader(rd, func(x io.Reader) wsflate.Decompressor { return flate.NewReader(x) })
				back, err = io.ReadAll(fr)
			} else {
				back, err = io.ReadAll(rd)
			}
		}
	}
	kind, _ := rerr(err)
	if len(rest) != 0 {
		kind = "other"
	}
	return map[string]interface{}{"k": "e2e", "key": key, "err": kind, "equal": bytes.Equal(back, msg), "frames": frames, "compressed": compressed,
		"reportedCompressed": reported, "pings": pings, "nframes": len(fs)}
}
