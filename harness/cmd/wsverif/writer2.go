package main

import (
	"bytes"
	"encoding/json"
	"fmt"

	"github.com/gobwas/ws"
	"github.com/gobwas/ws/wsflate"
	"github.com/gobwas/ws/wsutil"
	"wsverif/vh"
)

func init() {
	drivers["c16w"] = c16w
	drivers["c18w"] = c18w
	drivers["c08w"] = c08w
	drivers["c13w"] = c13w
}

func seqs(alpha []wop, depth int, f func([]wop)) {
	idx := make([]int, depth)
	for {
		ops := make([]wop, depth)
		for i, x := range idx {
			ops[i] = alpha[x]
		}
		f(ops)
		j := depth - 1
		for j >= 0 {
			idx[j]++
			if idx[j] < len(alpha) {
				break
			}
			idx[j] = 0
			j--
		}
		if j < 0 {
			return
		}
	}
}

type traceSink struct {
	out            *vh.Out
	shapes         vh.Shapes
	meta           *vh.Meta
	traces, events int
}

func (t *traceSink) add(sc wscenario, evs []wev) {
	emitTrace(t.out, evs)
	t.traces++
	t.events += len(evs)
	t.shapes.Add("%s/%d/%s/%d/%s", sc.Ctor, sc.N, sc.Side, sc.FailAt, frameShape(evs))
	if len(t.meta.Samples) < 3 && t.traces%811 == 5 {
		t.meta.Samples = append(t.meta.Samples, map[string]interface{}{"scenario": sc, "events": evs})
	}
}

func (t *traceSink) finish(c *ctx) {
	t.meta.Evaluations = t.traces
	t.meta.Distinct = len(t.shapes)
	if t.meta.Extra == nil {
		t.meta.Extra = map[string]interface{}{}
	}
	t.meta.Extra["events"] = t.events
	if t.meta.Property == "C18" {
		t.meta.Extra["struct_only_differences"] = structOnlyDiffs
		t.meta.Extra["hooks_on"] = hooksOn
	}
	t.out.Close()
	t.meta.Files = map[string][]string{"traces": t.out.Files}
	t.meta.Write(c.dir)
}

// ---------------------------------------------------------------- C16: failing destination

var wFailAlphabet = []wop{
	{"Write", "1", ""}, {"Write", "a", ""}, {"Write", "a+1", ""}, {"Write", "2s+1", ""},
	{"WriteThrough", "s+1", ""}, {"ReadFrom", "a+1", "eof"}, {"ReadFrom", "2s+1", "eof/3"},
	{"FlushFragment", "", ""}, {"Flush", "", ""},
}

var wAfterFail = []wop{{"Write", "1", ""}, {"Write", "0", ""}, {"WriteThrough", "1", ""}, {"FlushFragment", "", ""},
	{"ReadFrom", "1", "eof"}, {"Write", "s+1", ""}, {"Flush", "", ""}, {"Flush", "", ""}}

func c16w(c *ctx) {
	t := &traceSink{out: vh.NewOut(c.dir, "c16w", 60000), shapes: vh.Shapes{}, meta: &vh.Meta{Property: "C16", Tier: c.tier, Seed: c.seed,
		Rule: "writer side: for every call history of depth D over 9 operations (D=2 quick, 3 thorough) on 3 small-buffer configurations, every index of the destination write call fails (whole, after 1 byte, after all bytes), followed by 8 further calls; distinct = (configuration, failing index, per-call frame shape)"}}
	defer t.out.Close()
	depth := 2
	if c.thorough {
		depth = 3
	}
	cfgs := []wconfig{{"NewWriterBufferSize", 8, "server", 1, false, nil}, {"NewWriterBufferSize", 12, "client", 2, false, nil},
		{"NewWriterSize", 126, "client", 1, true, []wop{{"SetExt", "1", ""}}}}
	for ci, cf := range cfgs {
		seqs(wFailAlphabet, depth, func(h []wop) {
			ops := append(append([]wop(nil), cf.Pre...), h...)
			ops = append(ops, wop{"Flush", "", ""})
			base := wscenario{Ctor: cf.Ctor, N: cf.N, Side: cf.Side, Op: cf.Op, Ops: ops, Ext: cf.Ext}
			healthy := runWriter(base)
			calls := healthy[len(healthy)-1].Calls
			for fa := 1; fa <= calls; fa++ {
				for _, partial := range []int{0, 1, 1 << 30} {
					if !c.thorough && partial == 1 && fa%2 == 0 {
						continue
					}
					sc := base
					sc.FailAt, sc.Partial = fa, partial
					sc.Ops = append(append([]wop(nil), ops...), wAfterFail...)
					sc.Key = fmt.Sprintf("wfail/%d/%s/%d/%d", ci, opsKey(ops), fa, partial)
					if vh.Only(sc.Key) {
						t.add(sc, runWriter(sc))
					}
				}
			}
		})
	}
	t.finish(c)
}

// ---------------------------------------------------------------- C18: reset / pooled reuse == fresh

var wHistAlphabet = []wop{
	{"Write", "0", ""}, {"ReadFrom", "0", "eof"},
	{"Write", "1", ""}, {"Write", "a", ""}, {"Write", "a+1", ""}, {"Write", "2s+1", ""},
	{"WriteThrough", "s+1", ""}, {"ReadFrom", "a+1", "eof"}, {"ReadFrom", "s+1", "err"},
	{"FlushFragment", "", ""}, {"Flush", "", ""}, {"Grow", "2s+1", ""}, {"DisableFlush", "", ""}, {"SetExt", "1", ""},
}

var wSuffixAlphabet = []wop{
	{"Write", "1", ""}, {"Write", "a", ""}, {"Write", "a+1", ""}, {"Write", "2s+1", ""}, {"Write", "0", ""},
	{"WriteThrough", "1", ""}, {"ReadFrom", "a+1", "eof"}, {"FlushFragment", "", ""}, {"Flush", "", ""},
}

// evJSON is what the lock-step comparison with a fresh twin looks at: everything the caller can
// observe through the exported API (results, error classes, frames at the destination, Size /
// Available / Buffered).  The struct-level projection is NOT part of it - C18 speaks about behaviour,
// and a correct implementation is free to keep its bookkeeping differently after a reset; struct
// differences are counted separately (structOnlyDiffs, reported in the evidence, never a verdict).
func evJSON(e wev) string {
	e.Key, e.Calls = "", 0
	e.St = wst{}
	b, _ := json.Marshal(e)
	return string(b)
}

var structOnlyDiffs int

func stJSON(e wev) string {
	// the size of the underlying allocation is not even bookkeeping that matters: a grown buffer keeps
	// the larger header reservation where a new writer of the same Size() reserves less
	e.St.Raw = 0
	b, _ := json.Marshal(e.St)
	return string(b)
}

// twin runs the suffix on a freshly constructed writer of the same Size() and
// returns its events ("" when no such writer can be constructed).
func twinEvents(side string, op, size int, suffix []wop, accBase int) []wev {
	d := &vh.Dest{}
	w := wsutil.NewWriterSize(d, wsState(side), ws.OpCode(op), size)
	if w.Size() != size {
		return nil
	}
	r := &wrunner{d: d, w: w, acc: accBase, hsent: accBase}
	return runOps(r, suffix)
}

func c18w(c *ctx) {
	t := &traceSink{out: vh.NewOut(c.dir, "c18w", 60000), shapes: vh.Shapes{}, meta: &vh.Meta{Property: "C18", Tier: c.tier, Seed: c.seed,
		Rule: "writer: every history of depth D over 12 operations (incl. growth, disabled flushing, extension, source error) with a healthy destination or one failing at write 1..3, then Reset(side', op'), PutWriter/GetWriter or ResetOp(same / other opcode), then every suffix of depth 2 over 9 operations + Flush, in lock-step with a freshly constructed writer of the same Size(); distinct = (history, reset kind, suffix frame shape)"}}
	defer t.out.Close()
	depth := 2
	if c.thorough {
		depth = 3
	}
	cfgs := []wconfig{{"NewWriterBufferSize", 8, "server", 1, false, nil}, {"NewWriterBufferSize", 12, "client", 2, false, nil}}
	if c.thorough {
		cfgs = append(cfgs, wconfig{"NewWriterSize", 126, "server", 1, false, nil}, wconfig{"GetWriter", 64, "client", 1, false, nil})
	}
	// writers whose Size() is a class of the writer pool (128, 256): only these really come back from
	// GetWriter after PutWriter - used with the pool cycle only, towards either side
	poolFrom := len(cfgs)
	cfgs = append(cfgs, wconfig{"NewWriterSize", 128, "server", 1, false, nil}, wconfig{"NewWriterSize", 128, "client", 2, false, nil}, wconfig{"GetWriter", 256, "server", 2, false, nil})
	// ResetOp with the writer's own opcode and with another one (judged by the monitor: the next message
	// starts afresh, extensions and flush mode stay)
	resets := []wop{{"Reset", "server/1", ""}, {"Reset", "client/2", ""}, {"PutGet", "server/2", ""}, {"ResetOp", "1", ""}, {"ResetOp", "2", ""}, {"PutGet", "client/1", ""}}
	n := 0
	for ci, cf := range cfgs {
		d := depth
		if ci > 1 {
			d = 2 // (budget: the larger configurations with depth-2 histories)
		}
		pooled := ci >= poolFrom
		seqs(wHistAlphabet, d, func(h []wop) {
			for _, fa := range []int{0, 1, 2} {
				for ri, rs := range resets {
					n++
					if !c.thorough && (n%3 != 0) && fa != 1 && rs.Name != "ResetOp" {
						continue // (sampled; the ResetOp kinds always run, with a fixed set of suffixes)
					}
					if pooled != (rs.Name == "PutGet") && (pooled || rs.Arg == "client/1") {
						continue // pool-class writers take the pool cycle only; the cycle towards the client side is theirs
					}
					if pooled && !c.thorough && n%2 == 0 && fa != 0 {
						continue
					}
					if c.thorough && rs.Name == "ResetOp" && (ci > 1 || fa == 2) {
						continue // (budget: ResetOp on the two small configurations, destination healthy or failing at write 1)
					}
					runSfx := func(sfx []wop, forced bool) {
						fixed := opsKey(sfx) == "Wr1,Wr1" || opsKey(sfx) == "Fl,Wr1" || (rs.Name == "ResetOp" && (opsKey(sfx) == "Fl,Fl" || opsKey(sfx) == "Wr1,Fl" || opsKey(sfx) == "Wr0,Fl"))
						if !forced && !c.thorough && !fixed && (rs.Name == "ResetOp" || (n+len(opsKey(sfx)))%5 != 0) {
							return
						}
						if !forced && c.thorough && (opsKey(sfx) != "Wr1,Wr1") && (opsKey(sfx) != "Fl,Wr1") && (n+len(opsKey(sfx)))%2 != 0 {
							return // (budget: every second suffix, rotating with the history)
						}
						ops := append(append([]wop(nil), h...), rs)
						ops = append(ops, sfx...)
						ops = append(ops, wop{"Flush", "", ""})
						sc := wscenario{Key: fmt.Sprintf("wreset/%d/%d/%d/%s", ci, fa, ri, opsKey(ops)), Ctor: cf.Ctor, N: cf.N, Side: cf.Side, Op: cf.Op, Ops: ops, FailAt: fa}
						if !vh.Only(sc.Key) {
							return
						}
						evs := runWriter(sc)
						// lock-step comparison with a fresh twin
						ri := -1
						for i, e := range evs {
							if e.Ev == "Reset" {
								ri = i
							}
						}
						if ri >= 0 {
							re := evs[ri]
							accAtReset := 0
							for _, e := range evs[:ri] {
								accAtReset += e.N
							}
							tw := twinEvents(re.Side, re.Op, re.Size, append(append([]wop(nil), sfx...), wop{"Flush", "", ""}), accAtReset)
							if tw != nil {
								for i := range tw {
									if ri+1+i < len(evs) {
										if evJSON(evs[ri+1+i]) == evJSON(tw[i]) {
											evs[ri+1+i].Twin = "same"
											if stJSON(evs[ri+1+i]) != stJSON(tw[i]) {
												structOnlyDiffs++
											}
										} else {
											evs[ri+1+i].Twin = "diff"
										}
									}
								}
							}
						}
						t.add(sc, evs)
					}
					seqs(wSuffixAlphabet, 2, func(sfx []wop) { runSfx(sfx, false) })
					// the extension attached again after the reset, from the caller's same list, when the
					// history had attached it before (always run)
					if rs.Name != "ResetOp" {
						for _, o := range h {
							if o.Name == "SetExt" {
								runSfx([]wop{{"SetExt", "1", ""}, {"Write", "1", ""}}, true)
								break
							}
						}
					}
				}
			}
		})
	}
	t.finish(c)
}

// ---------------------------------------------------------------- C08: control writer

func c08w(c *ctx) {
	t := &traceSink{out: vh.NewOut(c.dir, "c08w", 60000), shapes: vh.Shapes{}, meta: &vh.Meta{Property: "C08", Tier: c.tier, Seed: c.seed,
		Rule: "control writer: every sequence of <= 4 writes over sizes {0,1,62,63,124,125,126} then Flush, then one more write and Flush, through NewControlWriter and NewControlWriterBuffer (buffer lengths around 125+header), both sides, ops ping/pong/close; distinct = (ctor, side, write sizes, outcome)"}}
	defer t.out.Close()
	sizes := []int{0, 1, 62, 63, 124, 125, 126}
	var alpha []wop
	for _, s := range sizes {
		alpha = append(alpha, wop{"CWrite", fmt.Sprint(s), ""})
	}
	type cc struct {
		ctor string
		buf  int
	}
	ctors := []cc{{"NewControlWriter", 0}, {"NewControlWriterBuffer", 125 + 6}, {"NewControlWriterBuffer", 200}, {"NewControlWriterBuffer", 125 + 2}, {"NewControlWriterBuffer", 64}}
	for _, side := range []string{"server", "client"} {
		for _, op := range []int{8, 9, 10} {
			for cti, ct := range ctors {
				for depth := 1; depth <= 4; depth++ {
					if !c.thorough && depth == 4 && (op != 9 || cti > 1) {
						continue
					}
					seqs(alpha, depth, func(ws_ []wop) {
						key := fmt.Sprintf("ctl/%s/%d/%s/%d/%s", side, op, ct.ctor, ct.buf, opsKey(ws_))
						if !vh.Only(key) {
							return
						}
						evs := runCtl(key, side, op, ct.ctor, ct.buf, ws_)
						sc := wscenario{Key: key, Ctor: ct.ctor, N: ct.buf, Side: side, Op: op}
						t.add(sc, evs)
					})
				}
			}
		}
	}
	t.finish(c)
}

func runCtl(key, side string, op int, ctor string, buflen int, writes []wop) (evs []wev) {
	d := &vh.Dest{}
	defer func() {
		if p := recover(); p != nil {
			evs = append(evs, wev{Ev: "panic", Err: fmt.Sprint(p), Out: []vh.F{}})
		}
	}()
	var cw *wsutil.ControlWriter
	mask := 0
	if side == "client" {
		mask = 4
	}
	oklimit := 125
	if ctor == "NewControlWriter" {
		cw = wsutil.NewControlWriter(d, wsState(side), ws.OpCode(op))
	} else {
		cw = wsutil.NewControlWriterBuffer(d, wsState(side), ws.OpCode(op), make([]byte, buflen))
		// documented: x header bytes are reserved, at most 125+x bytes of buf are used
		if buflen-(mask+2) < oklimit {
			oklimit = buflen - (mask + 4) // conservative: a 4-byte header reservation is also legal
			if oklimit < 0 {
				oklimit = 0
			}
		}
	}
	evs = append(evs, wev{Ev: "setup", Key: key, Kind: "ctl", Side: side, Op: op, OkLimit: oklimit, Out: []vh.F{}})
	seen := 0
	var pend []byte
	observe := func(e *wev) {
		fs, rest := vh.ParseFrames(d.Buf[seen:])
		seen = len(d.Buf) - len(rest)
		e.Rest = len(rest)
		for _, f := range fs {
			f.Lo, f.Hi = -1, -1
			if string(f.Raw) == string(pend) {
				f.Lo, f.Hi = 0, f.Len
			}
			f.Pay = []int{}
			e.Out = append(e.Out, f)
		}
	}
	total := 0
	do := func(o wop) {
		e := wev{Ev: o.Name, Out: []vh.F{}}
		if o.Name == "CWrite" {
			var k int
			fmt.Sscanf(o.Arg, "%d", &k)
			p := vh.PBytes(3, total, total+k)
			n, err := cw.Write(p)
			e.K, e.N, e.Err = k, n, werr(err)
			pend = append(pend, p[:n]...)
			total += n
			observe(&e)
		} else {
			e.Err = werr(cw.Flush())
			observe(&e)
			pend = nil
		}
		evs = append(evs, e)
	}
	for _, o := range writes {
		do(o)
	}
	do(wop{"CFlush", "", ""})
	do(wop{"CWrite", "1", ""})
	do(wop{"CFlush", "", ""})
	return evs
}

// ---------------------------------------------------------------- C13 (send side)

func c13w(c *ctx) {
	t := &traceSink{out: vh.NewOut(c.dir, "c13w", 60000), shapes: vh.Shapes{}, meta: &vh.Meta{Property: "C13", Tier: c.tier, Seed: c.seed,
		Rule: "send side: sequences of 3 messages, each compressed or not (MessageState.SetCompressed toggled at message boundaries), each written by every 2-call combination over 9 write operations that force 1..4 fragments on buffers of 6/10/126 bytes, both sides; distinct = (configuration, compressed pattern, per-call frame shape)"}}
	defer t.out.Close()
	alpha := []wop{{"Write", "1", ""}, {"Write", "a", ""}, {"Write", "a+1", ""}, {"Write", "2s+1", ""}, {"WriteThrough", "s+1", ""},
		{"ReadFrom", "a+1", "eof"}, {"ReadFrom", "2s+1", "eof/3"}, {"FlushFragment", "", ""}, {"Write", "0", ""}}
	cfgs := []wconfig{{"NewWriterBufferSize", 8, "server", 1, true, nil}, {"NewWriterBufferSize", 16, "client", 2, true, nil}, {"NewWriterSize", 126, "client", 1, true, nil}}
	n := 0
	for ci, cf := range cfgs {
		for pattern := 0; pattern < 8; pattern++ {
			seqs(alpha, 2, func(body []wop) {
				n++
				if !c.thorough && ci == 2 && n%3 != 0 {
					return
				}
				var ops []wop
				for msg := 0; msg < 3; msg++ {
					v := "0"
					if pattern&(1<<uint(msg)) != 0 {
						v = "1"
					}
					ops = append(ops, wop{"SetExt", v, ""})
					ops = append(ops, body...)
					ops = append(ops, wop{"Flush", "", ""})
				}
				sc := wscenario{Key: fmt.Sprintf("rsvw/%d/%d/%s", ci, pattern, opsKey(body)), Ctor: cf.Ctor, N: cf.N, Side: cf.Side, Op: cf.Op, Ops: ops, Ext: true}
				if vh.Only(sc.Key) {
					t.add(sc, runWriter(sc))
				}
			})
		}
	}
	// a writer that carried a compressed message is re-targeted (Reset, or the pool cycle) and used without
	// an extension: nothing it sends afterwards may carry RSV1; with ResetOp the extension stays
	for ci, cf := range []wconfig{{"NewWriterBufferSize", 8, "server", 1, true, nil}, {"NewWriterSize", 128, "client", 2, true, nil}, {"NewWriterSize", 128, "server", 1, true, nil}} {
		for _, reset := range []wop{{"Reset", "server/1", ""}, {"Reset", "client/2", ""}, {"PutGet", "client/1", ""}, {"PutGet", "server/2", ""}, {"ResetOp", "2", ""}} {
			if reset.Name == "PutGet" && ci == 0 {
				continue // (GetWriter's size is a buffer size: too small for a client-side header on the 8-byte writer)
			}
			for _, first := range []wop{{"Write", "1", ""}, {"Write", "2s+1", ""}, {"WriteThrough", "s+1", ""}} {
				for _, flushed := range []bool{true, false} {
					seqs(alpha[:5], 1, func(body []wop) {
						ops := []wop{{"SetExt", "1", ""}, first}
						if flushed {
							ops = append(ops, wop{"Flush", "", ""})
						}
						ops = append(ops, reset)
						ops = append(ops, body...)
						ops = append(ops, wop{"Flush", "", ""}, wop{"Write", "1", ""}, wop{"Flush", "", ""})
						sc := wscenario{Key: fmt.Sprintf("rsvreset/%d/%s", ci, opsKey(ops)), Ctor: cf.Ctor, N: cf.N, Side: cf.Side, Op: cf.Op, Ops: ops, Ext: true}
						if vh.Only(sc.Key) {
							t.add(sc, runWriter(sc))
						}
					})
				}
			}
		}
	}
	// one message cut into very many fragments (beyond 2^16, and, thorough, beyond 2^17): only the first
	// frame carries the message opcode and the compression bit, whatever the number of fragments
	// (too long for a TLC trace: the frames are judged here, by the same rule the monitor applies)
	for li, cfgl := range []struct {
		n     int
		side  string
		total int
	}{{1, "server", 1<<16 + 9}, {1, "client", 1<<16 + 3}, {2, "server", 1<<17 + 5}} {
		if li == 2 && !c.thorough {
			continue
		}
		key := fmt.Sprintf("rsvlong/%d/%s/%d", cfgl.n, cfgl.side, cfgl.total)
		if !vh.Only(key) {
			continue
		}
		d := &vh.Dest{}
		w := wsutil.NewWriterSize(d, wsState(cfgl.side), ws.OpBinary, cfgl.n)
		var ms wsflate.MessageState
		ms.SetCompressed(true)
		w.SetExtensions(&ms)
		msg := vh.PBytes(3, 0, cfgl.total)
		// (a write larger than the buffer goes out as one frame: the fragments come from writes of
		// at most the buffer size, with the other ways of sending a fragment in between)
		var werr1, werr2 error
		for off := 0; off < cfgl.total && werr1 == nil && werr2 == nil; {
			k := cfgl.n
			if k > cfgl.total-off {
				k = cfgl.total - off
			}
			switch {
			case off%4099 == 7 && w.Buffered() == 0:
				_, werr2 = w.WriteThrough(msg[off : off+k])
			case off%5003 == 11:
				_, werr1 = w.Write(msg[off : off+k])
				if werr1 == nil {
					werr1 = w.FlushFragment()
				}
			default:
				_, werr1 = w.Write(msg[off : off+k])
			}
			off += k
		}
		ferr := w.Flush()
		frames, rest := vh.ParseFrames(d.Buf)
		bad, got := "", []byte{}
		for i, f := range frames {
			got = append(got, f.Raw...)
			switch {
			case i == 0 && (f.Op != int(ws.OpBinary) || f.Rsv != 4):
				bad = fmt.Sprintf("first frame: op=%d rsv=%d", f.Op, f.Rsv)
			case i > 0 && (f.Op != 0 || f.Rsv != 0):
				bad = fmt.Sprintf("frame #%d: op=%d rsv=%d, want a continuation without RSV bits", i, f.Op, f.Rsv)
			case f.Fin != (i == len(frames)-1):
				bad = fmt.Sprintf("frame #%d: fin=%v", i, f.Fin)
			}
			if bad != "" {
				break
			}
		}
		if bad == "" && (werr1 != nil || werr2 != nil || ferr != nil || len(rest) != 0 || !bytes.Equal(got, msg)) {
			bad = fmt.Sprintf("errors %v %v %v, %d stray bytes, payload equal: %v", werr1, werr2, ferr, len(rest), bytes.Equal(got, msg))
		}
		if bad != "" {
			t.meta.Direct = append(t.meta.Direct, map[string]interface{}{"key": key, "what": "message of " + fmt.Sprint(len(frames)) + " fragments: " + bad})
		}
		t.traces++
	}
	t.finish(c)
}
