package main

import (
	"bufio"
	"encoding/json"
	"fmt"
	"os"

	"wsverif/vh"
)

func init() { drivers["r06"] = r06 }

// A behaviour of WsWriterImpl (real header constants) produced by TLC -simulate.
type mframe struct {
	Op     int  `json:"op"`
	Fin    bool `json:"fin"`
	Rsv    int  `json:"rsv"`
	Masked bool `json:"masked"`
	Len    int  `json:"len"`
	Lo     int  `json:"lo"`
	Hi     int  `json:"hi"`
}

type mstep struct {
	Ev         string   `json:"ev"`
	K          int      `json:"k"`
	N          int      `json:"n"`
	Err        string   `json:"err"`
	Out        []mframe `json:"out"`
	Size       int      `json:"size"`
	Total      int      `json:"total"`
	SrcErr     string   `json:"srcErr"`
	Side       string   `json:"side"`
	Op         int      `json:"op"`
	Compressed bool     `json:"compressed"`
	W          struct {
		Raw, Buf, N, Fseq   int
		Dirty, Err, Noflush bool
		Comp                bool
		Side                string
		Op                  int
	} `json:"w"`
}

type mbehaviour struct {
	Key    string  `json:"key"`
	Side   string  `json:"side"`
	Op     int     `json:"op"`
	Raw    int     `json:"raw"`
	FailAt int     `json:"failAt"`
	Steps  []mstep `json:"steps"`
}

// r06 replays TLC-generated behaviours of the implementation-level writer model
// into the real wsutil.Writer: same constructor size, same calls with the same
// arguments, same failing destination write.  After every call the event the
// model predicts (n, error class, frames, Size()) and the model's struct
// (raw, buf, n, dirty, fseq, err, noFlush) are compared with the real ones.
// A difference is model drift, not a property violation: the real trace is
// also written out and judged by the property-level monitor.
func r06(c *ctx) {
	out := vh.NewOut(c.dir, "r06", 60000)
	defer out.Close()
	rec := vh.NewOut(c.dir, "r06rec", 60000)
	defer rec.Close()
	meta := &vh.Meta{Property: "C06", Tier: c.tier, Seed: c.seed,
		Rule: "behaviours of WsWriterImpl with the real header constants drawn by TLC -simulate (15 calls each over Write/WriteThrough/ReadFrom/FlushFragment/Flush/Grow/DisableFlush/SetExt/Reset/ResetOp, 19 constructor sizes around the 125 and 65535 thresholds, destination failing at write 2 or 4) replayed call by call into the real Writer; distinct = behaviours"}
	f, err := os.Open(os.Getenv("R06_IN"))
	if err != nil {
		vh.Fatal("R06_IN: %v", err)
	}
	sc := bufio.NewScanner(f)
	sc.Buffer(make([]byte, 1<<20), 1<<26)
	n, drift, steps := 0, 0, 0
	for sc.Scan() {
		var b mbehaviour
		if json.Unmarshal(sc.Bytes(), &b) != nil || len(b.Steps) == 0 {
			continue
		}
		if !vh.Only(b.Key) {
			continue
		}
		var ops []wop
		for _, s := range b.Steps {
			switch s.Ev {
			case "Write", "WriteThrough", "Grow":
				ops = append(ops, wop{s.Ev, fmt.Sprint(s.K), ""})
			case "ReadFrom":
				aux := "eof"
				if s.SrcErr != "eof" {
					aux = "err"
				}
				ops = append(ops, wop{"ReadFrom", fmt.Sprint(s.Total), aux})
			case "FlushFragment", "Flush", "DisableFlush":
				ops = append(ops, wop{s.Ev, "", ""})
			case "SetExt":
				v := "0"
				if s.Compressed {
					v = "1"
				}
				ops = append(ops, wop{"SetExt", v, ""})
			case "Reset":
				ops = append(ops, wop{"Reset", fmt.Sprintf("%s/%d", s.Side, s.Op), ""})
			case "ResetOp":
				ops = append(ops, wop{"ResetOp", fmt.Sprint(s.Op), ""})
			default:
				vh.Fatal("unknown model event %q", s.Ev)
			}
		}
		w := wscenario{Key: b.Key, Ctor: "NewWriterBuffer", N: b.Raw, Side: b.Side, Op: b.Op, Ops: ops, FailAt: b.FailAt, NoCap: true}
		evs := runWriter(w)
		emitTrace(out, evs)
		n++
		steps += len(b.Steps)
		first, what := -1, ""
		for i, s := range b.Steps {
			if i+1 >= len(evs) {
				first, what = i, "real run ended early: "+evs[len(evs)-1].Err
				break
			}
			e := evs[i+1]
			if e.Ev == "SetExt" && i+1 < len(evs) {
				// attaching the extension is one model step
			}
			if d := diffStep(s, e); d != "" {
				first, what = i, fmt.Sprintf("%s(%d): %s", s.Ev, s.K, d)
				break
			}
		}
		if first >= 0 {
			drift++
		}
		rec.Emit(map[string]interface{}{"k": "replay", "key": b.Key, "steps": len(b.Steps), "firstDiff": first, "what": what}, true)
		if len(meta.Samples) < 2 {
			meta.Samples = append(meta.Samples, map[string]interface{}{"behaviour": b.Key, "calls": opsKey(ops), "firstDiff": first})
		}
	}
	meta.Evaluations = n
	meta.Distinct = n
	meta.Extra = map[string]interface{}{"behaviours_replayed": n, "steps_replayed": steps, "model_drift": drift}
	out.Close()
	rec.Close()
	meta.Files = map[string][]string{"traces": out.Files, "records": rec.Files}
	meta.Write(c.dir)
}

func diffStep(s mstep, e wev) string {
	if s.Ev == "DisableFlush" || s.Ev == "SetExt" || s.Ev == "ResetOp" || s.Ev == "Reset" {
		return diffState(s, e)
	}
	merr := s.Err
	if merr == "sticky" {
		merr = "transport"
	}
	if merr == "" {
		merr = "nil"
	}
	if s.N != e.N {
		return fmt.Sprintf("n: model %d real %d", s.N, e.N)
	}
	if merr != e.Err {
		return fmt.Sprintf("err: model %s real %s", merr, e.Err)
	}
	if len(s.Out) != len(e.Out) {
		return fmt.Sprintf("frames: model %d real %d", len(s.Out), len(e.Out))
	}
	for i, f := range s.Out {
		g := e.Out[i]
		if f.Op != g.Op || f.Fin != g.Fin || f.Rsv != g.Rsv || f.Masked != g.Masked || f.Len != g.Len || f.Lo != g.Lo || f.Hi != g.Hi {
			return fmt.Sprintf("frame %d: model %+v real {op:%d fin:%v rsv:%d masked:%v len:%d lo:%d hi:%d}", i, f, g.Op, g.Fin, g.Rsv, g.Masked, g.Len, g.Lo, g.Hi)
		}
	}
	return diffState(s, e)
}

func diffState(s mstep, e wev) string {
	w := s.W
	if hooksOn && (w.Raw != e.St.Raw || w.Buf != e.St.Buf || w.N != e.St.N || w.Dirty != e.St.Dirty || w.Fseq != e.St.Fseq || w.Err != e.St.Err || w.Noflush != e.St.NoFlush) {
		return fmt.Sprintf("struct: model {raw:%d buf:%d n:%d dirty:%v fseq:%d err:%v noflush:%v} real %+v", w.Raw, w.Buf, w.N, w.Dirty, w.Fseq, w.Err, w.Noflush, e.St)
	}
	return ""
}
