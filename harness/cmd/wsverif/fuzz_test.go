//go:build verif || verif_nohooks

package main

import (
	"bytes"
	"testing"

	"wsverif/vh"
)

// Native (coverage-guided) fuzzing of the decoding entry points of each input kind; used by the
// thorough tier of C15.  A crasher found here is confirmed by feeding it to the c15 driver
// (C15_INPUT), whose records are judged like all others.
func fuzzKind(f *testing.F, kind string) {
	for _, s := range c15seeds(vh.Rand(1, "fuzzseeds"))[kind] {
		if len(s) <= 1<<16 {
			f.Add(s)
		}
	}
	f.Fuzz(func(t *testing.T, in []byte) {
		if len(in) > 1<<16 {
			return
		}
		for _, e := range entries[kind] {
			src := &budgetReader{r: bytes.NewReader(in)}
			func() {
				defer func() {
					if p := recover(); p != nil {
						t.Fatalf("entry %s: %v", e.name, p)
					}
				}()
				e.f(in, src)
			}()
		}
	})
}

func FuzzFrames(f *testing.F)   { fuzzKind(f, "frames") }
func FuzzRequest(f *testing.F)  { fuzzKind(f, "request") }
func FuzzResponse(f *testing.F) { fuzzKind(f, "response") }
func FuzzOptions(f *testing.F)  { fuzzKind(f, "options") }
func FuzzDeflate(f *testing.F)  { fuzzKind(f, "deflate") }
