//go:build !verif

package main

import "github.com/gobwas/ws/wsutil"

// Built without the hook file (it does not compile against the tree under
// test, e.g. after an internal field was renamed): struct-level comparisons
// are skipped, every verdict rests on behaviour observed through the API.
const hooksOn = false

func writerState(w *wsutil.Writer) wst { return wst{} }

type readerSt struct {
	HasFrame   bool
	RawN       int64
	Fragmented bool
	OpCode     byte
}

func readerState(r *wsutil.Reader) readerSt { return readerSt{} }
