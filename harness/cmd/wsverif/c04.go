package main

import (
	"fmt"
	"math/rand"
	"strings"

	"wsverif/vh"
)

func init() {
	drivers["c04"] = c04
}

func asciiPay(n, salt int) []byte {
	p := make([]byte, n)
	for i := range p {
		p[i] = 'a' + byte((i+salt)%26)
	}
	return p
}

func closePay(n int) []byte {
	if n < 2 {
		return make([]byte, 0)
	}
	p := append([]byte{0x03, 0xe8}, asciiPay(n-2, 3)...)
	return p
}

// valid alphabets
func closedAlphabet() []fspec {
	var a []fspec
	for _, op := range []int{1, 2} {
		for _, fin := range []bool{true, false} {
			a = append(a, fspec{Op: op, Fin: fin, Pay: []byte{}})
			a = append(a, fspec{Op: op, Fin: fin, Pay: []byte("€")})
			a = append(a, fspec{Op: op, Fin: fin, Pay: asciiPay(130, op)})
		}
	}
	return append(a, controlAlphabet()...)
}

func controlAlphabet() []fspec {
	var a []fspec
	for _, op := range []int{9, 10} {
		for _, n := range []int{0, 2, 125} {
			a = append(a, fspec{Op: op, Fin: true, Pay: asciiPay(n, op)})
		}
	}
	for _, n := range []int{0, 2, 125} {
		a = append(a, fspec{Op: 8, Fin: true, Pay: closePay(n)})
	}
	return a
}

func openAlphabet() []fspec {
	var a []fspec
	for _, fin := range []bool{true, false} {
		a = append(a, fspec{Op: 0, Fin: fin, Pay: []byte{}})
		a = append(a, fspec{Op: 0, Fin: fin, Pay: []byte("€")})
		a = append(a, fspec{Op: 0, Fin: fin, Pay: asciiPay(130, 7)})
	}
	return append(a, controlAlphabet()...)
}

// validSeqs enumerates every valid frame sequence of exactly n frames and
// closes an open message with a final continuation.
func validSeqs(n int, f func([]fspec)) {
	ca, oa := closedAlphabet(), openAlphabet()
	var rec func(cur []fspec, open bool)
	rec = func(cur []fspec, open bool) {
		if len(cur) == n {
			out := append([]fspec(nil), cur...)
			if open {
				out = append(out, fspec{Op: 0, Fin: true, Pay: []byte("ok!")})
			}
			f(out)
			return
		}
		al := ca
		if open {
			al = oa
		}
		for _, x := range al {
			no := open
			if x.Op < 8 {
				no = !x.Fin
			}
			rec(append(cur, x), no)
		}
	}
	rec(nil, false)
}

func seqKey(fs []fspec) string {
	var b strings.Builder
	for _, f := range fs {
		c := 'n'
		if f.Fin {
			c = 'F'
		}
		n := len(f.Pay)
		if f.CodedN > 0 {
			n = f.CodedN
		}
		fmt.Fprintf(&b, "%x%c%d.", f.Op, c, n)
		if f.Rsv != 0 || f.Unmask != 0 {
			fmt.Fprintf(&b, "r%du%d.", f.Rsv, f.Unmask)
		}
	}
	return b.String()
}

type rvariant struct {
	Entry   string
	Want    []int
	Discard int
	Utf8    bool
}

var rvariants = []rvariant{
	{"reader", nil, -1, true}, {"reader", nil, -1, false}, {"reader", nil, 0, true}, {"reader", nil, 1, false},
	{"nextreader", nil, -1, false}, {"readmessage", nil, -1, true},
	{"readdata", []int{1, 2}, -1, true}, {"readdata", []int{1}, -1, true}, {"readdata", []int{2}, -1, true},
}

var rchunks = [][]int{nil, {1}, {2, 1, 5, 1, 3}, {7, 64}, {3}}
var rbufs = []int{4096, 64, 7, 3, 50}

func mkScenario(key, side string, v rvariant, fs []fspec, chunk []int, buf int) *rscenario {
	sc := &rscenario{Key: key, Side: side, Utf8: v.Utf8, Cut: -1, CutKind: "eof", Chunk: chunk, Entry: v.Entry, Buf: buf,
		Discard: v.Discard, Want: v.Want, Cbs: v.Entry == "reader"}
	if sc.Want == nil {
		sc.Want = []int{}
	}
	if sc.Chunk == nil {
		sc.Chunk = []int{}
	}
	if v.Entry == "readmessage" || v.Entry == "readdata" {
		sc.Utf8 = true // these helpers always check
	}
	sc.build(fs, len(key))
	sc.DataErr = len(key)%3 == 0
	return sc
}

type rsink struct {
	out            *vh.Out
	shapes         vh.Shapes
	meta           *vh.Meta
	traces, events int
}

func (t *rsink) run(sc *rscenario) {
	if !vh.Only(sc.Key) {
		return
	}
	evs := runReader(sc)
	emitAny(t.out, evs)
	t.traces++
	t.events += len(evs)
	var b strings.Builder
	for _, e := range evs[1:] {
		if r, ok := e.(rev); ok {
			fmt.Fprintf(&b, "%s:%s ", r.Ev[:2], r.Err)
		}
	}
	t.shapes.Add("%s/%s/%v/%d/%s", sc.Entry, sc.Side, sc.Want, sc.Discard, b.String())
	if len(t.meta.Samples) < 3 && t.traces%1501 == 11 {
		t.meta.Samples = append(t.meta.Samples, map[string]interface{}{"key": sc.Key, "events": evs})
	}
}

func (t *rsink) finish(c *ctx) {
	t.meta.Evaluations = t.traces
	t.meta.Distinct = len(t.shapes)
	if t.meta.Extra == nil {
		t.meta.Extra = map[string]interface{}{}
	}
	t.meta.Extra["events"] = t.events
	t.out.Close()
	t.meta.Files = map[string][]string{"traces": t.out.Files}
	t.meta.Write(c.dir)
}

func randomCodedStream(rng *rand.Rand, nframes int) []fspec {
	lens := []int{0, 1, 2, 124, 125, 126, 127, 300, 65535, 65536, 65537, 70000}
	var fs []fspec
	open := false
	for len(fs) < nframes || open {
		if rng.Intn(4) == 0 {
			ops := []int{9, 10}
			fs = append(fs, fspec{Op: ops[rng.Intn(2)], Fin: true, Pay: asciiPay([]int{0, 1, 125}[rng.Intn(3)], len(fs))})
			continue
		}
		l := lens[rng.Intn(len(lens))]
		if l > 300 && rng.Intn(3) > 0 {
			l = lens[rng.Intn(8)]
		}
		fin := rng.Intn(2) == 0 || len(fs) > nframes+6
		op := 2
		if open {
			op = 0
		}
		f := fspec{Op: op, Fin: fin, CodedN: l, Pay: []byte{}}
		fs = append(fs, f)
		open = !fin
	}
	return fs
}

func c04(c *ctx) {
	t := &rsink{out: vh.NewOut(c.dir, "c04", 40000), shapes: vh.Shapes{}, meta: &vh.Meta{Property: "C04", Tier: c.tier, Seed: c.seed,
		Rule: "traces = every RFC-valid frame sequence of 1..L frames (L=3 quick with entry/chunking/buffer rotated, thorough: L=3 crossed with all 9 entry variants and L=4 rotated) over {text,binary,continuation} x fin x len{0,3,130} and {ping,pong,close} x len{0,2,125}, both sides, entries Reader (with/without UTF-8, Discard at 0/1), NextReader, ReadMessage, ReadData/Text/Binary, transport chunkings {whole,1,mixed,7/64,3}, caller buffers {4096,64,7,3,50}; plus seeded random position-coded streams of 5-40 frames with lengths across 125/126 and 65535/65536; distinct = (entry, side, per-call outcome sequence)"}}
	defer t.out.Close()
	rng := vh.Rand(c.seed, "c04")
	rot := 0
	maxL := 3
	for L := 1; L <= maxL; L++ {
		validSeqs(L, func(fs []fspec) {
			for _, side := range []string{"server", "client"} {
				if c.thorough || L < 3 {
					for vi, v := range rvariants {
						rot++
						if !c.thorough && L == 2 && rot%3 != 0 {
							continue
						}
						key := fmt.Sprintf("valid/%s/%d/%s", side, vi, seqKey(fs))
						t.run(mkScenario(key, side, v, fs, rchunks[rot%len(rchunks)], rbufs[(rot/5)%len(rbufs)]))
					}
				} else {
					rot++
					if rot%2 == 0 {
						continue
					}
					vi := (rot / 2) % len(rvariants)
					key := fmt.Sprintf("valid/%s/%d/%s", side, vi, seqKey(fs))
					t.run(mkScenario(key, side, rvariants[vi], fs, rchunks[rot%len(rchunks)], rbufs[(rot/5)%len(rbufs)]))
				}
			}
		})
	}
	if c.thorough {
		validSeqs(4, func(fs []fspec) {
			rot++
			if rot%4 != 0 {
				return
			}
			side := []string{"server", "client"}[rot%2]
			vi := (rot / 2) % len(rvariants)
			key := fmt.Sprintf("valid/%s/%d/%s", side, vi, seqKey(fs))
			t.run(mkScenario(key, side, rvariants[vi], fs, rchunks[rot%len(rchunks)], rbufs[(rot/5)%len(rbufs)]))
		})
	}
	nr := 60
	if c.thorough {
		nr = 1500
	}
	for i := 0; i < nr; i++ {
		fs := randomCodedStream(rng, 5+rng.Intn(36))
		side := []string{"server", "client"}[i%2]
		vs := []rvariant{{"reader", nil, -1, false}, {"reader", nil, 2, false}, {"nextreader", nil, -1, false}, {"readdata", []int{1, 2}, -1, false}, {"readdata", []int{2}, -1, false}}
		v := vs[i%len(vs)]
		key := fmt.Sprintf("coded/%d", i)
		sc := &rscenario{Key: key, Side: side, Coded: true, Cut: -1, CutKind: "eof", Entry: v.Entry, Discard: v.Discard, Want: v.Want,
			Cbs: v.Entry == "reader", Chunk: [][]int{{}, {4096}, {1000, 1, 70000}, {13}}[i%4], Buf: []int{4096, 65536, 100, 1 << 17}[i%4]}
		if sc.Want == nil {
			sc.Want = []int{}
		}
		sc.build(fs, i)
		t.run(sc)
	}
	// frames of a mebibyte and more, handed over by the transport in one piece and read into one
	// large buffer (the pre-allocating ReadMessage path) as well as in pieces
	for bi, big := range []int{1<<20 - 1, 1 << 20, 1<<20 + 17, 1<<21 + 5} {
		for vi, v := range []rvariant{{"reader", nil, -1, false}, {"readmessage", nil, -1, true}, {"readdata", []int{1, 2}, -1, true}} {
			side := []string{"server", "client"}[(bi+vi)%2]
			if big >= 1<<20 && big < 1<<21 {
				side = "server"
			}
			fs := []fspec{{Op: 2, Fin: bi%2 == 0, CodedN: big, Pay: []byte{}}}
			if bi%2 == 1 {
				fs = append(fs, fspec{Op: 0, Fin: true, CodedN: 33, Pay: []byte{}})
			}
			fs = append(fs, fspec{Op: 2, Fin: true, CodedN: 9, Pay: []byte{}})
			key := fmt.Sprintf("bigframe/%d/%s/%s", big, v.Entry, side)
			sc := &rscenario{Key: key, Side: side, Coded: true, Cut: -1, CutKind: "eof", Entry: v.Entry, Discard: v.Discard, Want: v.Want,
				Cbs: v.Entry == "reader", Chunk: [][]int{{}, {1 << 22}, {1 << 20, 5}}[(bi+vi)%3], Buf: []int{1 << 22, 1 << 20, 1<<20 + 64}[vi]}
			if sc.Want == nil {
				sc.Want = []int{}
			}
			sc.build(fs, 1000+bi)
			t.run(sc)
		}
	}
	// OnIntermediate callbacks that look at the header only, or take one short Read of the control
	// payload: what they leave unread is the reader's to drop before the next frame
	for mi, m := range [][]fspec{
		{{Op: 1, Fin: false, Pay: []byte("hel")}, {Op: 9, Fin: true, Pay: []byte("ping-payload")}, {Op: 0, Fin: true, Pay: []byte("lo")}},
		{{Op: 2, Fin: false, Pay: []byte{1, 2}}, {Op: 10, Fin: true, Pay: asciiPay(125, 1)}, {Op: 0, Fin: false, Pay: []byte{}}, {Op: 9, Fin: true, Pay: []byte("x")}, {Op: 0, Fin: true, Pay: []byte{3}}},
		{{Op: 1, Fin: false, Pay: []byte{}}, {Op: 9, Fin: true, Pay: []byte{}}, {Op: 9, Fin: true, Pay: []byte("ab")}, {Op: 0, Fin: true, Pay: []byte("z")}},
	} {
		for _, cbRead := range []int{-1, 1, 5, 200} {
			for _, side := range []string{"server", "client"} {
				for ci := range rchunks {
					for _, disc := range []int{-1, 0} {
						fs := append(append([]fspec(nil), m...), fspec{Op: 2, Fin: true, Pay: []byte("next")})
						key := fmt.Sprintf("cbread/%d/%d/%s/%d/%d", mi, cbRead, side, ci, disc)
						sc := mkScenario(key, side, rvariant{"reader", nil, disc, false}, fs, rchunks[ci], rbufs[(mi+ci)%len(rbufs)])
						sc.CbRead = cbRead
						t.run(sc)
					}
				}
			}
		}
	}
	// long runs of frames that carry no message bytes (empty fragments, control frames) inside a message
	for ri, run := range []int{99, 100, 101, 160} {
		for mode := 0; mode < 3; mode++ {
			for vi, v := range []rvariant{{"reader", nil, -1, false}, {"readmessage", nil, -1, true}, {"readdata", []int{1, 2}, -1, true}, {"nextreader", nil, -1, false}} {
				side := []string{"server", "client"}[(ri+mode+vi)%2]
				fs := []fspec{{Op: 1, Fin: false, Pay: []byte("head-")}}
				for i := 0; i < run; i++ {
					switch {
					case mode == 0 || (mode == 2 && i%2 == 0):
						fs = append(fs, fspec{Op: 0, Fin: false, Pay: []byte{}})
					default:
						fs = append(fs, fspec{Op: 10, Fin: true, Pay: []byte{}})
					}
				}
				fs = append(fs, fspec{Op: 0, Fin: true, Pay: []byte("tail")}, fspec{Op: 2, Fin: true, Pay: []byte("next")})
				key := fmt.Sprintf("emptyrun/%d/%d/%s/%s", run, mode, v.Entry, side)
				t.run(mkScenario(key, side, v, fs, rchunks[(ri+vi)%len(rchunks)], rbufs[(ri+mode)%len(rbufs)]))
			}
		}
	}
	// after a message ends - also one that was given up half-way, inside a multi-byte sequence - the
	// reader is ready for the next one (sampled from the family C18 runs in full)
	reuseFamily(t, c, "ready", func(rot, disc int) bool { return c.thorough && rot%3 == 0 || rot%5 == 2 })
	t.finish(c)
}
