package main

import (
	"bufio"
	"bytes"
	"crypto/sha1"
	"fmt"
	"io"
	"net/http"
	"net/url"
	"os"
	"runtime"
	"runtime/debug"
	"strings"

	"github.com/gobwas/httphead"
	"github.com/gobwas/pool/pbufio"
	"github.com/gobwas/pool/pbytes"
	"github.com/gobwas/ws"
	"github.com/gobwas/ws/wsflate"
	"github.com/gobwas/ws/wsutil"
	"wsverif/vh"
)

func init() { drivers["c17"] = c17 }

type pev struct {
	Ev      string `json:"ev"`
	Key     string `json:"key,omitempty"`
	ID      string `json:"id"`
	Digest  string `json:"digest"`
	Objects int    `json:"objects"`
	Op      string `json:"op"`
	Same    bool   `json:"same"`
}

func dg(parts ...string) string {
	h := sha1.Sum([]byte(strings.Join(parts, "\x00")))
	return fmt.Sprintf("%x:%d", h[:8], len(strings.Join(parts, "")))
}

// recycle pulls objects of every size class out of the library's pools,
// overwrites their memory with a pattern and puts them back.
func recycle(round int) int {
	n := 0
	pat := byte(0xA0 + round%32)
	fill := bytes.Repeat([]byte{pat, '~', 0xff, '\n'}, 1<<15)
	for rep := 0; rep < 3; rep++ {
		var brs []*bufio.Reader
		var bws []*bufio.Writer
		var bps [][]byte
		for sz := 16; sz <= 1<<16; sz <<= 1 {
			for k := 0; k < 3; k++ {
				br := pbufio.GetReader(bytes.NewReader(fill), sz)
				br.Peek(br.Size())
				bw := pbufio.GetWriter(io.Discard, sz)
				bw.Write(fill[:bw.Size()-1])
				bp := pbytes.GetLen(sz)
				copy(bp, fill)
				brs, bws, bps = append(brs, br), append(bws, bw), append(bps, bp)
				n += 3
			}
		}
		for i := range brs {
			pbufio.PutReader(brs[i])
			pbufio.PutWriter(bws[i])
			pbytes.Put(bps[i])
		}
		for _, sz := range []int{128, 4096, 65536} {
			w := wsutil.GetWriter(io.Discard, ws.StateClientSide, ws.OpText, sz)
			w.Write(fill[:sz/2])
			w.Flush()
			wsutil.PutWriter(w)
			n++
		}
	}
	return n
}

func bufioNewReader(r io.Reader) *bufio.Reader { return bufio.NewReader(r) }

type writerFunc func([]byte) (int, error)

func (f writerFunc) Write(p []byte) (int, error) { return f(p) }

func c17(c *ctx) {
	runtime.GOMAXPROCS(1)
	debug.SetGCPercent(-1) // sync.Pool must hand the same objects back
	out := vh.NewOut(c.dir, "c17", 50000)
	defer out.Close()
	shapes := vh.Shapes{}
	meta := &vh.Meta{Property: "C17", Tier: c.tier, Seed: c.seed,
		Rule: "traces = a handshake through each library-owned selection path (Upgrader Protocol / Extension / Negotiate with wsflate and a table negotiator, HTTPUpgrader Protocol / Extension / Negotiate, Dialer protocols and extensions with parameters), close reasons from HandleClose, payloads from ReadMessage / ReadData, each followed by R rounds of {recycle every size class of pbufio/pbytes/writer pools with a pattern, run the same operation again with different contents of equal length, re-read every earlier result}; write side: WriteMessage / Writer.Write / WriteThrough / WriteFrame on both sides, CipherWriter, MaskFrame/MaskFrameWith/UnmaskFrame with payload sizes across the pool classes; distinct = (path, payload size class)"}
	n := 0
	rounds := 3
	if c.thorough {
		rounds = 8
	}
	type result struct {
		id  string
		get func() string
	}
	trace := func(key string, op func(round int) []result) {
		if !vh.Only(key) {
			return
		}
		evs := []pev{{Ev: "setup", Key: key}}
		var all []result
		for r := 0; r < rounds; r++ {
			rs := op(r)
			for i := range rs {
				rs[i].id = fmt.Sprintf("%d/%s", r, rs[i].id)
				evs = append(evs, pev{Ev: "Result", ID: rs[i].id, Digest: rs[i].get()})
			}
			all = append(all, rs...)
			evs = append(evs, pev{Ev: "Recycle", Objects: recycle(r)})
			for _, x := range all {
				evs = append(evs, pev{Ev: "Recheck", ID: x.id, Digest: x.get()})
			}
		}
		for i, e := range evs {
			out.Emit(e, i == 0)
		}
		n++
		shapes.Add(key)
		if len(meta.Samples) < 2 {
			meta.Samples = append(meta.Samples, evs[:8])
		}
	}
	hsResults := func(hs *ws.Handshake) []result {
		return []result{{"hs", func() string {
			parts := []string{hs.Protocol}
			for _, e := range hs.Extensions {
				parts = append(parts, extString(e))
			}
			return dg(parts...)
		}}}
	}
	form := 0 // shape of the offer: where the selected token sits in its header value
	mkReq := func(r int) []byte {
		tag := string(rune('a' + r%26))
		proto := "proto-" + tag + tag
		ext := "ext-" + tag + "; param-" + tag + "=value-" + tag + tag + tag
		pmd := "permessage-deflate; client_max_window_bits=1" + fmt.Sprint(r%6)
		var pl, el string
		switch form {
		case 0:
			pl = "Sec-WebSocket-Protocol: " + proto + ", other\r\n"
			el = "Sec-WebSocket-Extensions: " + ext + ", " + pmd + "\r\n"
		case 1: // the selected token is the whole header value
			pl = "Sec-WebSocket-Protocol: " + proto + "\r\n"
			el = "Sec-WebSocket-Extensions: " + ext + "\r\nSec-WebSocket-Extensions: " + pmd + "\r\n"
		default: // the selected token comes last
			pl = "Sec-WebSocket-Protocol: other, " + proto + "\r\n"
			el = "Sec-WebSocket-Extensions: " + pmd + ", " + ext + "\r\n"
		}
		return []byte("GET /x HTTP/1.1\r\nHost: h\r\nUpgrade: websocket\r\nConnection: Upgrade\r\nSec-WebSocket-Version: 13\r\nSec-WebSocket-Key: dGhlIHNhbXBsZSBub25jZQ==\r\n" +
			pl + el + "X-Pad: " + strings.Repeat(tag, 100) + "\r\n\r\n")
	}
	up := func(mk func() ws.Upgrader) func(int) []result {
		return func(r int) []result {
			u := mk()
			rw := &rwBuf{r: bytes.NewReader(mkReq(r))}
			hs, err := u.Upgrade(rw)
			if err != nil {
				vh.Fatal("c17 upgrade: %v", err)
			}
			return hsResults(&hs)
		}
	}
	for form = 0; form < 3; form++ {
		trace(fmt.Sprintf("srv/Protocol/%d", form), up(func() ws.Upgrader {
			return ws.Upgrader{Protocol: func(p []byte) bool { return strings.HasPrefix(string(p), "proto-") }}
		}))
		trace(fmt.Sprintf("srv/Extension/%d", form), up(func() ws.Upgrader {
			return ws.Upgrader{Extension: func(o httphead.Option) bool { return strings.HasPrefix(string(o.Name), "ext-") }}
		}))
		// every offered extension is accepted (several header lines in form 1: options from each of them)
		trace(fmt.Sprintf("srv/ExtensionAll/%d", form), up(func() ws.Upgrader {
			return ws.Upgrader{Extension: func(o httphead.Option) bool { return true }}
		}))
		trace(fmt.Sprintf("srv/NegotiateDeflate/%d", form), up(func() ws.Upgrader {
			e := &wsflate.Extension{Parameters: wsflate.Parameters{ClientMaxWindowBits: 10, ServerNoContextTakeover: true}}
			return ws.Upgrader{Negotiate: e.Negotiate, Protocol: func(p []byte) bool { return true }}
		}))
		trace(fmt.Sprintf("srv/AcceptedParams/%d", form), func(r int) []result {
			e := &wsflate.Extension{Parameters: wsflate.Parameters{ClientMaxWindowBits: 10}}
			u := ws.Upgrader{Negotiate: e.Negotiate}
			rw := &rwBuf{r: bytes.NewReader(mkReq(r))}
			if _, err := u.Upgrade(rw); err != nil {
				vh.Fatal("c17: %v", err)
			}
			return []result{{"accepted", func() string { p, ok := e.Accepted(); return dg(fmt.Sprint(p, ok)) }}}
		})
	}
	form = 0
	// an offer that equals the server's configuration to the letter (the negotiator could be tempted to
	// hand the incoming option back), with and without further parameters
	for pi, prm := range []wsflate.Parameters{wsflate.DefaultParameters, {ServerMaxWindowBits: 10, ClientMaxWindowBits: 12}, {ClientNoContextTakeover: true, ServerMaxWindowBits: 15}} {
		prm := prm
		trace(fmt.Sprintf("srv/NegotiateExact/%d", pi), func(r int) []result {
			tag := string(rune('a' + r%26))
			o := prm.Option()
			var ob bytes.Buffer
			httphead.WriteOptions(&ob, []httphead.Option{o})
			req := "GET /x HTTP/1.1\r\nHost: h\r\nUpgrade: websocket\r\nConnection: Upgrade\r\nSec-WebSocket-Version: 13\r\nSec-WebSocket-Key: dGhlIHNhbXBsZSBub25jZQ==\r\n" +
				"X-Pre: " + strings.Repeat(tag, r*3) + "\r\nSec-WebSocket-Extensions: " + ob.String() + "\r\nX-Pad: " + strings.Repeat(tag, 100) + "\r\n\r\n"
			e := &wsflate.Extension{Parameters: prm}
			u := ws.Upgrader{Negotiate: e.Negotiate}
			hs, err := u.Upgrade(&rwBuf{r: strings.NewReader(req)})
			if err != nil || len(hs.Extensions) != 1 {
				vh.Fatal("c17 exact offer %d: %v %d", pi, err, len(hs.Extensions))
			}
			return hsResults(&hs)
		})
	}
	httpUp := func(mk func() ws.HTTPUpgrader) func(int) []result {
		return func(r int) []result {
			req, err := http.ReadRequest(bufioNewReader(bytes.NewReader(mkReq(r))))
			if err != nil {
				vh.Fatal("c17 http: %v", err)
			}
			conn := &memConn{r: bytes.NewReader(nil)}
			_, _, hs, err := mk().Upgrade(req, &hijackRW{conn: conn, hdr: http.Header{}})
			if err != nil {
				vh.Fatal("c17 httpupgrade: %v", err)
			}
			return hsResults(&hs)
		}
	}
	trace("http/Protocol", httpUp(func() ws.HTTPUpgrader {
		return ws.HTTPUpgrader{Protocol: func(p string) bool { return strings.HasPrefix(p, "proto-") }}
	}))
	trace("http/Extension", httpUp(func() ws.HTTPUpgrader {
		return ws.HTTPUpgrader{Extension: func(o httphead.Option) bool { return strings.HasPrefix(string(o.Name), "ext-") }}
	}))
	trace("http/Negotiate", httpUp(func() ws.HTTPUpgrader {
		e := &wsflate.Extension{Parameters: wsflate.Parameters{ClientMaxWindowBits: 10}}
		return ws.HTTPUpgrader{Negotiate: e.Negotiate}
	}))
	trace("dialer", func(r int) []result {
		tag := string(rune('a' + r%26))
		o := httphead.Option{Name: []byte("ext-" + tag)}
		o.Parameters.Set([]byte("offered"), []byte("yes"))
		d := ws.Dialer{Protocols: []string{"proto-" + tag + tag, "other"}, Extensions: []httphead.Option{o}}
		pc := &peerConn{}
		pc.build = func(k string) []byte {
			return []byte("HTTP/1.1 101 Switching Protocols\r\nUpgrade: websocket\r\nConnection: Upgrade\r\nSec-WebSocket-Accept: " + acceptFor(k) +
				"\r\nSec-WebSocket-Protocol: proto-" + tag + tag + "\r\nSec-WebSocket-Extensions: ext-" + tag + "; srv-" + tag + "=val-" + tag + tag + "\r\nX-Pad: " + strings.Repeat(tag, 90) + "\r\n\r\n")
		}
		uu, _ := url.Parse("ws://h/x")
		_, hs, err := d.Upgrade(pc, uu)
		if err != nil {
			vh.Fatal("c17 dial: %v", err)
		}
		return hsResults(&hs)
	})
	// responses that spell the chosen subprotocol / extension differently from the offer (another
	// letter case, blanks around it, the second offer, a quoted parameter): whatever the dialer
	// makes of them - an error or a result - stays what it was
	for _, form := range []string{"upper", "title", "blanks", "second", "extupper", "quoted", "nopad"} {
		form := form
		trace("dialer/"+form, func(r int) []result {
			tag := string(rune('a' + r%26))
			o := httphead.Option{Name: []byte("ext-" + tag)}
			o.Parameters.Set([]byte("offered"), []byte("yes"))
			d := ws.Dialer{Protocols: []string{"proto-" + tag + tag, "other"}, Extensions: []httphead.Option{o}}
			proto, ext, pad := "proto-"+tag+tag, "ext-"+tag+"; srv-"+tag+"=val-"+tag+tag, "\r\nX-Pad: "+strings.Repeat(tag, 90)
			switch form {
			case "upper":
				proto = strings.ToUpper(proto)
			case "title":
				proto = "P" + proto[1:]
			case "blanks":
				proto = "  " + proto + " \t"
			case "second":
				proto = "other"
			case "extupper":
				ext = strings.ToUpper(ext)
			case "quoted":
				ext = "ext-" + tag + "; srv-" + tag + "=\"val-" + tag + tag + "\""
			case "nopad":
				proto, pad = "Proto-"+tag+tag, ""
			}
			pc := &peerConn{}
			pc.build = func(k string) []byte {
				return []byte("HTTP/1.1 101 Switching Protocols\r\nUpgrade: websocket\r\nConnection: Upgrade\r\nSec-WebSocket-Accept: " + acceptFor(k) +
					"\r\nSec-WebSocket-Extensions: " + ext + "\r\nSec-WebSocket-Protocol: " + proto + pad + "\r\n\r\n")
			}
			uu, _ := url.Parse("ws://h/x")
			_, hs, err := d.Upgrade(pc, uu)
			if err != nil {
				cls := vh.ErrClass(err)
				return []result{{"err", func() string { return "error:" + cls }}}
			}
			return hsResults(&hs)
		})
	}
	for _, sz := range []int{2, 30, 123} {
		sz := sz
		trace(fmt.Sprintf("close/%d", sz), func(r int) []result {
			reason := strings.Repeat(string(rune('A'+r%26)), sz)
			pay := append([]byte{0x03, 0xe8}, reason...)
			var rs []result
			for _, side := range []string{"server", "client"} {
				err := wsutil.ControlHandler{Src: bytes.NewReader(pay), Dst: io.Discard, State: wsState(side), DisableSrcCiphering: true}.Handle(
					ws.Header{Fin: true, OpCode: ws.OpClose, Length: int64(len(pay))})
				ce, ok := err.(wsutil.ClosedError)
				if !ok {
					vh.Fatal("c17 close: %v", err)
				}
				rs = append(rs, result{"reason/" + side, func() string { return dg(ce.Reason, fmt.Sprint(ce.Code)) }})
			}
			return rs
		})
	}
	type pshape struct {
		sz    int
		whole bool
	}
	var pshapes []pshape
	for _, sz := range []int{0, 5, 126, 4096, 70000} {
		pshapes = append(pshapes, pshape{sz, false})
	}
	// payloads whose size is exactly a class of the byte pool (and its neighbours), in a single frame
	for _, sz := range []int{64, 128, 256, 511, 512, 513, 1024, 2048, 4096, 32768, 65536} {
		pshapes = append(pshapes, pshape{sz, true})
	}
	for _, ps := range pshapes {
		sz, whole := ps.sz, ps.whole
		trace(fmt.Sprintf("readmessage/%d/%v", sz, whole), func(r int) []result {
			body := vh.PBytes(r+1, 0, sz)
			stream := append(vh.BuildFrame(2, false, 0, true, [4]byte{1, 2, 3, 4}, body[:sz/2]), vh.BuildFrame(9, true, 0, true, [4]byte{5, 6, 7, 8}, []byte("ping-"+fmt.Sprint(r)))...)
			stream = append(stream, vh.BuildFrame(0, true, 0, true, [4]byte{9, 9, 9, 9}, body[sz/2:])...)
			if whole {
				stream = vh.BuildFrame(2, true, 0, true, [4]byte{1, 2, 3, 4}, body)
			}
			msgs, err := wsutil.ReadMessage(bytes.NewReader(stream), ws.StateServerSide, nil)
			if err != nil {
				vh.Fatal("c17 readmessage: %v", err)
			}
			p, _, err := wsutil.ReadData(duplex{bytes.NewReader(stream), &vh.Dest{}}, ws.StateServerSide)
			if err != nil {
				vh.Fatal("c17 readdata: %v", err)
			}
			return []result{{"msgs", func() string {
				parts := []string{}
				for _, m := range msgs {
					parts = append(parts, string(m.Payload))
				}
				return dg(parts...)
			}}, {"data", func() string { return dg(string(p)) }}}
		})
	}
	// a read loop that recycles its message slice (ms[:0], as example/autobahn does) while the payloads
	// of earlier rounds are kept elsewhere: later, shorter or equally long messages must not land in them
	for _, sz := range []int{5, 64, 300, 4096} {
		for _, client := range []bool{false, true} {
			sz, client := sz, client
			var ms []wsutil.Message
			trace(fmt.Sprintf("readmessage-recycled/%d/%v", sz, client), func(r int) []result {
				n := sz - r%3 // (never longer than the first one)
				body := vh.PBytes(r+11, 0, n)
				// (ReadMessage returns after one top-level frame: a single unfragmented data frame, or - every
				// third round - a ping whose payload differs from round to round)
				stream := vh.BuildFrame(2, true, 0, !client, [4]byte{1, 2, 3, 4}, body)
				if r%3 == 2 {
					stream = vh.BuildFrame(9, true, 0, !client, [4]byte{5, 6, 7, 8}, body[:n%100])
				}
				var err error
				switch {
				case client:
					ms, err = wsutil.ReadServerMessage(bytes.NewReader(stream), ms[:0])
				case r%2 == 0:
					ms, err = wsutil.ReadClientMessage(bytes.NewReader(stream), ms[:0])
				default:
					ms, err = wsutil.ReadMessage(bytes.NewReader(stream), ws.StateServerSide, ms[:0])
				}
				if err != nil {
					vh.Fatal("c17 readmessage-recycled: %v", err)
				}
				kept := append([]wsutil.Message(nil), ms...) // the Message values: their Payload slices are the library's
				return []result{{"kept", func() string {
					parts := []string{}
					for _, m := range kept {
						parts = append(parts, string(m.Payload))
					}
					return dg(parts...)
				}}}
			})
		}
	}
	// ---- write side: caller slices untouched, destination bytes independent of the caller's slice
	writeCase := func(key, op string, sz int, f func(p []byte, dst io.Writer)) {
		if !vh.Only(key) && !strings.HasPrefix(os.Getenv("VERIF_ONLY"), key+"/fail") {
			return
		}
		p := vh.PBytes(3, 0, sz)
		keep := append([]byte(nil), p...)
		// the destination looks at the caller's slice while the write is in progress, and
		// (in the failing variants) refuses its n-th write
		for _, failAt := range []int{0, 1, 2} {
			during := true
			calls := 0
			var sink bytes.Buffer
			f(p, writerFunc(func(b []byte) (int, error) {
				calls++
				if !bytes.Equal(p, keep) {
					during = false
				}
				if failAt > 0 && calls >= failAt {
					return 0, vh.ErrInjected
				}
				return sink.Write(b)
			}))
			ok := during && bytes.Equal(p, keep)
			out.Emit(pev{Ev: "setup", Key: fmt.Sprintf("%s/fail%d", key, failAt)}, true)
			out.Emit(pev{Ev: "Caller", Op: op, Same: ok}, false)
			n++
			copy(p, keep)
		}
		var dst bytes.Buffer
		f(p, &dst)
		same := bytes.Equal(p, keep)
		// the caller still owns its slice: pooled buffers of every size class are recycled and overwritten
		// while it holds on to it
		recycle(2)
		recycle(3)
		same = same && bytes.Equal(p, keep)
		sent := append([]byte(nil), dst.Bytes()...)
		for i := range p {
			p[i] = 0xEE // the caller reuses its slice
		}
		recycle(1)
		out.Emit(pev{Ev: "setup", Key: key}, true)
		out.Emit(pev{Ev: "Caller", Op: op, Same: same}, false)
		out.Emit(pev{Ev: "Dest", Op: op, Same: bytes.Equal(sent, dst.Bytes())}, false)
		n++
		shapes.Add("%s/%d", op, sz)
	}
	for _, sz := range []int{0, 1, 7, 8, 125, 126, 128, 256, 512, 1024, 4096, 32768, 65536, 70000} {
		sz := sz
		writeCase(fmt.Sprintf("write/WriteServerMessage/%d", sz), "WriteServerMessage", sz, func(p []byte, d io.Writer) {
			wsutil.WriteServerMessage(d, ws.OpBinary, p)
		})
		writeCase(fmt.Sprintf("write/Writer.Write.server/%d", sz), "Writer.Write.server", sz, func(p []byte, d io.Writer) {
			w := wsutil.NewWriterSize(d, ws.StateServerSide, ws.OpBinary, 100)
			w.Write(p)
			w.Flush()
		})
		writeCase(fmt.Sprintf("write/WriteThrough.server/%d", sz), "WriteThrough.server", sz, func(p []byte, d io.Writer) {
			w := wsutil.NewWriter(d, ws.StateServerSide, ws.OpBinary)
			w.WriteThrough(p)
			w.Flush()
		})
		writeCase(fmt.Sprintf("write/WriteFrame.server/%d", sz), "WriteFrame.server", sz, func(p []byte, d io.Writer) {
			ws.WriteFrame(d, ws.NewBinaryFrame(p))
		})
		writeCase(fmt.Sprintf("write/WriteMessage/%d", sz), "WriteMessage", sz, func(p []byte, d io.Writer) {
			wsutil.WriteClientMessage(d, ws.OpBinary, p)
		})
		writeCase(fmt.Sprintf("write/WriteClientText/%d", sz), "WriteClientText", sz, func(p []byte, d io.Writer) { wsutil.WriteClientText(d, p) })
		writeCase(fmt.Sprintf("write/WriteServerBinary/%d", sz), "WriteServerBinary", sz, func(p []byte, d io.Writer) { wsutil.WriteServerBinary(d, p) })
		writeCase(fmt.Sprintf("write/Writer.Write/%d", sz), "Writer.Write", sz, func(p []byte, d io.Writer) {
			w := wsutil.NewWriterSize(d, ws.StateClientSide, ws.OpBinary, 100)
			w.Write(p)
			w.Flush()
		})
		writeCase(fmt.Sprintf("write/WriteThrough/%d", sz), "WriteThrough", sz, func(p []byte, d io.Writer) {
			w := wsutil.NewWriter(d, ws.StateClientSide, ws.OpBinary)
			w.WriteThrough(p)
			w.Flush()
		})
		writeCase(fmt.Sprintf("write/CipherWriter/%d", sz), "CipherWriter", sz, func(p []byte, d io.Writer) {
			wsutil.NewCipherWriter(d, [4]byte{1, 2, 3, 4}).Write(p)
		})
		writeCase(fmt.Sprintf("write/MaskFrame/%d", sz), "MaskFrame", sz, func(p []byte, d io.Writer) {
			f := ws.MaskFrame(ws.NewBinaryFrame(p))
			ws.WriteFrame(d, f)
		})
		writeCase(fmt.Sprintf("write/MaskFrameWith/%d", sz), "MaskFrameWith", sz, func(p []byte, d io.Writer) {
			f := ws.MaskFrameWith(ws.NewBinaryFrame(p), [4]byte{9, 8, 7, 6})
			ws.WriteFrame(d, f)
		})
		// (a frame that is not masked: the copying variants copy all the same - what the caller does to the
		// returned payload stays its own business)
		writeCase(fmt.Sprintf("write/UnmaskFrame.plain/%d", sz), "UnmaskFrame.plain", sz, func(p []byte, d io.Writer) {
			g := ws.UnmaskFrame(ws.NewBinaryFrame(p))
			for i := range g.Payload {
				g.Payload[i] ^= 0x5a
			}
			d.Write(g.Payload)
		})
		writeCase(fmt.Sprintf("write/MaskFrame.masked/%d", sz), "MaskFrame.masked", sz, func(p []byte, d io.Writer) {
			f := ws.NewBinaryFrame(p)
			f.Header.Masked, f.Header.Mask = true, [4]byte{0, 0, 0, 0}
			g := ws.MaskFrameWith(f, [4]byte{1, 1, 1, 1})
			for i := range g.Payload {
				g.Payload[i] ^= 0x33
			}
			d.Write(g.Payload)
		})
		writeCase(fmt.Sprintf("write/UnmaskFrame/%d", sz), "UnmaskFrame", sz, func(p []byte, d io.Writer) {
			f := ws.NewBinaryFrame(p)
			f.Header.Masked, f.Header.Mask = true, [4]byte{4, 3, 2, 1}
			g := ws.UnmaskFrame(f)
			d.Write(g.Payload)
		})
	}
	// the masking writer as a transport layer under other write APIs, after it has served another stream and
	// been Reset: what reaches the destination is the XOR image of exactly what the upper layer wrote (the
	// upper layer takes pooled buffers of the same classes while the masking writer is at work)
	for _, sz := range []int{1, 100, 128, 200, 256, 1000, 4096, 65536, 70000} {
		for vi, variant := range []string{"WriteClientMessage", "WriteServerMessage", "Writer", "twice"} {
			key := fmt.Sprintf("write/CipherWriter.reset/%d/%s", sz, variant)
			if !vh.Only(key) {
				continue
			}
			p := vh.PBytes(5+vi, 0, sz)
			keep := append([]byte(nil), p...)
			k0, k := [4]byte{9, 9, 9, 9}, [4]byte{0x10, 0x20, 0x30, 0x40}
			var dst bytes.Buffer
			cw := wsutil.NewCipherWriter(io.Discard, k0)
			cw.Write(vh.PBytes(1, 0, sz))
			if variant == "twice" {
				cw.Reset(io.Discard, k0)
				cw.Write(vh.PBytes(2, 0, sz/2+1))
			}
			cw.Reset(&dst, k)
			switch variant {
			case "WriteServerMessage":
				wsutil.WriteServerMessage(cw, ws.OpBinary, p)
			case "Writer":
				w := wsutil.NewWriterSize(cw, ws.StateClientSide, ws.OpBinary, 128)
				w.Write(p)
				w.Flush()
			default:
				wsutil.WriteClientMessage(cw, ws.OpBinary, p)
			}
			wire := append([]byte(nil), dst.Bytes()...)
			ws.Cipher(wire, k, 0)
			fs, rest := vh.ParseFrames(wire)
			var got []byte
			for _, f := range fs {
				got = append(got, f.Raw...)
			}
			ok := len(rest) == 0 && len(fs) >= 1 && bytes.Equal(got, keep)
			out.Emit(pev{Ev: "setup", Key: key}, true)
			out.Emit(pev{Ev: "Caller", Op: "CipherWriter.reset", Same: bytes.Equal(p, keep)}, false)
			out.Emit(pev{Ev: "Dest", Op: "CipherWriter.reset", Same: ok}, false)
			n++
			shapes.Add("CipherWriter.reset/%d/%s", sz, variant)
		}
	}
	meta.Evaluations = n
	meta.Distinct = len(shapes)
	out.Close()
	meta.Files = map[string][]string{"traces": out.Files}
	meta.Write(c.dir)
}
