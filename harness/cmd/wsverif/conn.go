package main

import (
	"bytes"
	"compress/flate"
	"fmt"
	"io"
	"net"
	"net/url"
	"runtime"
	"strings"
	"sync"
	"time"

	"github.com/gobwas/httphead"
	"github.com/gobwas/ws"
	"github.com/gobwas/ws/wsflate"
	"github.com/gobwas/ws/wsutil"
	"wsverif/vh"
)

func init() { drivers["conn"] = conn }

// ---- a duplex whose two directions share one lock; every transfer is logged under it

type xfer struct {
	dir   int // 0 = client -> server, 1 = server -> client
	write bool
	n     int
}

type logDuplex struct {
	mu     sync.Mutex
	cond   *sync.Cond
	buf    [2]bytes.Buffer
	all    [2][]byte // everything ever written, per direction
	closed bool
	log    []xfer
}

type logEnd struct {
	d    *logDuplex
	out  int // direction this end writes to
	seed int
	n    int
}

func newLogDuplex() (*logDuplex, *logEnd, *logEnd) {
	d := &logDuplex{}
	d.cond = sync.NewCond(&d.mu)
	return d, &logEnd{d: d, out: 0}, &logEnd{d: d, out: 1}
}

func (e *logEnd) Write(p []byte) (int, error) {
	e.n++
	if (e.n*13+e.seed)%4 == 0 {
		runtime.Gosched()
	}
	d := e.d
	d.mu.Lock()
	defer d.mu.Unlock()
	if d.closed {
		return 0, io.ErrClosedPipe
	}
	d.buf[e.out].Write(p)
	d.all[e.out] = append(d.all[e.out], p...)
	d.log = append(d.log, xfer{e.out, true, len(p)}) // after the change, under the lock
	d.cond.Broadcast()
	return len(p), nil
}

func (e *logEnd) Read(p []byte) (int, error) {
	e.n++
	if (e.n*31+e.seed)%3 == 0 {
		runtime.Gosched()
	}
	if (e.n*17+e.seed)%11 == 0 && len(p) > 3 {
		p = p[:3]
	}
	d := e.d
	in := 1 - e.out
	d.mu.Lock()
	defer d.mu.Unlock()
	for d.buf[in].Len() == 0 && !d.closed {
		d.cond.Wait()
	}
	if d.buf[in].Len() == 0 {
		return 0, io.EOF
	}
	n, _ := d.buf[in].Read(p)
	d.log = append(d.log, xfer{in, false, n})
	return n, nil
}

func (e *logEnd) Close() error {
	e.d.mu.Lock()
	e.d.closed = true
	e.d.cond.Broadcast()
	e.d.mu.Unlock()
	return nil
}
func (e *logEnd) LocalAddr() net.Addr              { return &net.TCPAddr{} }
func (e *logEnd) RemoteAddr() net.Addr             { return &net.TCPAddr{} }
func (e *logEnd) SetDeadline(time.Time) error      { return nil }
func (e *logEnd) SetReadDeadline(time.Time) error  { return nil }
func (e *logEnd) SetWriteDeadline(time.Time) error { return nil }

// ---- frames and events

type cframe struct {
	Op   string `json:"op"`
	Fin  bool   `json:"fin"`
	Mdg  string `json:"mdg"`
	Pdg  string `json:"pdg"`
	Code int    `json:"code"`
}

type cev struct {
	Ev  string  `json:"ev"`
	Key string  `json:"key,omitempty"`
	F   *cframe `json:"f,omitempty"`
}

// frameEvents turns the transfer log into one event per frame and side (see TraceWsConn).
func frameEvents(d *logDuplex) ([]cev, error) {
	type fr struct {
		end int // offset one past the frame's last byte in its direction's stream
		f   cframe
	}
	var frames [2][]fr
	for dir := 0; dir < 2; dir++ {
		all := d.all[dir]
		h := bytes.Index(all, []byte("\r\n\r\n"))
		if h < 0 {
			return nil, fmt.Errorf("no handshake head in direction %d", dir)
		}
		pos := h + 4
		var msg []byte
		compressed := false
		open := false
		for pos < len(all) {
			hd, n, err := vh.OwnDecode(all[pos:])
			if err != nil || hd.N > uint64(len(all)-pos-n) {
				return nil, fmt.Errorf("direction %d: incomplete frame at %d", dir, pos)
			}
			p := append([]byte(nil), all[pos+n:pos+n+int(hd.N)]...)
			if hd.Masked {
				m := hd.MaskBytes()
				for i := range p {
					p[i] ^= m[i%4]
				}
			}
			f := cframe{Fin: hd.Fin}
			switch {
			case hd.Op == 1 || hd.Op == 2 || hd.Op == 0:
				f.Op = "data"
				if hd.Op == 0 {
					f.Op = "cont"
				}
				if !open {
					msg, compressed = nil, hd.Rsv&4 != 0
				}
				msg = append(msg, p...)
				open = !hd.Fin
				if hd.Fin {
					app := msg
					if compressed {
						var err error
						app, err = io.ReadAll(flate.NewReader(bytes.NewReader(append(append([]byte{}, msg...), 0, 0, 0xff, 0xff, 1, 0, 0, 0xff, 0xff))))
						if err != nil {
							app = append([]byte("undecodable:"), msg...)
						}
					}
					f.Mdg = dg(string(app))
				}
			case hd.Op == 9:
				f.Op, f.Pdg = "ping", dg(string(p))
			case hd.Op == 10:
				f.Op, f.Pdg = "pong", dg(string(p))
			case hd.Op == 8:
				f.Op = "close"
				if len(p) >= 2 {
					f.Code = int(p[0])<<8 | int(p[1])
				}
			default:
				f.Op = fmt.Sprintf("op%d", hd.Op)
			}
			pos += n + int(hd.N)
			frames[dir] = append(frames[dir], fr{pos, f})
		}
	}
	var evs []cev
	var wpos, rpos, wi, ri [2]int
	for _, x := range d.log {
		dir := x.dir
		if x.write {
			wpos[dir] += x.n
			for wi[dir] < len(frames[dir]) && frames[dir][wi[dir]].end <= wpos[dir] {
				f := frames[dir][wi[dir]].f
				evs = append(evs, cev{Ev: []string{"CSend", "SSend"}[dir], F: &f})
				wi[dir]++
			}
		} else {
			rpos[dir] += x.n
			for ri[dir] < len(frames[dir]) && frames[dir][ri[dir]].end <= rpos[dir] {
				f := frames[dir][ri[dir]].f
				evs = append(evs, cev{Ev: []string{"SRecv", "CRecv"}[dir], F: &f})
				ri[dir]++
			}
		}
	}
	return evs, nil
}

// ---- one connection: library client <-> library echo server

// connSession runs one connection; variant selects the client's programme.
func connSession(variant, id int) (*logDuplex, error) {
	d, ca, cb := newLogDuplex()
	ca.seed, cb.seed = id, id*7
	defer ca.Close()
	watchdog := time.AfterFunc(10*time.Second, func() { ca.Close() })
	defer watchdog.Stop()
	a2close := func() { ca.Close() } // unblocks the other peer
	compressed := variant%2 == 1
	tag := fmt.Sprintf("v%d", variant)
	var wg sync.WaitGroup
	var serr, cerr error
	wg.Add(2)
	go func() { // the echo server
		defer wg.Done()
		defer func() { // a panic inside the library ends this peer with an error instead of the whole driver
			if p := recover(); p != nil {
				serr = fmt.Errorf("panic: %v", p)
				a2close()
			}
		}()
		ext := wsflate.Extension{Parameters: wsflate.DefaultParameters}
		u := ws.Upgrader{Negotiate: ext.Negotiate}
		if _, serr = u.Upgrade(cb); serr != nil {
			return
		}
		for {
			var ms wsflate.MessageState
			rd := &wsutil.Reader{Source: cb, State: ws.StateServerSide | ws.StateExtended, Extensions: []wsutil.RecvExtension{&ms},
				OnIntermediate: wsutil.ControlFrameHandler(cb, ws.StateServerSide)}
			h, e := rd.NextFrame()
			if e != nil {
				serr = e
				return
			}
			if h.OpCode.IsControl() {
				e = wsutil.ControlFrameHandler(cb, ws.StateServerSide)(h, rd)
				if _, ok := e.(wsutil.ClosedError); ok {
					return
				}
				if e != nil {
					serr = e
					return
				}
				continue
			}
			var p []byte
			if ms.IsCompressed() {
				p, e = io.ReadAll(wsflate.NewReader(rd, func(r io.Reader) wsflate.Decompressor { return flate.NewReader(r) }))
			} else {
				p, e = io.ReadAll(rd)
			}
			if e != nil {
				serr = e
				return
			}
			w := wsutil.GetWriter(cb, ws.StateServerSide, h.OpCode, []int{512, 64, 4096}[variant%3])
			_, e = w.Write(p)
			if e == nil {
				e = w.Flush()
			}
			wsutil.PutWriter(w)
			if e != nil {
				serr = e
				return
			}
		}
	}()
	go func() { // the client
		defer wg.Done()
		defer func() { // a panic inside the library ends this peer with an error instead of the whole driver
			if p := recover(); p != nil {
				cerr = fmt.Errorf("panic: %v", p)
				a2close()
			}
		}()
		dl := ws.Dialer{Extensions: []httphead.Option{wsflate.DefaultParameters.Option()}}
		uu, _ := url.Parse("ws://conn.test/" + tag)
		br, hs, e := dl.Upgrade(ca, uu)
		if e != nil {
			cerr = e
			return
		}
		if br != nil {
			ws.PutReader(br)
		}
		ping := func(s string) error {
			return ws.WriteFrame(ca, ws.MaskFrameInPlace(ws.NewPingFrame([]byte(s))))
		}
		// send one message in the given pieces; a ping goes out after piece pingAfter (-1: none)
		send := func(mi int, pieces []int, pingAfter int) ([]byte, error) {
			total := 0
			for _, k := range pieces {
				total += k
			}
			msg := vh.PBytes(variant*10+mi, 0, total)
			var ms wsflate.MessageState
			ms.SetCompressed(compressed && len(hs.Extensions) > 0)
			w := wsutil.NewWriterSize(ca, ws.StateClientSide, ws.OpBinary, 4096)
			w.SetExtensions(&ms)
			var dst io.Writer = w
			var fw *wsflate.Writer
			if ms.IsCompressed() {
				fw = wsflate.NewWriter(w, func(x io.Writer) wsflate.Compressor { f, _ := flate.NewWriter(x, 1); return f })
				dst = fw
			}
			pos := 0
			for i, k := range pieces {
				if _, err := dst.Write(msg[pos : pos+k]); err != nil {
					return nil, err
				}
				pos += k
				if i < len(pieces)-1 && fw == nil { // a compressed message is flushed as a whole
					if err := w.FlushFragment(); err != nil {
						return nil, err
					}
					if i == pingAfter {
						if err := ping(fmt.Sprintf("mid-%s-%d-%d", tag, mi, i)); err != nil {
							return nil, err
						}
					}
				}
			}
			if fw != nil {
				if err := fw.Flush(); err != nil {
					return nil, err
				}
			}
			if err := w.Flush(); err != nil {
				return nil, err
			}
			return msg, nil
		}
		await := func(want []byte) error {
			p, _, err := wsutil.ReadServerData(ca)
			if err != nil {
				return err
			}
			if !bytes.Equal(p, want) {
				return fmt.Errorf("echo differs")
			}
			return nil
		}
		type step struct {
			pieces    []int
			pingAfter int
		}
		var prog []step
		pipeline := false
		switch variant / 2 % 4 {
		case 0: // message, ping, echo - one at a time
			prog = []step{{[]int{1}, -1}, {[]int{10, 100}, 0}, {[]int{0}, -1}, {[]int{3000, 2000, 1}, 1}}
		case 1: // pings between the fragments of every message, large frames
			prog = []step{{[]int{70000, 5}, 0}, {[]int{125, 126, 127}, 0}, {[]int{0, 0, 7}, 1}}
		case 2: // pipelined: everything is sent before anything is read
			pipeline = true
			prog = []step{{[]int{5}, -1}, {[]int{200, 300}, 0}, {[]int{4096}, -1}, {[]int{1, 1, 1, 1}, 2}}
		case 3: // many pings, then a single message
			prog = []step{{[]int{64, 64}, 0}}
			for i := 0; i < 5; i++ {
				if e = ping(fmt.Sprintf("burst-%s-%d", tag, i)); e != nil {
					cerr = e
					return
				}
			}
		}
		var sent [][]byte
		for mi, st := range prog {
			m, e := send(mi, st.pieces, st.pingAfter)
			if e != nil {
				cerr = e
				return
			}
			if mi%2 == 1 {
				if e = ping(fmt.Sprintf("after-%s-%d", tag, mi)); e != nil {
					cerr = e
					return
				}
			}
			if pipeline {
				sent = append(sent, m)
				continue
			}
			if e = await(m); e != nil {
				cerr = e
				return
			}
		}
		for _, m := range sent {
			if e = await(m); e != nil {
				cerr = e
				return
			}
		}
		var body []byte
		switch variant % 3 {
		case 0:
			body = ws.NewCloseFrameBody(ws.StatusNormalClosure, "bye-"+tag)
		case 1:
			body = ws.NewCloseFrameBody(ws.StatusGoingAway, strings.Repeat(tag, 30))
		}
		if e = ws.WriteFrame(ca, ws.MaskFrameInPlace(ws.NewCloseFrame(body))); e != nil {
			cerr = e
			return
		}
		for { // pongs of the last pings may still be on their way; the close is the last frame
			f, e := ws.ReadFrame(ca)
			if e != nil {
				cerr = e
				return
			}
			if f.Header.OpCode == ws.OpClose {
				return
			}
		}
	}()
	wg.Wait()
	if serr != nil || cerr != nil {
		return d, fmt.Errorf("server: %v client: %v", serr, cerr)
	}
	return d, nil
}

// conn: real connections validated against WsConn (trace validation; part of the C19 check).
func conn(c *ctx) {
	out := vh.NewOut(c.dir, "conn", 200000)
	defer out.Close()
	shapes := vh.Shapes{}
	meta := &vh.Meta{Property: "C19", Tier: c.tier, Seed: c.seed,
		Rule: "traces = one per connection: library dialer <-> library echo server (Upgrader + wsflate negotiation, wsutil.Reader with ControlFrameHandler, pooled GetWriter/PutWriter echo) over an in-memory duplex whose transfers are logged under one lock; client programmes {one message at a time with pings, pings between the fragments of messages up to 70000 bytes, everything pipelined before anything is read, ping bursts} x plain / permessage-deflate x close with reason / long reason / empty; N in {1, 4, 32} connections at once x GOMAXPROCS in {1, 2, 16} with seeded Gosched / short-read jitter; every frame event (sent / received at either end) is replayed into WsConn; distinct = (programme, N, GOMAXPROCS)"}
	n := 0
	variants := 24
	rounds := 1
	if c.thorough {
		rounds = 8
	}
	for round := 0; round < rounds; round++ {
		for _, procs := range []int{1, 2, 16} {
			for _, N := range []int{1, 4, 32} {
				runtime.GOMAXPROCS(procs)
				type res struct {
					d   *logDuplex
					err error
				}
				results := make([]res, N)
				var wg sync.WaitGroup
				for i := 0; i < N; i++ {
					wg.Add(1)
					go func(i int) {
						defer wg.Done()
						d, err := connSession((i+round*5)%variants, int(c.seed)*1000+round*100+i)
						results[i] = res{d, err}
					}(i)
				}
				wg.Wait()
				for i, r := range results {
					v := (i + round*5) % variants
					key := fmt.Sprintf("conn/%d/%d/%d/%d/v%d", round, procs, N, i, v)
					if !vh.Only(key) {
						continue
					}
					out.Emit(cev{Ev: "setup", Key: key}, true)
					evs, perr := frameEvents(r.d)
					for _, e := range evs {
						out.Emit(e, false)
					}
					if r.err != nil || perr != nil {
						out.Emit(map[string]interface{}{"ev": "failed", "err": fmt.Sprint(r.err, perr)}, false)
					} else {
						out.Emit(cev{Ev: "end"}, false)
					}
					n++
					shapes.Add("v%d/%d/%d", v, N, procs)
					if len(meta.Samples) < 1 && v == 3 {
						meta.Samples = append(meta.Samples, evs)
					}
				}
			}
		}
	}
	runtime.GOMAXPROCS(16)
	meta.Evaluations = n
	meta.Distinct = len(shapes)
	out.Close()
	meta.Files = map[string][]string{"traces": out.Files}
	meta.Write(c.dir)
}
