package main

import (
	"bufio"
	"bytes"
	"crypto/sha1"
	"encoding/base64"
	"errors"
	"fmt"
	"io"
	"math/rand"
	"net"
	"net/http"
	"strconv"
	"strings"
	"time"

	"github.com/gobwas/httphead"
	"github.com/gobwas/ws"
	"wsverif/vh"
)

// ---------------------------------------------------------------- shared handshake helpers

const wsGUID = "258EAFA5-E914-47DA-95CA-C5AB0DC85B11"

func acceptFor(key string) string {
	h := sha1.Sum([]byte(key + wsGUID))
	return base64.StdEncoding.EncodeToString(h[:])
}

// httpHead is the harness' own parser of an HTTP head (request or response).
type httpHead struct {
	Line    string
	Headers [][2]string // name (as sent), trimmed value
	Body    []byte
	OK      bool
}

func parseHead(b []byte) httpHead {
	var h httpHead
	i := bytes.Index(b, []byte("\r\n\r\n"))
	if i < 0 {
		return h
	}
	lines := strings.Split(string(b[:i]), "\r\n")
	h.Line = lines[0]
	for _, l := range lines[1:] {
		c := strings.IndexByte(l, ':')
		if c < 0 {
			return h
		}
		h.Headers = append(h.Headers, [2]string{l[:c], strings.Trim(l[c+1:], " \t")})
	}
	h.Body = b[i+4:]
	h.OK = true
	return h
}

func (h httpHead) get(name string) (vals []string) {
	for _, kv := range h.Headers {
		if strings.EqualFold(kv[0], name) {
			vals = append(vals, kv[1])
		}
	}
	return vals
}

func (h httpHead) first(name string) string {
	v := h.get(name)
	if len(v) == 0 {
		return ""
	}
	return v[0]
}

func optNames(v string) []string {
	out := []string{}
	for _, part := range strings.Split(v, ",") {
		n := strings.TrimSpace(strings.SplitN(part, ";", 2)[0])
		if n != "" {
			out = append(out, n)
		}
	}
	return out
}

// ---------------------------------------------------------------- C09 request rendering

type sreq struct {
	Method     string   `json:"method"`
	Version    string   `json:"version"`
	Host       string   `json:"host"`
	Upgrade    string   `json:"upgrade"`
	Connection string   `json:"connection"`
	WsVersion  string   `json:"wsversion"`
	Key        string   `json:"key"`
	Extra      bool     `json:"extra"`
	Protos     []string `json:"protos"`
	Exts       []string `json:"exts"`
	ExtLines   int      `json:"extLines"` // 0/1: one header line, 2: one line per extension
	VerForm    int      `json:"verForm"`  // which spelling of a "garbage" version
	// ProtoBad: the Sec-WebSocket-Protocol value violates the token-list grammar before any token the
	// selector could accept (RFC 6455 4.2.2: a handshake violating the ABNF must be refused)
	ProtoBad string `json:"protoBad"`
	// ExtBad: the Sec-WebSocket-Extensions value, verbatim, breaks the list grammar (maybe after
	// well-formed items); Exts is then empty.
	ExtBad   string `json:"extBad"`
	keyValue string
}

type scfg struct {
	Reject       string   `json:"reject"`
	RejectStatus int      `json:"rejectStatus"`
	Accept       []string `json:"accept"`
	HasSelector  bool     `json:"hasSelector"`
	ExtAccept    []string `json:"extAccept"`
	ExtraHeader  bool     `json:"extraHeader"`
	ExtMode      string   `json:"extMode"`   // none | select | negotiate
	RejectExt    string   `json:"rejectExt"` // reject=negotiate: the only extension the negotiator objects to ("" = all)
	// RejectOnce: the negotiator objects the first time it is asked about that extension only (a
	// callback with state of its own): an objection is an objection
	RejectOnce bool   `json:"rejectOnce"`
	Custom     string `json:"custom"` // Upgrader.ProtocolCustom: "" | "select" (the callback parses the header itself) | "refuse" (reports it malformed)
	Rbuf       int    `json:"rbuf"`   // Upgrader.ReadBufferSize (transport detail, not judged)
	Wbuf       int    `json:"wbuf"`   // Upgrader.WriteBufferSize
	Chunk      int    `json:"chunk"`  // the request arrives in reads of at most this many bytes (0: at once)
}

func caseVar(name string, v int) string {
	switch v % 4 {
	case 1:
		return strings.ToLower(name)
	case 2:
		return strings.ToUpper(name)
	case 3:
		b := []byte(name)
		for i := range b {
			if i%2 == 0 {
				b[i] = byte(strings.ToUpper(string(b[i]))[0])
			} else {
				b[i] = byte(strings.ToLower(string(b[i]))[0])
			}
		}
		return string(b)
	}
	return name
}

func pad(v string, k int) string {
	pads := []string{" ", "", "  ", "\t", " \t "}
	return pads[k%len(pads)] + v + []string{"", " ", "\t", "  "}[k%4]
}

func validKey(rng *rand.Rand) string {
	b := make([]byte, 16)
	rng.Read(b)
	return base64.StdEncoding.EncodeToString(b)
}

// render turns the abstract request into bytes; spellings are chosen by rng.
func (q *sreq) render(rng *rand.Rand) []byte {
	var lines []string
	add := func(canon, class, okv string, varied func() string, wrong string) {
		name := canon
		val := okv
		switch class {
		case "absent":
			return
		case "ok":
			lines = append(lines, name+": "+val)
			return
		case "varied":
			name = caseVar(canon, 1+rng.Intn(3))
			val = pad(varied(), rng.Intn(20))
			lines = append(lines, name+":"+val)
			return
		case "dup":
			lines = append(lines, name+": "+val, caseVar(canon, rng.Intn(4))+": "+val)
			return
		case "unifold":
			// not the token at all, but equal to it under Unicode case folding (Kelvin sign for k, long s
			// for s): HTTP tokens are ASCII, "case-insensitively" means ASCII letters
			lines = append(lines, name+": "+strings.NewReplacer("k", "\u212a", "K", "\u212a").Replace(val), name+"-Other: x")
			if rng.Intn(2) == 0 {
				lines[len(lines)-2] = name + ": " + strings.Replace(val, "s", "\u017f", 1)
			}
			lines = lines[:len(lines)-1]
			return
		default:
			lines = append(lines, name+": "+wrong)
		}
	}
	add("Host", q.Host, "example.com", func() string { return "example.com" }, "")
	add("Upgrade", q.Upgrade, "websocket", func() string { return []string{"WebSocket", "WEBSOCKET", "websocket"}[rng.Intn(3)] }, "websocketx")
	add("Connection", q.Connection, "Upgrade", func() string {
		return []string{"upgrade", "keep-alive, Upgrade", "UPGRADE , foo", "a, b, upgrade, c", "Upgrade,keep-alive"}[rng.Intn(5)]
	}, "keep-alive")
	switch q.WsVersion {
	case "other":
		lines = append(lines, "Sec-WebSocket-Version: 14")
	case "contra": // two version lines that contradict each other, one of them 13 (the lines are shuffled below)
		lines = append(lines, "Sec-WebSocket-Version: 13", "Sec-WebSocket-Version: "+[]string{"8", "14", "7", "130"}[rng.Intn(4)])
	case "lead0": // not literally 13
		lines = append(lines, "Sec-WebSocket-Version: "+[]string{"013", "0013", "13.0", "+13", "1 3"}[rng.Intn(5)])
	default:
		add("Sec-WebSocket-Version", q.WsVersion, "13", func() string { return "13" }, "8")
	}
	key := validKey(rng)
	q.keyValue = key
	switch q.Key {
	case "latebad", "earlybad": // a valid key, and another occurrence of the header that is not 24 characters long
		lines = append(lines, "Sec-WebSocket-Key: "+key)
	case "len23":
		q.keyValue = key[:23]
		lines = append(lines, "Sec-WebSocket-Key: "+q.keyValue)
	case "len25":
		q.keyValue = key + "A"
		lines = append(lines, "Sec-WebSocket-Key: "+q.keyValue)
	case "empty":
		q.keyValue = ""
		lines = append(lines, "Sec-WebSocket-Key:")
	case "nonb64":
		q.keyValue = "!!!!####$$$$%%%%&&&&((((" // 24 characters, not base64
		lines = append(lines, "Sec-WebSocket-Key: "+q.keyValue)
	default:
		add("Sec-WebSocket-Key", q.Key, key, func() string { return key }, "")
	}
	var protoLines, extLines []string
	if q.ProtoBad != "" {
		protoLines = []string{"Sec-WebSocket-Protocol: " + q.ProtoBad}
		lines = append(lines, protoLines...)
	} else if len(q.Protos) > 0 {
		if rng.Intn(2) == 0 || len(q.Protos) == 1 {
			protoLines = []string{caseVar("Sec-WebSocket-Protocol", rng.Intn(4)) + ": " + strings.Join(q.Protos, []string{", ", ",", " , "}[rng.Intn(3)])}
		} else { // split over two header lines
			protoLines = []string{"Sec-WebSocket-Protocol: " + q.Protos[0], "Sec-WebSocket-Protocol: " + strings.Join(q.Protos[1:], ", ")}
		}
		lines = append(lines, protoLines...)
	}
	if q.ExtBad != "" {
		extLines = []string{"Sec-WebSocket-Extensions: " + q.ExtBad}
		lines = append(lines, extLines...)
	} else if len(q.Exts) > 0 {
		parts := []string{}
		for i, e := range q.Exts {
			if i%2 == 1 {
				e += "; p=1; q=\"two\""
			}
			parts = append(parts, e)
		}
		if q.ExtLines == 2 {
			for _, p := range parts {
				extLines = append(extLines, "Sec-WebSocket-Extensions: "+p)
			}
		} else {
			extLines = []string{"Sec-WebSocket-Extensions: " + strings.Join(parts, ", ")}
		}
		lines = append(lines, extLines...)
	}
	if q.Extra {
		lines = append(lines, "X-Custom: hello", "Cookie: a=b; c=d")
	}
	rng.Shuffle(len(lines), func(i, j int) { lines[i], lines[j] = lines[j], lines[i] })
	// the client's preference order must survive the shuffle: keep the
	// Sec-WebSocket-Protocol lines in their original relative order
	var idx []int
	var pls []string
	for i, l := range lines {
		if strings.HasPrefix(strings.ToLower(l), "sec-websocket-protocol") {
			idx = append(idx, i)
		}
	}
	for _, l := range protoLines {
		pls = append(pls, l)
	}
	for k, i := range idx {
		lines[i] = pls[k]
	}
	// same for the extension lines (the client's order is significant)
	idx = idx[:0]
	for i, l := range lines {
		if strings.HasPrefix(l, "Sec-WebSocket-Extensions") {
			idx = append(idx, i)
		}
	}
	for k, i := range idx {
		lines[i] = extLines[k]
	}
	switch q.Key {
	case "latebad": // after every other header line
		lines = append(lines, "Sec-WebSocket-Key: "+key[:23])
	case "earlybad": // before every other header line
		lines = append([]string{"Sec-WebSocket-Key: " + key[:22]}, lines...)
	}
	ver := "HTTP/" + q.Version
	if q.Version == "garbage" {
		ver = garbageVersions[q.VerForm%len(garbageVersions)]
	} else if forms, ok := versionForms[q.Version]; ok {
		ver = "HTTP/" + forms[q.VerForm%len(forms)]
	}
	eol := "\r\n"
	if rng.Intn(4) == 0 {
		eol = "\n"
	}
	return []byte(q.Method + " /chat?x=1 " + ver + eol + strings.Join(lines, eol) + eol + eol)
}

// other numerals of the same class: a later 1.x, another major version, an earlier one (numbers
// around the widths a narrower integer would wrap at)
var versionForms = map[string][]string{
	"1.2": {"1.2", "1.9", "1.10", "1.255", "1.256", "1.257", "1.512", "1.65536", "1.65537", "1.4294967296", "1.4294967297"},
	"2.0": {"2.0", "2.1", "10.1", "256.1", "257.1", "513.1", "65537.1", "4294967297.1", "257.257", "3.0"},
	"0.9": {"0.9", "0.257", "0.513", "0.65537", "256.0", "1.0"},
}

// spellings that are not an HTTP-version (RFC 7230 2.6: "HTTP/" DIGIT "." DIGIT), among them the
// bytes 0x3A-0x3F that follow '9' and a digit followed by junk
var garbageVersions = []string{"HTP/1.1", "HTTP/1", "HTTP/x.y", "", "HTTP/1.:", "HTTP/1.?", "HTTP/1.;", "HTTP/:.1", "HTTP/1.1x", "HTTP/1.", "HTTP/.1", "HTTP/1,1", "HTTP/1.=", "HTTP/1./"}

type sobs struct {
	ErrNil           bool     `json:"errNil"`
	Wrote            string   `json:"wrote"` // 101 | error | none
	Status           int      `json:"status"`
	StatusLineOK     bool     `json:"statusLineOK"`
	AcceptOK         bool     `json:"acceptOK"`
	Proto            string   `json:"proto"`
	ProtoSent        string   `json:"protoSent"`
	Exts             []string `json:"exts"`
	ExtsSent         []string `json:"extsSent"`
	HdrPresent       bool     `json:"hdrPresent"`
	RejectHdrPresent bool     `json:"rejectHdrPresent"`
	BodyLenOK        bool     `json:"bodyLenOK"`
	BodyIsErr        bool     `json:"bodyIsErr"` // the body is the text of the error Upgrade returned
	HasVersion13     bool     `json:"hasVersion13"`
	Err              string   `json:"err"`
}

func observe(resp []byte, hs ws.Handshake, err error, key string) sobs {
	o := sobs{ErrNil: err == nil, Wrote: "none", Exts: []string{}, ExtsSent: []string{}, Proto: hs.Protocol}
	if err != nil {
		o.Err = err.Error()
	}
	for _, e := range hs.Extensions {
		o.Exts = append(o.Exts, string(e.Name))
	}
	if len(resp) == 0 {
		return o
	}
	h := parseHead(resp)
	if !h.OK {
		o.Wrote = "error"
		return o
	}
	parts := strings.SplitN(h.Line, " ", 3)
	if len(parts) >= 2 && parts[0] == "HTTP/1.1" {
		o.Status, _ = strconv.Atoi(parts[1])
		o.StatusLineOK = len(parts[1]) == 3 && o.Status >= 100
	}
	if o.Status == 101 {
		o.Wrote = "101"
		o.AcceptOK = h.first("Sec-WebSocket-Accept") == acceptFor(key) && len(h.get("Sec-WebSocket-Accept")) == 1 &&
			strings.EqualFold(h.first("Upgrade"), "websocket") && strings.EqualFold(h.first("Connection"), "upgrade")
		o.ProtoSent = h.first("Sec-WebSocket-Protocol")
		for _, v := range h.get("Sec-WebSocket-Extensions") {
			o.ExtsSent = append(o.ExtsSent, optNames(v)...)
		}
	} else {
		o.Wrote = "error"
		cl := h.first("Content-Length")
		n, e := strconv.Atoi(cl)
		o.BodyLenOK = (cl == "" && len(h.Body) == 0) || (e == nil && n == len(h.Body))
		o.BodyIsErr = err != nil && strings.TrimRight(string(h.Body), "\r\n") == strings.TrimRight(err.Error(), "\r\n")
		o.HasVersion13 = h.first("Sec-WebSocket-Version") == "13"
	}
	o.HdrPresent = h.first("X-Server") == "verif"
	o.RejectHdrPresent = h.first("X-Reject") == "because"
	return o
}

// rwBuf is an io.ReadWriter over a request with a response buffer.
type rwBuf struct {
	r io.Reader
	w bytes.Buffer
}

func (b *rwBuf) Read(p []byte) (int, error)  { return b.r.Read(p) }
func (b *rwBuf) Write(p []byte) (int, error) { return b.w.Write(p) }

func rejectErr(status int) error {
	if status == 0 {
		return errors.New("plain rejection")
	}
	if status == -2 { // a plain error that wraps one of the library's own handshake errors
		return fmt.Errorf("the application objects (and mentions why): %w", ws.ErrHandshakeBadHost)
	}
	if status == -1 { // a rejection that brings headers and a reason but no status of its own: answered as 500
		return ws.RejectConnectionError(ws.RejectionReason("rejected by callback"),
			ws.RejectionHeader(ws.HandshakeHeaderString("X-Reject: because\r\n")))
	}
	return ws.RejectConnectionError(ws.RejectionStatus(status), ws.RejectionReason("rejected by callback"),
		ws.RejectionHeader(ws.HandshakeHeaderString("X-Reject: because\r\n")))
}

func inList(l []string, s string) bool {
	for _, x := range l {
		if x == s {
			return true
		}
	}
	return false
}

func buildUpgrader(c scfg) ws.Upgrader {
	u := ws.Upgrader{ReadBufferSize: c.Rbuf, WriteBufferSize: c.Wbuf}
	if c.HasSelector {
		u.Protocol = func(p []byte) bool { return inList(c.Accept, string(p)) }
	}
	switch c.Custom {
	case "select":
		u.Protocol = nil
		u.ProtocolCustom = func(v []byte) (string, bool) {
			for _, t := range strings.Split(string(v), ",") {
				if t = strings.TrimSpace(t); inList(c.Accept, t) {
					return t, true
				}
			}
			return "", true
		}
	case "refuse":
		u.ProtocolCustom = func(v []byte) (string, bool) { return "", false }
	}
	switch c.ExtMode {
	case "select":
		u.Extension = func(o httphead.Option) bool { return inList(c.ExtAccept, string(o.Name)) }
	case "custom": // the callback parses the header value itself and appends what it accepts
		u.ExtensionCustom = func(v []byte, acc []httphead.Option) ([]httphead.Option, bool) {
			for _, t := range strings.Split(string(v), ",") {
				name := strings.TrimSpace(strings.SplitN(t, ";", 2)[0])
				if inList(c.ExtAccept, name) {
					acc = append(acc, httphead.Option{Name: []byte(name)})
				}
			}
			return acc, true
		}
	case "customrefuse":
		u.ExtensionCustom = func(v []byte, acc []httphead.Option) ([]httphead.Option, bool) { return acc, false }
	case "negotiate":
		objected := false
		u.Negotiate = func(o httphead.Option) (httphead.Option, error) {
			if c.Reject == "negotiate" && (c.RejectExt == "" || c.RejectExt == string(o.Name)) && !(c.RejectOnce && objected) {
				objected = true
				return httphead.Option{}, rejectErr(c.RejectStatus)
			}
			if inList(c.ExtAccept, string(o.Name)) {
				return httphead.Option{Name: append([]byte(nil), o.Name...)}, nil
			}
			return httphead.Option{}, nil
		}
	}
	if c.ExtraHeader {
		u.Header = headerForm(c.Rbuf+c.Wbuf+c.Chunk+len(c.Accept), "X-Server", "verif")
	}
	switch c.Reject {
	case "onrequest":
		u.OnRequest = func(uri []byte) error { return rejectErr(c.RejectStatus) }
	case "onhost":
		u.OnHost = func(h []byte) error { return rejectErr(c.RejectStatus) }
	case "onheader":
		u.OnHeader = func(k, v []byte) error { return rejectErr(c.RejectStatus) }
	case "onbefore":
		u.OnBeforeUpgrade = func() (ws.HandshakeHeader, error) { return nil, rejectErr(c.RejectStatus) }
	}
	return u
}

// hijackRW is a fake http.ResponseWriter + http.Hijacker over an in-memory conn.
type hijackRW struct {
	conn *memConn
	hdr  http.Header
}

func (h *hijackRW) Header() http.Header         { return h.hdr }
func (h *hijackRW) Write(p []byte) (int, error) { return h.conn.Write(p) }
func (h *hijackRW) WriteHeader(int)             {}
func (h *hijackRW) Hijack() (net.Conn, *bufio.ReadWriter, error) {
	return h.conn, bufio.NewReadWriter(bufio.NewReader(h.conn), bufio.NewWriter(h.conn)), nil
}

type memConn struct {
	r io.Reader
	w bytes.Buffer
}

func (c *memConn) Read(p []byte) (int, error)       { return c.r.Read(p) }
func (c *memConn) Write(p []byte) (int, error)      { return c.w.Write(p) }
func (c *memConn) Close() error                     { return nil }
func (c *memConn) LocalAddr() net.Addr              { return &net.TCPAddr{} }
func (c *memConn) RemoteAddr() net.Addr             { return &net.TCPAddr{} }
func (c *memConn) SetDeadline(time.Time) error      { return nil }
func (c *memConn) SetReadDeadline(time.Time) error  { return nil }
func (c *memConn) SetWriteDeadline(time.Time) error { return nil }

// runServer runs one request through one upgrader API.
func runServer(api string, raw []byte, c scfg, key string) (o sobs, ran bool) {
	defer func() {
		if p := recover(); p != nil {
			o = sobs{Err: fmt.Sprint("panic: ", p), Wrote: "none", Exts: []string{}, ExtsSent: []string{}}
			ran = true
		}
	}()
	switch api {
	case "Upgrader":
		rw := &rwBuf{r: bytes.NewReader(raw)}
		if c.Chunk > 0 {
			rw.r = &vh.ChunkReader{Data: raw, Sizes: []int{c.Chunk}}
		}
		hs, err := buildUpgrader(c).Upgrade(rw)
		return observe(rw.w.Bytes(), hs, err, key), true
	case "Upgrade":
		rw := &rwBuf{r: bytes.NewReader(raw)}
		hs, err := ws.Upgrade(rw)
		return observe(rw.w.Bytes(), hs, err, key), true
	case "HTTPUpgrader", "UpgradeHTTP":
		req, err := http.ReadRequest(bufio.NewReader(bytes.NewReader(raw)))
		if err != nil {
			return o, false // net/http itself refuses it: not reachable through this API
		}
		conn := &memConn{r: bytes.NewReader(nil)}
		w := &hijackRW{conn: conn, hdr: http.Header{}}
		var hs ws.Handshake
		if api == "UpgradeHTTP" {
			_, _, hs, err = ws.UpgradeHTTP(req, w)
		} else {
			u := ws.HTTPUpgrader{}
			if c.HasSelector {
				u.Protocol = func(p string) bool { return inList(c.Accept, p) }
			}
			switch c.ExtMode {
			case "select":
				u.Extension = func(o httphead.Option) bool { return inList(c.ExtAccept, string(o.Name)) }
			case "negotiate":
				objected := false
				u.Negotiate = func(o httphead.Option) (httphead.Option, error) {
					if c.Reject == "negotiate" && (c.RejectExt == "" || c.RejectExt == string(o.Name)) && !(c.RejectOnce && objected) {
						objected = true
						return httphead.Option{}, rejectErr(c.RejectStatus)
					}
					if inList(c.ExtAccept, string(o.Name)) {
						return httphead.Option{Name: append([]byte(nil), o.Name...)}, nil
					}
					return httphead.Option{}, nil
				}
			}
			if c.ExtraHeader {
				u.Header = http.Header{"X-Server": []string{"verif"}}
			}
			_, _, hs, err = u.Upgrade(req, w)
		}
		return observe(conn.w.Bytes(), hs, err, key), true
	}
	return o, false
}

var _ = vh.Ints

// headerForm renders one extra header through each of the four HandshakeHeader adapters in turn.
func headerForm(i int, name, value string) ws.HandshakeHeader {
	line := name + ": " + value + "\r\n"
	switch i % 4 {
	case 0:
		return ws.HandshakeHeaderString(line)
	case 1:
		return ws.HandshakeHeaderBytes([]byte(line))
	case 2:
		return ws.HandshakeHeaderFunc(func(w io.Writer) (int64, error) { n, err := io.WriteString(w, line); return int64(n), err })
	}
	return ws.HandshakeHeaderHTTP(http.Header{name: []string{value}})
}
