// Package vh holds the parts of the conformance harness shared by all
// drivers: ndjson output, the harness' own frame codec (never the library's),
// controllable readers/writers and seeded randomness.
package vh

import (
	"bytes"
	"bufio"
	"encoding/json"
	"errors"
	"fmt"
	"io"
	"math/rand"
	"os"
	"path/filepath"
	"sort"
	"strings"
)

// ---------------------------------------------------------------- output

// Out writes one JSON object per line, sharded into files of at most Shard
// lines: <dir>/<name>-<nnn>.ndjson.
type Out struct {
	Dir, Name string
	Shard     int
	n, shard  int
	f         *os.File
	w         *bufio.Writer
	Total     int
	Files     []string
}

func NewOut(dir, name string, shard int) *Out {
	return &Out{Dir: dir, Name: name, Shard: shard}
}

func (o *Out) open() {
	p := filepath.Join(o.Dir, fmt.Sprintf("%s-%03d.ndjson", o.Name, o.shard))
	f, err := os.Create(p)
	if err != nil {
		Fatal("create %s: %v", p, err)
	}
	o.f, o.w = f, bufio.NewWriterSize(f, 1<<20)
	o.Files = append(o.Files, p)
	o.shard++
	o.n = 0
}

// Emit writes v as one line.  NewTrace must be true when a shard boundary is
// allowed before this line (always true for record files).
func (o *Out) Emit(v interface{}, boundaryOK bool) {
	if o.w == nil || (boundaryOK && o.n >= o.Shard) {
		o.Close()
		o.open()
	}
	b, err := json.Marshal(v)
	if err != nil {
		Fatal("marshal: %v", err)
	}
	// TLC's Json module cannot read null: a nil slice is logged as the empty sequence (records never use
	// null for anything else, and payloads are logged as numbers, not strings)
	if bytes.Contains(b, []byte(":null")) {
		b = bytes.ReplaceAll(b, []byte(":null"), []byte(":[]"))
	}
	o.w.Write(b)
	o.w.WriteByte('\n')
	o.n++
	o.Total++
}

func (o *Out) Close() {
	if o.w != nil {
		o.w.Flush()
		o.f.Close()
		o.w, o.f = nil, nil
	}
}

func Fatal(format string, a ...interface{}) {
	fmt.Fprintf(os.Stderr, "wsverif: "+format+"\n", a...)
	os.Exit(2)
}

// Meta is written by each driver as <dir>/meta.json.
type Meta struct {
	Property    string                 `json:"property"`
	Tier        string                 `json:"tier"`
	Seed        int64                  `json:"seed"`
	Evaluations int                    `json:"evaluations"`
	Distinct    int                    `json:"distinct_nontrivial"`
	Rule        string                 `json:"rule"`
	Samples     []interface{}          `json:"samples"`
	Files       map[string][]string    `json:"files"`
	Extra       map[string]interface{} `json:"extra,omitempty"`
	// Direct: violations decided by a non-TLC monitor (panic, race, hang),
	// each {key, what}.
	Direct []map[string]interface{} `json:"direct,omitempty"`
}

func (m *Meta) Write(dir string) {
	b, _ := json.MarshalIndent(m, "", " ")
	if err := os.WriteFile(filepath.Join(dir, "meta.json"), b, 0o644); err != nil {
		Fatal("meta: %v", err)
	}
}

// Shapes counts distinct shapes.
type Shapes map[string]int

func (s Shapes) Add(format string, a ...interface{}) { s[fmt.Sprintf(format, a...)]++ }
func (s Shapes) Keys() []string {
	k := make([]string, 0, len(s))
	for x := range s {
		k = append(k, x)
	}
	sort.Strings(k)
	return k
}

// ---------------------------------------------------------------- bytes

// Ints converts bytes to a JSON-friendly int slice (never null).
func Ints(b []byte) []int {
	r := make([]int, len(b))
	for i, x := range b {
		r[i] = int(x)
	}
	return r
}

func Len8(n uint64) []int {
	r := make([]int, 8)
	for i := 7; i >= 0; i-- {
		r[i] = int(n & 0xff)
		n >>= 8
	}
	return r
}

// PByte is the position code of byte i of message m (mirrors WsBytes!PByte).
func PByte(m, i int) byte { return byte((m*31 + i*7 + i/256) % 256) }

func PBytes(m, lo, hi int) []byte {
	p := make([]byte, hi-lo)
	for i := range p {
		p[i] = PByte(m, lo+i)
	}
	return p
}

// Locate finds lo such that p == PBytes(m, lo, lo+len(p)) with lo >= from;
// it returns -1 when p is not that interval.
func MatchP(m, lo int, p []byte) bool {
	for i := range p {
		if p[i] != PByte(m, lo+i) {
			return false
		}
	}
	return true
}

// ---------------------------------------------------------------- own codec

// H is the harness' view of a frame header.
type H struct {
	Fin    bool   `json:"fin"`
	Rsv    int    `json:"rsv"`
	Op     int    `json:"op"`
	Masked bool   `json:"masked"`
	Mask   []int  `json:"mask"`
	Len    []int  `json:"len"` // 8 bytes big endian
	N      uint64 `json:"-"`
}

func (h H) MaskBytes() [4]byte {
	var m [4]byte
	for i := 0; i < 4 && i < len(h.Mask); i++ {
		m[i] = byte(h.Mask[i])
	}
	return m
}

// OwnEncode is an independent implementation of RFC 6455 5.2 (validated
// against FrameCodec.tla at the start of the C01 run).
func OwnEncode(h H) []byte {
	b0 := byte(h.Rsv<<4) | byte(h.Op)
	if h.Fin {
		b0 |= 0x80
	}
	var mb byte
	if h.Masked {
		mb = 0x80
	}
	out := []byte{b0}
	switch {
	case h.N <= 125:
		out = append(out, mb|byte(h.N))
	case h.N <= 0xffff:
		out = append(out, mb|126, byte(h.N>>8), byte(h.N))
	default:
		out = append(out, mb|127)
		for i := 7; i >= 0; i-- {
			out = append(out, byte(h.N>>(8*uint(i))))
		}
	}
	if h.Masked {
		m := h.MaskBytes()
		out = append(out, m[:]...)
	}
	return out
}

var ErrShort = errors.New("own codec: short")

// OwnDecode parses one header from b; it returns the header and the number of
// bytes it occupies.
func OwnDecode(b []byte) (h H, n int, err error) {
	if len(b) < 2 {
		return h, 0, ErrShort
	}
	h.Fin = b[0]&0x80 != 0
	h.Rsv = int(b[0]>>4) & 7
	h.Op = int(b[0] & 0xf)
	h.Masked = b[1]&0x80 != 0
	l7 := b[1] & 0x7f
	n = 2
	switch l7 {
	case 126:
		if len(b) < 4 {
			return h, 0, ErrShort
		}
		h.N = uint64(b[2])<<8 | uint64(b[3])
		n = 4
	case 127:
		if len(b) < 10 {
			return h, 0, ErrShort
		}
		for i := 2; i < 10; i++ {
			h.N = h.N<<8 | uint64(b[i])
		}
		n = 10
	default:
		h.N = uint64(l7)
	}
	h.Mask = []int{0, 0, 0, 0}
	if h.Masked {
		if len(b) < n+4 {
			return h, 0, ErrShort
		}
		h.Mask = Ints(b[n : n+4])
		n += 4
	}
	h.Len = Len8(h.N)
	return h, n, nil
}

// F is a decoded frame as logged in traces: payload is unmasked.
type F struct {
	Op     int    `json:"op"`
	Fin    bool   `json:"fin"`
	Rsv    int    `json:"rsv"`
	Masked bool   `json:"masked"`
	Len    int    `json:"len"`
	Pay    []int  `json:"pay"` // verbatim when short, else empty
	Lo     int    `json:"lo"`  // position-code interval of message Msg, -1 = no match
	Hi     int    `json:"hi"`
	Raw    []byte `json:"-"`
}

// ParseFrames decodes a byte stream into whole frames; rest is what remains
// after the last whole frame (non-empty rest = not whole frames).
func ParseFrames(b []byte) (fs []F, rest []byte) {
	for len(b) > 0 {
		h, n, err := OwnDecode(b)
		if err != nil || uint64(len(b)-n) < h.N {
			return fs, b
		}
		p := append([]byte(nil), b[n:n+int(h.N)]...)
		if h.Masked {
			m := h.MaskBytes()
			for i := range p {
				p[i] ^= m[i%4]
			}
		}
		fs = append(fs, F{Op: h.Op, Fin: h.Fin, Rsv: h.Rsv, Masked: h.Masked, Len: int(h.N), Raw: p, Pay: []int{}, Lo: -1, Hi: -1})
		b = b[n+int(h.N):]
	}
	return fs, nil
}

// BuildFrame encodes a frame with the own codec; payload is given unmasked.
func BuildFrame(op int, fin bool, rsv int, masked bool, mask [4]byte, p []byte) []byte {
	h := H{Fin: fin, Rsv: rsv, Op: op, Masked: masked, Mask: Ints(mask[:]), N: uint64(len(p))}
	out := OwnEncode(h)
	q := append([]byte(nil), p...)
	if masked {
		for i := range q {
			q[i] ^= mask[i%4]
		}
	}
	return append(out, q...)
}

// ---------------------------------------------------------------- readers / writers

// ChunkReader serves Data in reads of at most Sizes[i] bytes (cycling); it
// counts bytes handed out.  After the data it returns End (io.EOF by default).
type ChunkReader struct {
	Data  []byte
	Sizes []int
	End   error
	// DataErr makes the reader return the end error together with the last
	// bytes (n > 0 && err != nil), as the io.Reader contract allows.
	DataErr bool
	i       int
	Pos     int
	Reads   int
}

func (c *ChunkReader) Read(p []byte) (int, error) {
	c.Reads++
	if len(p) == 0 {
		return 0, nil
	}
	if c.Pos >= len(c.Data) {
		if c.End != nil {
			return 0, c.End
		}
		return 0, io.EOF
	}
	k := len(p)
	if len(c.Sizes) > 0 {
		s := c.Sizes[c.i%len(c.Sizes)]
		c.i++
		if s < k {
			k = s
		}
	}
	if k > len(c.Data)-c.Pos {
		k = len(c.Data) - c.Pos
	}
	copy(p, c.Data[c.Pos:c.Pos+k])
	c.Pos += k
	if c.DataErr && c.Pos >= len(c.Data) {
		if c.End != nil {
			return k, c.End
		}
		return k, io.EOF
	}
	return k, nil
}

var ErrInjected = errors.New("injected transport error")

// Dest records every Write call; write number FailAt (1-based) fails after
// accepting Partial bytes, later calls are recorded as Late.
type Dest struct {
	Buf     []byte
	Calls   int
	FailAt  int
	Partial int
	Late    int // bytes offered after the failure
	marks   []int
}

func (d *Dest) Write(p []byte) (int, error) {
	d.Calls++
	if d.FailAt > 0 && d.Calls > d.FailAt {
		d.Late += len(p)
		return 0, ErrInjected
	}
	if d.FailAt > 0 && d.Calls == d.FailAt {
		k := d.Partial
		if k > len(p) {
			k = len(p)
		}
		d.Buf = append(d.Buf, p[:k]...)
		return k, ErrInjected
	}
	d.Buf = append(d.Buf, p...)
	return len(p), nil
}

// ---------------------------------------------------------------- misc

func Rand(seed int64, stream string) *rand.Rand {
	var h int64 = 1469598103934665603
	for _, c := range stream {
		h = (h ^ int64(c)) * 1099511628211
	}
	return rand.New(rand.NewSource(seed*7919 + h))
}

// ErrClass maps an error to the class names of DESIGN.md appendix A.
func ErrClass(err error) string {
	if err == nil {
		return "nil"
	}
	switch err {
	case io.EOF:
		return "eof"
	case io.ErrUnexpectedEOF:
		return "unexpected_eof"
	case ErrInjected:
		return "transport"
	case io.ErrNoProgress:
		return "no_progress"
	case io.ErrShortWrite:
		return "short_write"
	}
	s := err.Error()
	if strings.Contains(s, ErrInjected.Error()) {
		return "transport"
	}
	return "other:" + s
}

// Current is the key of the scenario most recently offered to Only / OnlyGroup (the one a panic of
// the main goroutine is attributed to).
var Current string

// Only reports whether scenario key k is selected (VERIF_ONLY unset = all).
func Only(k string) bool {
	o := os.Getenv("VERIF_ONLY")
	if o == "" || o == k {
		Current = k
		return true
	}
	return false
}

// OnlyGroup is Only for a scenario that emits several records keyed k+"/"+label.
func OnlyGroup(k string) bool {
	o := os.Getenv("VERIF_ONLY")
	if o == "" || o == k || strings.HasPrefix(o, k+"/") {
		Current = k
		return true
	}
	return false
}
