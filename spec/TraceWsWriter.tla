--------------------------- MODULE TraceWsWriter ---------------------------
(***************************************************************************)
(* Trace validation: every trace logged from the real wsutil.Writer /      *)
(* wsutil.ControlWriter must be a behaviour accepted by the property-level *)
(* monitor WsWriterMon.  The file holds many traces; each starts with a    *)
(* "setup" event (TraceReset).  The monitor is deterministic, so the       *)
(* search is linear.  A rejected trace is recorded in `rej` (line, clause) *)
(* and validation resumes at the next trace, so one run examines all.      *)
(***************************************************************************)
EXTENDS WsWriterMon, TLC, Json, IOUtils

Tr == ndJsonDeserialize(IOEnv.VERIF_FILE)

VARIABLES l, m, rej

ASSUME PrintT(<<"VERIF-TRACE", Len(Tr)>>)

Init == l = 1 /\ m = [bad |-> "", kind |-> "none"] /\ rej = <<>>

SetupState(e) ==
    IF e.kind = "ctl" THEN CtlFresh(e.side, e.op, 125, e.oklimit) @@ [kind |-> "ctl"]
    ELSE Fresh(e.side, e.op, e.size, 0) @@ [kind |-> "writer"]

StepOf(e) ==
    IF e.ev = "setup" THEN SetupState(e)
    ELSE IF e.ev = "panic" THEN [m EXCEPT !.bad = "panic: " \o e.err]
    ELSE IF m.kind = "ctl" THEN CtlStep(m, e) @@ [kind |-> "ctl"]
    ELSE IF e.twin = "diff"
         THEN [m EXCEPT !.bad = "after Reset the writer behaves differently from a fresh instance (lock-step twin)"]
    ELSE MonStep(m, e) @@ [kind |-> "writer"]

RECURSIVE NextSetup(_)
NextSetup(i) == IF i > Len(Tr) THEN i ELSE IF Tr[i].ev = "setup" THEN i ELSE NextSetup(i + 1)

Consume == /\ l <= Len(Tr) /\ m.bad = ""
           /\ m' = StepOf(Tr[l]) /\ l' = l + 1 /\ UNCHANGED rej
\* the event at line l-1 was rejected: record it, resume at the next trace
Skip == /\ m.bad # ""
        /\ rej' = IF Len(rej) < 40 THEN Append(rej, <<l - 1, m.bad>>) ELSE rej
        /\ l' = NextSetup(l) /\ m' = [bad |-> "", kind |-> "none"]
Next == Consume \/ Skip

Done == l > Len(Tr) /\ m.bad = ""
\* printed from the final state (an invariant that fires once)
Final == Done => PrintT(<<"VERIF-DONE", Len(rej), rej>>)
=============================================================================
