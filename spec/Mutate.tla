------------------------------- MODULE Mutate -------------------------------
(***************************************************************************)
(* Structure-aware mutation of valid byte streams (frames, handshake       *)
(* requests and responses, option lists, deflate streams) as actions.  A   *)
(* behaviour of this module is a mutation script; TLC -simulate produces   *)
(* scripts that the conformance harness applies to valid seeds of every    *)
(* kind before feeding them to the decoding entry points (C15).            *)
(* Positions and values are abstract fractions/classes that the harness    *)
(* resolves against the concrete seed (pos = k/8 of the length, etc.).     *)
(***************************************************************************)
EXTENDS Naturals, Sequences, TLC, Json

CONSTANTS MaxOps

VARIABLES ops

Frac == 0..8                          \* position = frac/8 of the input length
Extremes == {"2^31-1", "2^31", "2^32", "2^40", "2^47", "2^62", "2^63-1", "0", "126", "65536"}

Op == [op : {"flip"}, at : Frac, bit : 0..7]
        \cup [op : {"truncate"}, at : Frac]
        \cup [op : {"setlen"}, field : 0..3, val : Extremes]      \* rewrite the k-th length field / Content-Length / window bits
        \cup [op : {"dup"}, at : Frac, n : {1, 2, 14, 200}]        \* duplicate n bytes (a header, a header line, ...)
        \cup [op : {"insert"}, at : Frac, val : {0, 10, 13, 34, 44, 58, 59, 127, 128, 255}]
        \cup [op : {"dropcr"}, at : Frac]
        \cup [op : {"splice"}, at : Frac, from : Frac]
        \cup [op : {"repeat"}, at : Frac, times : {100, 5000}]      \* blow up one byte (very long line / token)

Init == ops = <<>>
Next == /\ Len(ops) < MaxOps
        /\ \E o \in Op : ops' = Append(ops, o)

\* every script of exactly MaxOps operations is emitted once per simulated behaviour
Emit == Len(ops) = MaxOps => PrintT(<<"VERIF-MUT", ToJson(ops)>>)
=============================================================================
