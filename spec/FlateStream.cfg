CONSTANTS Alphabet = {0, 255, 7}
          MaxTotal = 9
          MaxChunk = 6
INIT Init
NEXT Next
INVARIANT Refines
CHECK_DEADLOCK FALSE
