CONSTANTS Alphabet = {0, 255, 7}
          MaxTotal = 8
          MaxChunk = 6
          MaxResets = 1
          BugResetKeepsTail = FALSE
INIT Init
NEXT Next
INVARIANT Refines
INVARIANT ResetIsFresh
CHECK_DEADLOCK FALSE
