CONSTANTS Msgs = {"m1", "m2"}
          Pings = {"p1", "p2"}
          Codes = {1000, 0}
          MaxMsgs = 2
          MaxPings = 2
          MaxFrags = 3
          Cap = 2
          Bug = "none"
SPECIFICATION Spec
INVARIANT EchoCorrect
INVARIANT PongCorrect
INVARIANT CloseCorrect
INVARIANT NothingAfterClose
INVARIANT Complete
PROPERTY ServerSilentAfterClose
PROPERTY Closes
CHECK_DEADLOCK FALSE
