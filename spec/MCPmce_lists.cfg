CONSTANTS BugSmwReversed = FALSE
          MaxOffers = 3
          SingleOnly = FALSE
INIT Init
NEXT Next
INVARIANT Legal
INVARIANT AtMostOne
INVARIANT FirstAcceptable
INVARIANT ResetFresh
CHECK_DEADLOCK FALSE
