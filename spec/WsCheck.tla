------------------------------ MODULE WsCheck ------------------------------
(***************************************************************************)
(* RFC 6455 framing rules owned by the header check, and close payloads.   *)
(* Code anchors: ws.CheckHeader, ws.CheckCloseFrameData (check.go),        *)
(* ws.NewCloseFrameBody / ws.ParseCloseFrameData (frame.go, read.go).      *)
(*                                                                         *)
(* A header here is [fin, rsv, op, masked, len] with len a natural (the    *)
(* rules only distinguish len <= 125 from len > 125).  An endpoint state   *)
(* is [server, client, extended, fragmented] (booleans).                   *)
(***************************************************************************)
EXTENDS Naturals, Sequences, Utf8

OpCont == 0  OpText == 1  OpBinary == 2  OpClose == 8  OpPing == 9  OpPong == 10

IsControl(op) == op >= 8
IsData(op) == op < 8
IsReservedOp(op) == (3 <= op /\ op <= 7) \/ (11 <= op /\ op <= 15)

Rules == {"reserved", "ctl_overflow", "ctl_notfinal", "rsv", "mask_required",
          "mask_unexpected", "cont_expected", "cont_unexpected"}

\* the set of rules a header breaks in a given endpoint state
Broken(h, st) ==
    {r \in Rules :
        \/ r = "reserved"        /\ IsReservedOp(h.op)
        \/ r = "ctl_overflow"    /\ IsControl(h.op) /\ h.len > 125
        \/ r = "ctl_notfinal"    /\ IsControl(h.op) /\ ~h.fin
        \/ r = "rsv"             /\ h.rsv # 0 /\ ~st.extended
        \/ r = "mask_required"   /\ st.server /\ ~h.masked
        \/ r = "mask_unexpected" /\ st.client /\ h.masked
        \/ r = "cont_expected"   /\ st.fragmented /\ IsData(h.op) /\ h.op # OpCont
        \/ r = "cont_unexpected" /\ ~st.fragmented /\ h.op = OpCont}

HeaderAccepted(h, st) == Broken(h, st) = {}

\* ws.State is a bit set: 1 server, 2 client, 4 extended, 8 fragmented
StateOf(n) == [server |-> n % 2 = 1, client |-> (n \div 2) % 2 = 1,
               extended |-> (n \div 4) % 2 = 1, fragmented |-> (n \div 8) % 2 = 1]

\* what the peer's header check thinks of a frame *we* send from side `side`
PeerState(side) == [server |-> side = "client", client |-> side = "server",
                    extended |-> FALSE, fragmented |-> FALSE]

(***************************************************************************)
(* Close status codes: "accept", "refuse", or "open" (1012-1014 registered *)
(* after the RFC; >= 5000 outside the statement).                          *)
(***************************************************************************)
CloseCodeClass(c) ==
    IF c >= 5000 THEN "open"
    ELSE IF c \in 1012..1014 THEN "open"
    ELSE IF c \in 1000..1003 \/ c \in 1007..1011 \/ c \in 3000..4999 THEN "accept"
    ELSE "refuse"

\* verdict the close-payload check must give: TRUE accept, FALSE refuse; "open" -> either
CloseDataOk(code, reason, accepted) ==
    LET cls == CloseCodeClass(code) IN
    CASE cls = "refuse" -> ~accepted
      [] cls = "accept" -> accepted = WellFormed(reason)
      [] OTHER -> (accepted => WellFormed(reason))

\* close bodies
Crop(reason) == SubSeq(reason, 1, IF Len(reason) < 123 THEN Len(reason) ELSE 123)
CloseBody(code, reason) == <<code \div 256, code % 256>> \o Crop(reason)
ParseClose(body) == IF Len(body) < 2 THEN [code |-> 0, reason |-> <<>>]
                    ELSE [code |-> body[1] * 256 + body[2], reason |-> SubSeq(body, 3, Len(body))]
=============================================================================
