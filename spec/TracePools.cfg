INIT Init
NEXT Next
INVARIANT Final
CHECK_DEADLOCK FALSE
