---------------------------- MODULE FrameCodec ----------------------------
(***************************************************************************)
(* RFC 6455 section 5.2: the frame header layout, as operators.            *)
(*                                                                         *)
(* A header is a record                                                    *)
(*   [fin : BOOLEAN, rsv : 0..7, op : 0..15, masked : BOOLEAN,             *)
(*    mask : 4 bytes, len : 8 bytes big endian, top bit clear]             *)
(*                                                                         *)
(* Code anchors: ws.WriteHeader / ws.HeaderSize (write.go), ws.ReadHeader  *)
(* (read.go), wsutil.Reader.readHeader (wsutil/reader.go).                 *)
(***************************************************************************)
EXTENDS WsBytes

ZeroMask == <<0, 0, 0, 0>>

IsHeader(h) ==
    /\ h.fin \in BOOLEAN /\ h.masked \in BOOLEAN
    /\ h.rsv \in 0..7 /\ h.op \in 0..15
    /\ Len(h.mask) = 4 /\ IsBytes(h.mask)
    /\ Len(h.len) = 8 /\ IsBytes(h.len) /\ h.len[1] < 128

\* which of the three length forms is the minimal one for this length
LenForm(l) ==
    IF AllZero(SubSeq(l, 1, 7)) /\ l[8] <= 125 THEN 7
    ELSE IF AllZero(SubSeq(l, 1, 6)) THEN 16
    ELSE 64

Byte0(h) == (IF h.fin THEN 128 ELSE 0) + h.rsv * 16 + h.op
MaskBit(h) == IF h.masked THEN 128 ELSE 0

Encode(h) ==
    LET f == LenForm(h.len) IN
    <<Byte0(h)>>
      \o (CASE f = 7  -> <<MaskBit(h) + h.len[8]>>
            [] f = 16 -> <<MaskBit(h) + 126, h.len[7], h.len[8]>>
            [] f = 64 -> <<MaskBit(h) + 127>> \o h.len)
      \o (IF h.masked THEN h.mask ELSE <<>>)

HeaderSizeOf(h) ==
    (CASE LenForm(h.len) = 7 -> 2 [] LenForm(h.len) = 16 -> 4 [] OTHER -> 10)
      + (IF h.masked THEN 4 ELSE 0)

(***************************************************************************)
(* Total decoder.  Result: [st |-> "short"] (incomplete header),           *)
(* [st |-> "msb"] (64-bit length with the top bit set), or                 *)
(* [st |-> "ok", h, consumed, minimal].                                    *)
(***************************************************************************)
Decode(b) ==
    IF Len(b) < 2 THEN [st |-> "short"]
    ELSE
      LET masked == b[2] >= 128
          l7     == b[2] % 128
          ext    == IF l7 = 126 THEN 2 ELSE IF l7 = 127 THEN 8 ELSE 0
          need   == 2 + ext + (IF masked THEN 4 ELSE 0)
          len8   == CASE l7 = 126 -> <<0, 0, 0, 0, 0, 0, b[3], b[4]>>
                      [] l7 = 127 -> SubSeq(b, 3, 10)
                      [] OTHER    -> <<0, 0, 0, 0, 0, 0, 0, l7>>
      IN
      IF Len(b) < need THEN [st |-> "short"]
      ELSE IF l7 = 127 /\ b[3] >= 128 THEN [st |-> "msb"]
      ELSE [st |-> "ok",
            h |-> [fin    |-> b[1] >= 128,
                   rsv    |-> (b[1] % 128) \div 16,
                   op     |-> b[1] % 16,
                   masked |-> masked,
                   mask   |-> IF masked THEN SubSeq(b, need - 3, need) ELSE ZeroMask,
                   len    |-> len8],
            consumed |-> need,
            minimal  |-> (l7 = 126 => LenForm(len8) = 16) /\ (l7 = 127 => LenForm(len8) = 64)]

\* The oracle must not contradict itself: decoding an encoding gives it back.
RoundTrip(h, tail) ==
    LET e == Encode(h) d == Decode(e \o tail) IN
    /\ Len(e) = HeaderSizeOf(h)
    /\ d.st = "ok" /\ d.consumed = Len(e) /\ d.minimal
    /\ d.h = [h EXCEPT !.mask = IF h.masked THEN h.mask ELSE ZeroMask]

\* whole frame = header followed by exactly Val8(len) payload bytes (small only)
EncodeFrame(h, payload) == Encode(h) \o payload

=============================================================================
