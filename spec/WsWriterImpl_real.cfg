CONSTANTS L7 = 125  L16 = 65535  H7 = 2  H16 = 4  H64 = 10  ML = 4
          BugResetKeepsErr = FALSE  BugReadFromNotDirty = FALSE
          Sides = {"server", "client"}
          Ops = {1, 2}
          RawSizes = {7, 8, 16, 127, 128, 129, 131, 132, 133, 135, 136, 4096, 65539, 65540, 65541, 65543, 65544, 65545, 65550}
          WriteSizes = {0, 1, 5, 120, 124, 125, 126, 127, 130, 4000, 4086, 4090, 4096, 65530, 65535, 65536, 70000}
          MaxCalls = 14
          FailAts = {0, 0, 0, 2, 4}
          MaxRaw = 2097152
INIT Init
NEXT Next
INVARIANT Refines
INVARIANT HeaderFits
INVARIANT BufferBounds
INVARIANT ResetIsFresh
INVARIANT AfterFailNoWrites
CHECK_DEADLOCK FALSE
