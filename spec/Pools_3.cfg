CONSTANTS Sessions = {"A", "B", "C"}
          Bufs = {"b1", "b2"}
          Alias = FALSE
          EarlyPut = FALSE
          MaxOps = 6
INIT Init
NEXT Next
INVARIANT ResultsStable
INVARIANT NonInterference
CHECK_DEADLOCK FALSE
