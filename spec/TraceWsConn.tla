---------------------------- MODULE TraceWsConn ----------------------------
(***************************************************************************)
(* Trace validation of real connections against WsConn.                    *)
(*                                                                         *)
(* The harness runs library client <-> library echo server sessions over   *)
(* an in-memory duplex whose two directions share one lock; every write    *)
(* into and every read out of the duplex is logged under that lock, so the *)
(* log is a linearisation of the transport operations of both goroutines.  *)
(* From the byte counts it derives, deterministically, one event per       *)
(* frame: CSend / SSend when the frame's last byte has entered the duplex, *)
(* SRecv / CRecv when its last byte has left it; the frame record carries  *)
(* digests computed by the harness' own codec (unmasked; inflated when the *)
(* message was compressed).                                                *)
(*   {"ev":"setup","key":...}                                              *)
(*   {"ev":"CSend"|"SSend"|"SRecv"|"CRecv","f":{op,fin,mdg,pdg,code}}      *)
(* Sends are checked against the guards of WsConn's client and server      *)
(* actions; receives must take the head of the channel and the frame       *)
(* logged must be that head (the transport neither loses nor reorders);    *)
(* after every step the invariants of WsConn must hold; at "end" the       *)
(* connection must be finished (both closed, nothing in flight).           *)
(***************************************************************************)
EXTENDS WsConn, Json, IOUtils

Tr == ndJsonDeserialize(IOEnv.VERIF_FILE)
ASSUME PrintT(<<"VERIF-TRACE", Len(Tr)>>)

VARIABLES l, bad, rej

RECURSIVE NextSetup(_)
NextSetup(i) == IF i > Len(Tr) THEN i ELSE IF Tr[i].ev = "setup" THEN i ELSE NextSetup(i + 1)

Reset ==
    /\ c2s' = <<>> /\ s2c' = <<>>
    /\ copen' = FALSE /\ cfrags' = 0 /\ csent' = <<>> /\ cpings' = <<>>
    /\ cclosed' = FALSE /\ ccode' = 0 /\ cgot' = <<>> /\ cpongs' = <<>> /\ cracc' = 0
    /\ cdone' = FALSE /\ cgotcode' = 0
    /\ spend' = <<>> /\ secho' = "" /\ sfrags' = 0 /\ sdone' = FALSE /\ sopen' = FALSE /\ nsent' = 0

TInit == Init /\ l = 1 /\ bad = "" /\ rej = <<>>

InvBad ==
    IF ~EchoCorrect' THEN "a message delivered to the client is not the next message it sent"
    ELSE IF ~PongCorrect' THEN "a pong does not carry the next outstanding ping's payload"
    ELSE IF ~CloseCorrect' THEN "the server's close does not answer the client's close with its code"
    ELSE IF ~NothingAfterClose' THEN "a frame follows a close frame"
    ELSE IF ~Complete' THEN "the connection ended with messages, pongs or frames outstanding"
    ELSE ""

Take(guard, act, why) ==
    IF guard THEN act /\ bad' = InvBad ELSE UNCHANGED vars /\ bad' = why

Consume ==
    /\ l <= Len(Tr) /\ bad = ""
    /\ LET e == Tr[l] IN
       CASE e.ev = "setup" -> Reset /\ bad' = ""
         [] e.ev = "CSend" ->
              CASE e.f.op \in {"data", "cont"} -> Take(CSendDataG(e.f), CSendData(e.f), "the client sent a data frame out of turn (fragmentation, after close)")
                [] e.f.op = "ping" -> Take(CSendPingG(e.f), CSendPing(e.f), "the client sent a ping after its close")
                [] e.f.op = "close" -> Take(CSendCloseG(e.f), CSendClose(e.f), "the client sent a second close or a close inside a message")
                [] OTHER -> UNCHANGED vars /\ bad' = "the client sent a frame the session script never sends"
         [] e.ev = "SRecv" -> Take(SRecvG /\ Head(c2s) = e.f, SRecv,
                                   "the server took a frame while it still owed a reply or an echo, or not the head of the channel")
         [] e.ev = "SSend" ->
              CASE e.f.op \in {"pong", "close"} -> Take(SSendCtlG(e.f), SSendCtl(e.f), "the server sent a control frame it did not owe (wrong kind, payload, code or moment)")
                [] e.f.op \in {"data", "cont"} -> Take(SSendEchoG(e.f), SSendEcho(e.f), "the server sent a data frame that is not the echo it owes")
                [] OTHER -> UNCHANGED vars /\ bad' = "the server sent a frame the echo loop never sends"
         [] e.ev = "CRecv" -> Take(CRecvG /\ Head(s2c) = e.f, CRecv, "the client took a frame that is not the head of the channel")
         [] e.ev = "end" -> UNCHANGED vars /\ bad' = IF cdone /\ sdone /\ c2s = <<>> /\ s2c = <<>> THEN "" ELSE "the session ended before the closing handshake was complete"
         [] e.ev = "failed" -> UNCHANGED vars /\ bad' = "the connection broke down (an endpoint reported an error or the byte stream is not a frame stream)"
         [] OTHER -> UNCHANGED vars /\ bad' = "unknown event"
    /\ l' = l + 1 /\ UNCHANGED rej

Skip == /\ bad # ""
        /\ rej' = IF Len(rej) < 40 THEN Append(rej, <<l - 1, bad>>) ELSE rej
        /\ l' = NextSetup(l) /\ bad' = "" /\ Reset
TNext == Consume \/ Skip

Done == l > Len(Tr) /\ bad = ""
Final == Done => PrintT(<<"VERIF-DONE", Len(rej), rej>>)
=============================================================================
