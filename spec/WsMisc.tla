------------------------------- MODULE WsMisc -------------------------------
(***************************************************************************)
(* Specification growth beyond the listed properties: smaller pieces of    *)
(* documented behaviour, each judged on records logged from the real code. *)
(* A mismatch here is reported as SPEC-MISMATCH (exit 0), never as a       *)
(* violation of a listed property.                                         *)
(*   - ws.Rsv / ws.RsvBits are mutual inverses (frame.go)                  *)
(*   - ws.SelectFromSlice / SelectEqual decide membership, on both sides   *)
(*     of the slice-vs-map threshold of 16 (util.go)                       *)
(*   - ws.StatusCode range predicates (frame.go)                           *)
(*   - ws.Upgrader callback order: OnRequest, then OnHost / OnHeader in    *)
(*     header order, then OnBeforeUpgrade; nothing after a rejection       *)
(*   - ws.HTTPUpgrader deadline handling: SetDeadline(zero) first, a write *)
(*     deadline only with Timeout, cleared before returning (server.go)    *)
(*   - ws.Dialer.OnStatusError: the reader replays status line + CRLF +    *)
(*     everything that follows (dialer.go)                                 *)
(*   - OnIntermediate / OnContinuation errors reach the caller             *)
(*   - ws.State bit helpers, StatusCode.In / IsProtocolDefined             *)
(*   - frame constructors (NewFrame, NewTextFrame, ...) and the one-call   *)
(*     message writers wsutil.WriteMessage and its six shortcuts           *)
(***************************************************************************)
EXTENDS Naturals, Sequences, FiniteSets, TLC, Json, IOUtils

R == ndJsonDeserialize(IOEnv.VERIF_FILE)

B(x) == IF x THEN 1 ELSE 0
RsvOk(r) == /\ r.rsv = 4 * B(r.r1) + 2 * B(r.r2) + B(r.r3)
            /\ r.back = <<r.r1, r.r2, r.r3>>
            /\ r.hdr = <<r.r1, r.r2, r.r3>>              \* Header.Rsv1/2/3

SeqSet(s) == {s[i] : i \in 1..Len(s)}
SelectOk(r) == \A i \in 1..Len(r.probes) : r.answers[i] = (r.probes[i] \in SeqSet(r.accept))

StatusOk(r) ==
    LET c == r.code IN
    /\ r.notUsed = (c <= 999)
    /\ r.protocolSpec = (c >= 1000 /\ c <= 2999)
    /\ r.appSpec = (c >= 3000 /\ c <= 3999)
    /\ r.privateSpec = (c >= 4000 /\ c <= 4999)
    /\ r.reserved = (c \in {1005, 1006, 1015})
    /\ r.empty = (c = 0)

\* expected callback sequence for a request whose non-websocket header lines are r.headers (in order)
RECURSIVE Prefix(_, _)
Prefix(s, n) == SubSeq(s, 1, IF n < Len(s) THEN n ELSE Len(s))
CallbacksOk(r) ==
    LET full == <<"request">> \o r.lines \o <<"before">>     \* r.lines: "host" / "header:<name>" in wire order
        stop == IF r.rejectAt = 0 THEN Len(full) ELSE r.rejectAt
    IN r.calls = Prefix(full, stop)

DeadlinesOk(r) ==
    IF r.timeout
    THEN r.calls = <<"deadline:zero", "write:future", "write:zero">>
    ELSE r.calls = <<"deadline:zero">>

StatusErrorOk(r) == r.replayed = r.response /\ r.status = r.wantStatus /\ r.calls = 1

CbErrOk(r) == r.err = "callback" /\ r.noLater

\* ws.State is a bit set: 1 server, 2 client, 4 extended, 8 fragmented
HasBit(s, b) == (s \div b) % 2 = 1
StateBitsOk(r) ==
    /\ r.is = HasBit(r.st, r.bit)
    /\ r.set = (IF HasBit(r.st, r.bit) THEN r.st ELSE r.st + r.bit)
    /\ r.clear = (IF HasBit(r.st, r.bit) THEN r.st - r.bit ELSE r.st)
    /\ r.server = HasBit(r.st, 1) /\ r.client = HasBit(r.st, 2)
    /\ r.extended = HasBit(r.st, 4) /\ r.fragmented = HasBit(r.st, 8)

StatusDefOk(r) ==
    LET c == r.code IN
    /\ r.defined = (c \in 1000..1003 \cup 1005..1011 \cup {1015})
    /\ r.inNotInUse = (c <= 999) /\ r.inProtocol = (c \in 1000..2999)
    /\ r.inApp = (c \in 3000..3999) /\ r.inPrivate = (c \in 4000..4999)

\* frame constructors: a final, unmasked frame of the named opcode around the caller's payload
CtorOk(r) == r.op = r.wantOp /\ r.fin /\ r.rsv = 0 /\ ~r.masked /\ r.len = r.plen /\ r.payOK

\* one-call message writers: exactly one final frame, masked iff client, payload intact on both sides
WMsgOk(r) == /\ ~r.err /\ r.frames = 1 /\ r.rest = 0 /\ r.op = r.wantOp /\ r.fin /\ r.rsv = 0
             /\ r.masked = r.client /\ r.payOK /\ r.callerIntact

Ok(r) == CASE r.k = "rsv" -> RsvOk(r)
           [] r.k = "state" -> StateBitsOk(r)
           [] r.k = "statusdef" -> StatusDefOk(r)
           [] r.k = "ctor" -> CtorOk(r)
           [] r.k = "wmsg" -> WMsgOk(r)
           [] r.k = "select" -> SelectOk(r)
           [] r.k = "status" -> StatusOk(r)
           [] r.k = "callbacks" -> CallbacksOk(r)
           [] r.k = "deadlines" -> DeadlinesOk(r)
           [] r.k = "statuserror" -> StatusErrorOk(r)
           [] r.k = "cberr" -> CbErrOk(r)
           [] OTHER -> FALSE

Bad == {i \in 1..Len(R) : ~Ok(R[i])}
ASSUME PrintT(<<"VERIF-RECORDS", Len(R)>>)
ASSUME PrintT(<<"VERIF-BAD", {<<i, R[i].key>> : i \in Bad}>>)
ASSUME Bad = {}
=============================================================================
