------------------------------ MODULE TraceDial ------------------------------
(***************************************************************************)
(* Trace validation of the real ws.Dialer.Dial against Dial.tla.  Events   *)
(* are logged by the harness' gated net.Conn / NetDial stub / context (a   *)
(* global sequence number taken under the gate's mutex at each event's     *)
(* linearisation point).  Steps the harness cannot see - the timer, the    *)
(* context's own deadline, the watcher's select and channel operations,    *)
(* main's deferred bookkeeping - are silent actions composed into the      *)
(* search.  Which context the watcher observes is not fixed here (either   *)
(* choice is tried): verdicts come from what the property demands.         *)
(***************************************************************************)
EXTENDS Dial, Sequences, Json, IOUtils

Tr == ndJsonDeserialize(IOEnv.VERIF_FILE)
ASSUME PrintT(<<"VERIF-TRACE", Len(Tr)>>)

VARIABLE l
tvars == <<vars, l>>

Ev == Tr[l]
Is(name) == l <= Len(Tr) /\ Tr[l].ev = name
Step == l' = l + 1

CfgOf(e, w) == [ctxKind |-> e.ctxKind, timeout |-> e.timeout, dialmode |-> e.dialmode,
                peer |-> [mode |-> e.peerMode, at |-> e.peerAt], K |-> 0, kfree |-> TRUE, watched |-> w]

TInit == /\ Tr[1].ev = "setup" /\ TLCSet(1, 0)
         /\ \E w \in {"ctx", "dialctx"} : InitWith(CfgOf(Tr[1], w))
         /\ l = 2

\* the deadline of the context NetDial is given: the earlier of the caller's own deadline and
\* start + Dialer.Timeout (the harness' "shorter" timeout ends before, its "longer" one after the deadline)
DialDeadline ==
    CASE cfg.timeout = "shorter" -> "timeout"
      [] cfg.timeout = "longer" /\ cfg.ctxKind = "deadline" -> "ctx"
      [] cfg.timeout = "longer" -> "timeout"
      [] cfg.ctxKind = "deadline" -> "ctx"
      [] OTHER -> "none"

\* a new trace begins: reset everything (TraceReset)
TReset == /\ Is("setup") /\ l > 1
          /\ \E w \in {"ctx", "dialctx"} :
               LET c == CfgOf(Ev, w) IN
               /\ cfg' = c /\ ctxState' = "live" /\ timer' = "off" /\ dcErr' = "none"
               /\ mpc' = "start" /\ wpc' = "idle" /\ hasConn' = FALSE /\ dl' = "none" /\ closed' = FALSE
               /\ quitClosed' = FALSE /\ intr' = "empty" /\ ioIdx' = 1 /\ ioErr' = "nil" /\ err' = "nil"
               /\ endedEarly' = FALSE /\ touched' = FALSE
          /\ Step

\* the setup line of the trace that event i belongs to
RECURSIVE SetupIdx(_)
SetupIdx(i) == IF i <= 1 \/ Tr[i].ev = "setup" THEN i ELSE SetupIdx(i - 1)
\* runs through wsutil.DebugDialer: its response reader (net/http's parser on a tee of the connection)
\* sits between the dialer and the connection.  A read of the connection that fails is seen by that
\* reader first; the dialer then reads the connection again itself and it is this last failure (possibly of
\* another kind: the deadline may have been poisoned meanwhile) that Upgrade returns.  Failing reads other
\* than the one the dialer model takes are therefore absorbed - they change nothing the property speaks of.
DebugRun == Tr[SetupIdx(l)].debug
DebugReread == Is("io") /\ Step /\ DebugRun /\ Ev.res # "ok" /\ hasConn /\ UNCHANGED vars

Visible ==
    \/ DebugReread
    \/ Is("netdial") /\ Step /\ Ev.dl = DialDeadline
                      /\ CASE Ev.res = "ok" -> MDialOk [] Ev.res = "fail" -> MDialFail [] OTHER -> MDialAbort
    \/ Is("io") /\ Step /\ CASE Ev.res = "ok" -> MIoOk /\ ioIdx = Ev.i
                              [] Ev.res = "timeout" -> MIoTimeout /\ (DebugRun \/ ioIdx = Ev.i)
                              [] OTHER -> MIoErr /\ (DebugRun \/ ioIdx = Ev.i)
    \/ Is("setdl") /\ Step /\ CASE Ev.kind = "past" -> WSetDl
                                 [] OTHER -> (MSetup /\ Background /\ dl' = Ev.kind) \/ (MDefer /\ Background /\ Ev.kind = "none")
    \/ Is("close") /\ Step /\ MCloseIf /\ closed'
    \/ Is("ctx_cancel") /\ Step /\ CtxCancel
    \/ Is("return") /\ Step /\ mpc = "returned" /\ err = Ev.err /\ (Ev.connNil = ~hasConn \/ (Ev.connNil = FALSE))
         /\ UNCHANGED vars
    \/ Is("goroutines") /\ Step /\ ~Ev.watcherAlive /\ wpc \in {"idle", "exited"} /\ UNCHANGED vars

Silent ==
    /\ UNCHANGED l
    /\ \/ MStart \/ (MSetup /\ ~Background) \/ MIoDone \/ (MDefer /\ ~Background) \/ MRecv
       \/ (MCloseIf /\ ~closed')
       \/ WSelQuit \/ WSelDone \/ WSend
       \/ CtxExpire \/ TimerFire

TNext == Visible \/ Silent \/ TReset

Mark == TLCSet(1, IF TLCGet(1) > l - 1 THEN TLCGet(1) ELSE l - 1)
Post == PrintT(<<"VERIF-MARK", TLCGet(1)>>) /\ TLCGet(1) = Len(Tr)
\* the safety invariants of Dial are evaluated in every state of every accepted trace
=============================================================================
