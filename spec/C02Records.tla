---------------------------- MODULE C02Records ----------------------------
(* C02: masking records judged by WsBytes!Mask (RFC 6455 5.3). *)
EXTENDS FrameCodec, TLC, Json, IOUtils

R == ndJsonDeserialize(IOEnv.VERIF_FILE)

\* Cipher over consecutive chunks with a running offset, and one-shot
CipherOk(r) == /\ r.out = Mask(r.p, r.key4, r.off)
               /\ r.twice = r.p                    \* involution
\* streaming reader / writer: r.out is what came out for input r.p
StreamOk(r) == /\ r.out = Mask(r.p, r.key4, 0)
               /\ r.callerIntact

FrameOk(r) ==
    LET key == IF r.api \in {"UnmaskFrame", "UnmaskFrameInPlace"} THEN r.inmask ELSE r.outmask IN
    /\ r.out = Mask(r.p, key, 0)
    /\ r.outlen = Len(r.p) /\ r.sameHeader
    /\ CASE r.api \in {"MaskFrame", "MaskFrameWith"} ->
              r.outmasked /\ r.callerAfter = r.p /\ (r.api = "MaskFrameWith" => r.outmask = r.key4)
         [] r.api \in {"MaskFrameInPlace", "MaskFrameInPlaceWith"} ->
              r.outmasked /\ r.callerAfter = r.out /\ (r.api = "MaskFrameInPlaceWith" => r.outmask = r.key4)
         [] r.api = "UnmaskFrame" -> ~r.outmasked /\ r.outmask = ZeroMask /\ r.callerAfter = r.p
         [] r.api = "UnmaskFrameInPlace" -> ~r.outmasked /\ r.outmask = ZeroMask /\ r.callerAfter = r.out
         [] OTHER -> FALSE

Ok(r) == CASE r.k = "cipher" -> CipherOk(r)
           [] r.k = "stream" -> StreamOk(r)
           [] r.k = "frame" -> FrameOk(r)
           [] r.k = "big" -> r.outOK /\ r.callerIntact     \* writes beyond the pooled sizes (compared by the harness' own mask)
           [] OTHER -> FALSE

Bad == {i \in 1..Len(R) : ~Ok(R[i])}
ASSUME PrintT(<<"VERIF-RECORDS", Len(R)>>)
ASSUME PrintT(<<"VERIF-BAD", {<<i, R[i].key>> : i \in Bad}>>)
ASSUME Bad = {}
=============================================================================
