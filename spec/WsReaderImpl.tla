---------------------------- MODULE WsReaderImpl ----------------------------
(***************************************************************************)
(* Implementation-level model of wsutil.Reader (wsutil/reader.go): the     *)
(* struct fields frame / raw.N / State.Fragmented / opCode / utf8 state,   *)
(* and one operator per method - NextFrame (header check, size limit,      *)
(* extension bits, intermediate control frames, continuation callback),    *)
(* Read (implicit NextFrame between fragments, the EOF switch), Discard -  *)
(* over an abstract frame stream with 1-byte headers.                      *)
(*                                                                         *)
(* The application loop is the one the conformance harness runs            *)
(* (NextFrame, then Read(k) until EOF, or Discard).  Each call produces    *)
(* the same event record the harness logs and feeds it to the              *)
(* property-level monitor WsReaderMon; TLC checks for every stream of up   *)
(* to MaxFrames frames over the alphabet (valid and invalid frames), every *)
(* cut point and every read-size sequence that the monitor never rejects   *)
(* (Refines).  BugBareLimitedReader = TRUE is the pre-repair behaviour     *)
(* (payload read through a bare io.LimitedReader).                         *)
(***************************************************************************)
EXTENDS WsReaderMon, TLC

CONSTANTS Sides, MaxFrames, MinFrames, ValidOnly, ReadSizes, Payloads, Cuts, WithExt, WithUtf8, MaxSize, WithInvalid,
          BugBareLimitedReader

CutsNone == {-1}
CutsSim == {-1, 4, 7}
CutsAll == -1..12
PayloadsSmall == {<<>>, <<65>>, <<195, 169>>}          \* "", "A", "é"
PayloadsUtf8 == {<<>>, <<65>>, <<195>>, <<169>>, <<195, 169>>}

\* ---- the frame alphabet: [op, fin, rsv, masked(relative), pay]
DataOps == {1, 2}
FrameAlphabet ==
    [op : {0, 1, 9}, fin : BOOLEAN, rsv : {0}, wrongmask : {FALSE}, pay : Payloads]
      \cup [op : {2}, fin : {TRUE}, rsv : {0}, wrongmask : {FALSE}, pay : {<<195>>}]
      \cup [op : {8}, fin : {TRUE}, rsv : {0}, wrongmask : {FALSE}, pay : {<<>>}]
      \cup (IF WithInvalid THEN
              [op : {1, 0, 9}, fin : {TRUE}, rsv : {4, 2}, wrongmask : {FALSE}, pay : {<<65>>}]
                \cup [op : {1}, fin : {TRUE}, rsv : {0}, wrongmask : {TRUE}, pay : {<<65>>}]
                \cup [op : {3}, fin : {TRUE}, rsv : {0}, wrongmask : {FALSE}, pay : {<<>>}]
            ELSE {})

\* lay the frames out in a stream with 1-byte headers
RECURSIVE Layout(_, _, _, _, _)
Layout(side, fs, i, off, base) ==
    IF i > Len(fs) THEN <<>>
    ELSE LET f == fs[i] n == Len(f.pay) IN
         <<[op |-> f.op, fin |-> f.fin, rsv |-> f.rsv,
            masked |-> IF f.wrongmask THEN side # "server" ELSE side = "server",
            mask |-> <<0, 0, 0, 0>>, len |-> n, pay |-> f.pay,
            hs |-> off, ps |-> off + 1, pe |-> off + 1 + n, base |-> base]>>
         \o Layout(side, fs, i + 1, off + 1 + n, IF f.op < 8 THEN base + n ELSE base)

Scenario(side, fs, cut, ext, utf8, max) ==
    [ev |-> "setup", side |-> side, ext |-> ext, extended |-> ext, utf8 |-> utf8, max |-> max,
     coded |-> FALSE, cbs |-> TRUE, skip |-> FALSE, frames |-> Layout(side, fs, 1, 0, 0), cut |-> cut, cutKind |-> "eof", cbRead |-> 0, contRead |-> 0, discardInvalid |-> FALSE]

VARIABLES sc, m,                     \* scenario, monitor
          pos,                       \* bytes pulled from the source
          frame, rawN, frag, opCode, \* the struct: frame # nil, raw.N, State.Fragmented, opCode
          cur,                       \* index of the frame whose payload raw refers to
          u8, u8on, comp,            \* utf8 automaton state, utf8 wrapping active, MessageState.compressed
          inmsg, dead, steps,
          lastEv,                    \* the event of the last call (for replay into the real Reader)
          params, phase, fs          \* scenario parameters; "build" | "run"; frame specs chosen so far

vars == <<sc, m, pos, frame, rawN, frag, opCode, cur, u8, u8on, comp, inmsg, dead, steps, lastEv, params, phase, fs>>

F == sc.frames
End == IF sc.cut >= 0 THEN sc.cut ELSE IF F = <<>> THEN 0 ELSE F[Len(F)].pe

FrameAt(p) == IF \E i \in 1..Len(F) : F[i].hs = p THEN CHOOSE i \in 1..Len(F) : F[i].hs = p ELSE 0

\* ws.CheckHeader: first broken rule in code order ("" = accepted)
CheckOrder == <<"reserved", "ctl_overflow", "ctl_notfinal", "rsv", "mask_required", "mask_unexpected",
                "cont_expected", "cont_unexpected">>
CheckHeaderImpl(f, fr) ==
    LET B == Broken(HdrOf(f), StateFor(sc, fr)) IN
    IF B = {} THEN "" ELSE CheckOrder[CHOOSE i \in 1..8 : CheckOrder[i] \in B /\ \A k \in 1..(i - 1) : CheckOrder[k] \notin B]

SeenH(f) == [fin |-> f.fin, op |-> f.op, masked |-> f.masked, len |-> f.len,
             rsv |-> IF sc.ext /\ IsData(f.op) /\ f.op # OpCont /\ Rsv1(f.rsv) THEN f.rsv - 4 ELSE f.rsv]
ZeroH == [fin |-> FALSE, op |-> 0, masked |-> FALSE, len |-> 0, rsv |-> 0]

\* bytes of [p, p+n) that exist before the cut
Got(p, n) == IF p + n <= End THEN n ELSE IF End > p THEN End - p ELSE 0

(***************************************************************************)
(* NextFrame: r = [hdr, err, rule, cbs, pos, frame, rawN, frag, opCode,    *)
(*                 cur, u8on, comp]                                        *)
(***************************************************************************)
NF(st) ==
    LET j == FrameAt(st.pos) IN
    IF j = 0 \/ st.pos >= End THEN
        \* readHeader: nothing (more) to read
        [st EXCEPT !.hdr = ZeroH, !.err = IF st.frag THEN "unexpected_eof" ELSE "eof", !.rule = "", !.cbs = <<>>]
    ELSE
      LET f == F[j]
          chk == CheckHeaderImpl(f, st.frag)
          s1 == [st EXCEPT !.pos = f.ps, !.hdr = SeenH(f), !.cbs = <<>>, !.rule = ""]
      IN
      IF chk # "" THEN [s1 EXCEPT !.hdr = HdrOf(f), !.err = "protocol", !.rule = chk]
      ELSE IF sc.max > 0 /\ f.len > sc.max THEN [s1 EXCEPT !.hdr = HdrOf(f), !.err = "too_large"]
      ELSE IF sc.ext /\ Rsv1(f.rsv) /\ (f.op = OpCont \/ IsControl(f.op))
           THEN [s1 EXCEPT !.hdr = HdrOf(f), !.err = "protocol", !.rule = "compression_bit", !.rawN = f.len, !.cur = j]
      ELSE
        LET s2 == [s1 EXCEPT !.rawN = f.len, !.cur = j,
                             !.comp = IF sc.ext /\ IsData(f.op) /\ f.op # OpCont THEN Rsv1(f.rsv) ELSE st.comp]
        IN
        IF st.frag /\ IsControl(f.op) THEN
            \* intermediate control frame: callback reads the payload, the rest is drained
            LET got == Got(f.ps, f.len)
                short == got < f.len
                cb == [kind |-> "intermediate", hdr |-> SeenH(f), pay |-> SubSeq(f.pay, 1, got),
                       payErr |-> IF short /\ ~BugBareLimitedReader THEN "unexpected_eof" ELSE "nil"]
            IN [s2 EXCEPT !.pos = f.ps + got, !.rawN = f.len - got, !.cbs = <<cb>>,
                          !.err = IF short /\ ~BugBareLimitedReader THEN "unexpected_eof" ELSE "nil"]
        ELSE
            [s2 EXCEPT !.opCode = IF st.frag THEN st.opCode ELSE f.op,
                       !.u8on = sc.utf8 /\ (f.op = OpText \/ (st.frag /\ st.opCode = OpText)),
                       !.frame = TRUE,
                       !.cbs = IF f.op = OpCont THEN <<[kind |-> "continuation", hdr |-> SeenH(f), pay |-> <<>>, payErr |-> "nil"]>> ELSE <<>>,
                       !.frag = ~f.fin, !.err = "nil"]

StOf == [pos |-> pos, frame |-> frame, rawN |-> rawN, frag |-> frag, opCode |-> opCode, cur |-> cur,
         u8on |-> u8on, comp |-> comp, hdr |-> ZeroH, err |-> "nil", rule |-> "", cbs |-> <<>>]

Commit(st) == /\ pos' = st.pos /\ frame' = st.frame /\ rawN' = st.rawN /\ frag' = st.frag
              /\ opCode' = st.opCode /\ cur' = st.cur /\ u8on' = st.u8on /\ comp' = st.comp

Emit(e) == /\ m' = RStep(m, e) /\ steps' = steps + 1 /\ lastEv' = e /\ UNCHANGED sc

BaseEv(name) == [ev |-> name, k |-> 0, n |-> 0, data |-> <<>>, lo |-> -1, hi |-> -1, err |-> "nil", rule |-> "",
                 hdr |-> ZeroH, cbs |-> <<>>, pulled |-> pos]

AppNextFrame ==
    /\ ~inmsg /\ ~dead
    /\ LET st == NF(StOf)
           inter == st.err = "nil" /\ st.frame = frame /\ st.cbs # <<>> /\ st.cbs[1].kind = "intermediate"
       IN /\ Commit(st)
          /\ Emit([BaseEv("NextFrame") EXCEPT !.hdr = st.hdr, !.err = st.err, !.rule = st.rule, !.cbs = st.cbs, !.pulled = st.pos])
          /\ dead' = (st.err # "nil")
          /\ inmsg' = (st.err = "nil" /\ st.frame)
          /\ u8' = IF st.err = "nil" /\ ~frag THEN UAcc ELSE u8

\* utf8 over the bytes just read: <<state', accepted count, rejected>>
RECURSIVE U8Feed(_, _, _, _)
U8Feed(st, bytes, i, acc) ==
    IF i > Len(bytes) THEN <<st, acc, FALSE>>
    ELSE LET s2 == UStep(st, bytes[i]) IN
         IF s2 = URej THEN <<s2, acc, TRUE>>
         ELSE U8Feed(s2, bytes, i + 1, IF s2 = UAcc THEN i ELSE acc)

AppRead(k) ==
    /\ inmsg /\ ~dead
    /\ LET st0 == StOf
           \* implicit NextFrame between fragments
           st1 == IF ~frame THEN NF(st0) ELSE st0
           advanced == ~frame
       IN
       IF ~frame /\ ~frag THEN
           /\ Emit([BaseEv("Read") EXCEPT !.k = k, !.err = "no_frame_advance"]) /\ UNCHANGED <<pos, frame, rawN, frag, opCode, cur, u8on, comp, u8, inmsg>>
           /\ dead' = TRUE
       ELSE IF advanced /\ st1.err # "nil" THEN
           /\ Commit(st1) /\ dead' = TRUE /\ UNCHANGED <<u8, inmsg>>
           /\ Emit([BaseEv("Read") EXCEPT !.k = k, !.err = st1.err, !.rule = st1.rule, !.cbs = st1.cbs, !.pulled = st1.pos])
       ELSE IF advanced /\ ~st1.frame THEN
           \* an intermediate control frame was handled: (0, nil)
           /\ Commit(st1) /\ UNCHANGED <<u8, inmsg, dead>>
           /\ Emit([BaseEv("Read") EXCEPT !.k = k, !.cbs = st1.cbs, !.pulled = st1.pos])
       ELSE
         LET f == F[st1.cur]
             want == IF k < st1.rawN THEN k ELSE st1.rawN
             got == Got(st1.pos, want)
             from == f.len - st1.rawN
             bytes == SubSeq(f.pay, from + 1, from + got)
             rawN2 == st1.rawN - got
             \* the transport has nothing more (a short read of the last bytes comes first, without error)
             srcEOF == got = 0 /\ st1.rawN > 0 /\ st1.pos >= End /\ k > 0
             uf == IF st1.u8on THEN U8Feed(u8, bytes, 1, 0) ELSE <<u8, got, FALSE>>
             pos2 == st1.pos + got
         IN
         IF uf[3] THEN   \* UTF8Reader: reject state
             /\ Commit([st1 EXCEPT !.pos = pos2, !.rawN = rawN2]) /\ u8' = URej /\ dead' = TRUE /\ UNCHANGED inmsg
             /\ Emit([BaseEv("Read") EXCEPT !.k = k, !.n = uf[2], !.data = SubSeq(bytes, 1, uf[2]), !.err = "invalid_utf8",
                                            !.cbs = st1.cbs, !.pulled = pos2])
         ELSE IF srcEOF /\ rawN2 # 0 THEN   \* the source ended inside the payload
             /\ Commit([st1 EXCEPT !.pos = pos2, !.rawN = rawN2]) /\ u8' = uf[1] /\ dead' = TRUE /\ UNCHANGED inmsg
             /\ Emit([BaseEv("Read") EXCEPT !.k = k, !.n = got, !.data = bytes, !.err = "unexpected_eof", !.cbs = st1.cbs, !.pulled = pos2])
         ELSE IF rawN2 # 0 THEN
             /\ Commit([st1 EXCEPT !.pos = pos2, !.rawN = rawN2]) /\ u8' = uf[1] /\ UNCHANGED <<inmsg, dead>>
             /\ Emit([BaseEv("Read") EXCEPT !.k = k, !.n = got, !.data = bytes, !.cbs = st1.cbs, !.pulled = pos2])
         ELSE IF st1.frag THEN   \* end of a fragment: resetFragment()
             /\ Commit([st1 EXCEPT !.pos = pos2, !.rawN = 0, !.frame = FALSE]) /\ u8' = uf[1] /\ UNCHANGED <<inmsg, dead>>
             /\ Emit([BaseEv("Read") EXCEPT !.k = k, !.n = got, !.data = bytes, !.cbs = st1.cbs, !.pulled = pos2])
         ELSE IF sc.utf8 /\ uf[1] # UAcc THEN   \* whole message received, utf8 state not accepting
             /\ Commit([st1 EXCEPT !.pos = pos2, !.rawN = 0]) /\ u8' = uf[1] /\ dead' = TRUE /\ UNCHANGED inmsg
             /\ Emit([BaseEv("Read") EXCEPT !.k = k, !.n = uf[2], !.data = SubSeq(bytes, 1, uf[2]), !.err = "invalid_utf8",
                                            !.cbs = st1.cbs, !.pulled = pos2])
         ELSE   \* reset(); io.EOF
             /\ Commit([st1 EXCEPT !.pos = pos2, !.rawN = 0, !.frame = FALSE, !.opCode = 0]) /\ u8' = UAcc
             /\ inmsg' = FALSE /\ UNCHANGED dead
             /\ Emit([BaseEv("Read") EXCEPT !.k = k, !.n = got, !.data = bytes, !.err = "eof", !.cbs = st1.cbs, !.pulled = pos2])

\* Discard(): r = <<st, err, rule, cbs>>
RECURSIVE DiscardLoop(_, _, _)
DiscardLoop(st, cbs, fuel) ==
    LET got == Got(st.pos, st.rawN)
        short == got < st.rawN
        s1 == [st EXCEPT !.pos = st.pos + got, !.rawN = st.rawN - got]
    IN IF short /\ ~BugBareLimitedReader THEN <<s1, "unexpected_eof", "", cbs>>
       ELSE IF ~s1.frag \/ fuel = 0 THEN <<s1, "nil", "", cbs>>
       ELSE LET s2 == NF(s1) IN
            IF s2.err # "nil" THEN <<s2, s2.err, s2.rule, cbs \o s2.cbs>>
            ELSE DiscardLoop(s2, cbs \o s2.cbs, fuel - 1)

AppDiscard ==
    /\ inmsg /\ ~dead
    /\ LET r == DiscardLoop(StOf, <<>>, 8) IN
       /\ Commit([r[1] EXCEPT !.frame = FALSE, !.rawN = 0, !.opCode = 0]) /\ u8' = UAcc
       /\ inmsg' = FALSE /\ dead' = (r[2] # "nil")
       /\ Emit([BaseEv("Discard") EXCEPT !.err = r[2], !.rule = r[3], !.cbs = r[4], !.pulled = r[1].pos])

\* The stream is built frame by frame (phase "build"), then the application runs (phase "run").
Init ==
    \E side \in Sides, ext \in WithExt, utf8 \in WithUtf8, max \in MaxSize, cut \in Cuts :
        /\ params = [side |-> side, ext |-> ext, utf8 |-> utf8, max |-> max, cut |-> cut]
        /\ phase = "build" /\ fs = <<>>
        /\ sc = Scenario(side, <<>>, -1, ext, utf8, max)
        /\ m = RInit(Scenario(side, <<>>, -1, ext, utf8, max))
        /\ pos = 0 /\ frame = FALSE /\ rawN = 0 /\ frag = FALSE /\ opCode = 0 /\ cur = 0
        /\ u8 = UAcc /\ u8on = FALSE /\ comp = FALSE /\ inmsg = FALSE /\ dead = FALSE /\ steps = 0
        /\ lastEv = [ev |-> "setup"]

\* fragmentation state after the frame specs chosen so far
RECURSIVE OpenAfter(_, _, _)
OpenAfter(q, i, open) == IF i > Len(q) THEN open
                         ELSE OpenAfter(q, i + 1, IF q[i].op < 8 THEN ~q[i].fin ELSE open)
\* f keeps the stream valid (used to steer simulation towards long behaviours)
ValidNext(f) ==
    LET open == OpenAfter(fs, 1, FALSE) IN
    /\ ~f.wrongmask /\ f.op \in {0, 1, 2, 8, 9}
    /\ f.op >= 8 => f.fin /\ f.rsv = 0
    /\ f.op < 8 => (open <=> f.op = 0)
    /\ f.rsv # 0 => params.ext /\ f.rsv = 4 /\ f.op \in {1, 2}

AddFrame == /\ phase = "build" /\ Len(fs) < MaxFrames
            /\ \E f \in FrameAlphabet : (ValidOnly => ValidNext(f)) /\ fs' = Append(fs, f)
            /\ UNCHANGED <<params, phase, sc, m, pos, frame, rawN, frag, opCode, cur, u8, u8on, comp, inmsg, dead, steps, lastEv>>

Start == /\ phase = "build" /\ Len(fs) >= MinFrames /\ phase' = "run"
         /\ LET full == Scenario(params.side, fs, -1, params.ext, params.utf8, params.max)
                endp == IF fs = <<>> THEN 0 ELSE full.frames[Len(fs)].pe
                cut == IF params.cut >= 0 /\ params.cut < endp THEN params.cut ELSE -1
                s2 == [full EXCEPT !.cut = cut]
            IN sc' = s2 /\ m' = RInit(s2)
         /\ UNCHANGED <<params, fs, pos, frame, rawN, frag, opCode, cur, u8, u8on, comp, inmsg, dead, steps, lastEv>>

Run == /\ phase = "run" /\ m.bad = "" /\ steps < 24
       /\ \/ AppNextFrame
          \/ \E k \in ReadSizes : AppRead(k)
          \/ AppDiscard
       /\ UNCHANGED <<params, phase, fs>>

Next == AddFrame \/ Start \/ Run

Refines == m.bad = ""
\* C13: the extension state is the RSV1 bit of the current message's first frame
CompState == (sc.ext /\ inmsg /\ ~dead) => comp = m.comp
=============================================================================
