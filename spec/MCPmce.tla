------------------------------- MODULE MCPmce -------------------------------
(* Exhaustive: every configuration x every sequence of up to MaxOffers      *)
(* offers (from all 360 for single offers, from Reps for longer lists),     *)
(* with Reset in between: every response is a legal answer, at most one     *)
(* offer is accepted per upgrade, the accepted one is the first that a      *)
(* fresh negotiator accepts alone, Reset makes the negotiator new, and      *)
(* Parse(Option(p)) = p.                                                    *)
EXTENDS Pmce, TLC

CONSTANTS MaxOffers, SingleOnly

\* representatives for offer lists
Reps == {o \in Offers : o.smwb \in {0, 9, 15} /\ o.cmwb \in {0, 1, 10} /\ (o.cnct = FALSE)}

VARIABLES cfg, accepted, nOffers, lastOffer, lastResp, nAccepted, firstOk, justReset

vars == <<cfg, accepted, nOffers, lastOffer, lastResp, nAccepted, firstOk, justReset>>

Init == /\ cfg \in Configs /\ accepted = FALSE /\ nOffers = 0 /\ lastOffer = Zero /\ lastResp = NoneR
        /\ nAccepted = 0 /\ firstOk = TRUE /\ justReset = TRUE

Negotiate(o) ==
    LET r == NegotiateImpl(cfg, o, accepted)
        alone == NegotiateImpl(cfg, o, FALSE)[1] # NoneR     \* what a fresh negotiator answers
    IN /\ nOffers < MaxOffers
       /\ lastOffer' = o /\ lastResp' = r[1] /\ accepted' = r[2]
       /\ nOffers' = nOffers + 1
       /\ nAccepted' = nAccepted + (IF r[1] # NoneR THEN 1 ELSE 0)
       \* accepted iff it is the first offer in the list that is acceptable alone
       /\ firstOk' = (firstOk /\ ((r[1] # NoneR) = (alone /\ nAccepted = 0)))
       /\ justReset' = FALSE
       /\ UNCHANGED cfg

Reset == /\ ~justReset
         /\ accepted' = FALSE /\ nOffers' = 0 /\ nAccepted' = 0 /\ justReset' = TRUE
         /\ lastResp' = NoneR /\ lastOffer' = Zero /\ UNCHANGED <<cfg, firstOk>>

Next == (\E o \in (IF SingleOnly THEN Offers ELSE Reps) : Negotiate(o)) \/ Reset

Legal == lastResp # NoneR => LegalAnswer(lastOffer, lastResp)
AtMostOne == nAccepted <= 1
FirstAcceptable == firstOk
ResetFresh == justReset => accepted = FALSE /\ nAccepted = 0
\* parameter encoding and parsing are mutual inverses (evaluated once)
ASSUME \A p \in Offers : ParseOption(OptionOf(p)) = p
\* duplicated, unknown and ill-valued parameters are errors
ASSUME /\ ParseOption(<<<<"client_max_window_bits", 0>>, <<"client_max_window_bits", 10>>>>) = ErrP
       /\ ParseOption(<<<<"server_max_window_bits", 7>>>>) = ErrP
       /\ ParseOption(<<<<"server_max_window_bits", 0>>>>) = ErrP
       /\ ParseOption(<<<<"server_no_context_takeover", 1>>>>) = ErrP
       /\ ParseOption(<<<<"x_unknown", 0>>>>) = ErrP
=============================================================================
