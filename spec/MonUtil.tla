------------------------------ MODULE MonUtil ------------------------------
(* Helpers shared by the property-level monitors. *)
EXTENDS Naturals, Sequences

\* first failed clause of a list of <<condition, name>> pairs ("" = all hold)
FirstBad(cs) ==
    IF \A i \in 1..Len(cs) : cs[i][1] THEN ""
    ELSE cs[CHOOSE i \in 1..Len(cs) : ~cs[i][1] /\ \A j \in 1..(i - 1) : cs[j][1]][2]

RECURSIVE ConcatAll(_)
ConcatAll(ss) == IF ss = <<>> THEN <<>> ELSE Head(ss) \o ConcatAll(Tail(ss))
=============================================================================
