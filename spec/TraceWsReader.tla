--------------------------- MODULE TraceWsReader ---------------------------
(***************************************************************************)
(* Trace validation of the real message reader and read helpers against    *)
(* the property-level monitor WsReaderMon.  Same shape as TraceWsWriter:   *)
(* many traces per file, each opened by a "setup" event that carries the   *)
(* scenario (frame list with stream offsets, cut, options).                *)
(***************************************************************************)
EXTENDS WsReaderMon, TLC, Json, IOUtils

Tr == ndJsonDeserialize(IOEnv.VERIF_FILE)

VARIABLES l, m, rej

ASSUME PrintT(<<"VERIF-TRACE", Len(Tr)>>)

None == [bad |-> "", kind |-> "none"]
Init == l = 1 /\ m = None /\ rej = <<>>

StepOf(e) == IF e.ev = "setup" THEN RInit(e) ELSE RStep(m, e)

RECURSIVE NextSetup(_)
NextSetup(i) == IF i > Len(Tr) THEN i ELSE IF Tr[i].ev = "setup" THEN i ELSE NextSetup(i + 1)

Consume == /\ l <= Len(Tr) /\ m.bad = ""
           /\ m' = StepOf(Tr[l]) /\ l' = l + 1 /\ UNCHANGED rej
Skip == /\ m.bad # ""
        /\ rej' = IF Len(rej) < 40 THEN Append(rej, <<l - 1, m.bad>>) ELSE rej
        /\ l' = NextSetup(l) /\ m' = None
Next == Consume \/ Skip

Done == l > Len(Tr) /\ m.bad = ""
Final == Done => PrintT(<<"VERIF-DONE", Len(rej), rej>>)
=============================================================================
