-------------------------------- MODULE Pools --------------------------------
(***************************************************************************)
(* The library's process-global pools (pbufio reader/writer pools, the     *)
(* pbytes pool, wsutil's frame-writer pool) shared by independent          *)
(* sessions - code anchors: server.go / dialer.go (pbufio.Get/Put),        *)
(* wsutil/writer.go, wsutil/cipher.go, wsutil/handler.go (pbytes),         *)
(* util_unsafe.go (zero-copy conversions).                                 *)
(*                                                                         *)
(* A session takes a buffer from the pool, fills it with its own input,    *)
(* derives a result from it and puts the buffer back.  A result is either  *)
(* a copy of the bytes (Alias = FALSE, what the code does) or a view into  *)
(* the pooled buffer (Alias = TRUE, the planted bug).  Another session may *)
(* get the same buffer and overwrite it (recycling).                       *)
(*   C17: every result keeps the value it had when it was returned.        *)
(*   C19: with Put deferred to the end of the operation (EarlyPut = FALSE) *)
(*        every session observes what it would observe alone, under every  *)
(*        interleaving.                                                    *)
(***************************************************************************)
EXTENDS Naturals, FiniteSets, TLC

CONSTANTS Sessions, Bufs, Alias, EarlyPut, MaxOps

VARIABLES owner,      \* Bufs -> Sessions \cup {"pool"}
          content,    \* Bufs -> value currently in the buffer (0 = scrubbed)
          pc,         \* Sessions -> "idle" | "filled" | "derived"
          holding,    \* Sessions -> buffer held (or "none")
          results,    \* Sessions -> set of [val, buf]: value at return; buf = the aliased buffer or "copy"
          observed,   \* Sessions -> value the session computed in its current operation
          ops

vars == <<owner, content, pc, holding, results, observed, ops>>

\* each session writes values only it produces
SVal(s) == IF s = "A" THEN 100 ELSE IF s = "B" THEN 200 ELSE 300

Init == /\ owner = [b \in Bufs |-> "pool"] /\ content = [b \in Bufs |-> 0]
        /\ pc = [s \in Sessions |-> "idle"] /\ holding = [s \in Sessions |-> "none"]
        /\ results = [s \in Sessions |-> {}] /\ observed = [s \in Sessions |-> 0] /\ ops = 0

\* Get a buffer and fill it with this session's input
GetFill(s, b) ==
    /\ pc[s] = "idle" /\ owner[b] = "pool" /\ ops < MaxOps
    /\ owner' = [owner EXCEPT ![b] = s]
    /\ content' = [content EXCEPT ![b] = SVal(s) + ops + 1]
    /\ holding' = [holding EXCEPT ![s] = b]
    /\ pc' = [pc EXCEPT ![s] = "filled"]
    /\ observed' = [observed EXCEPT ![s] = SVal(s) + ops + 1]
    /\ ops' = ops + 1 /\ UNCHANGED results

\* planted bug for C19: the buffer goes back to the pool before the session is done with it
PutEarly(s) ==
    /\ EarlyPut /\ pc[s] = "filled" /\ holding[s] # "none" /\ owner[holding[s]] = s
    /\ owner' = [owner EXCEPT ![holding[s]] = "pool"]
    /\ UNCHANGED <<content, pc, holding, results, observed, ops>>

\* derive the result from what the buffer holds now
Derive(s) ==
    /\ pc[s] = "filled"
    /\ LET b == holding[s] v == content[b] IN
       /\ results' = [results EXCEPT ![s] = @ \cup {[val |-> v, buf |-> IF Alias THEN b ELSE "copy", want |-> observed[s]]}]
       /\ pc' = [pc EXCEPT ![s] = "derived"]
    /\ UNCHANGED <<owner, content, holding, observed, ops>>

Put(s) ==
    /\ pc[s] = "derived"
    /\ owner' = [owner EXCEPT ![holding[s]] = IF owner[holding[s]] = s THEN "pool" ELSE @]
    /\ holding' = [holding EXCEPT ![s] = "none"]
    /\ pc' = [pc EXCEPT ![s] = "idle"]
    /\ UNCHANGED <<content, results, observed, ops>>

Next == \E s \in Sessions : (\E b \in Bufs : GetFill(s, b)) \/ PutEarly(s) \/ Derive(s) \/ Put(s)

\* what a result reads as now
Now(r) == IF r.buf = "copy" THEN r.val ELSE content[r.buf]

\* C17: returned data never changes afterwards
ResultsStable == \A s \in Sessions : \A r \in results[s] : Now(r) = r.val
\* C19: every session derived exactly what it put in (its solo behaviour)
NonInterference == \A s \in Sessions : \A r \in results[s] : r.val = r.want
=============================================================================
