CONSTANTS BugSmwReversed = TRUE
          MaxOffers = 1
          SingleOnly = TRUE
INIT Init
NEXT Next
INVARIANT Legal
INVARIANT AtMostOne
INVARIANT FirstAcceptable
INVARIANT ResetFresh
CHECK_DEADLOCK FALSE
