---------------------------- MODULE WsReaderMon ----------------------------
(***************************************************************************)
(* Property-level specification of the message reader (wsutil.Reader,      *)
(* NextReader, ReadMessage, ReadData and its Client/Server Text/Binary     *)
(* variants): what C04 (reassembly), C05 (first offending frame), C07      *)
(* (UTF-8), C13 (RSV1, receive side), C16 (truncation) and C18 (next       *)
(* message == fresh reader) permit.                                        *)
(*                                                                         *)
(* The environment is a byte stream that the observer built with its own   *)
(* codec from a list of frames `F`, possibly cut at byte offset `cut`.     *)
(* Every public call is one event carrying its results, the callbacks      *)
(* fired inside it and `pulled`, the number of stream bytes the reader has *)
(* taken from the (observer-owned) transport so far - which tells exactly  *)
(* which frame headers it has consumed, so the monitor is deterministic.   *)
(* Left open: how many bytes one Read returns; which of several broken     *)
(* rules is named.                                                         *)
(*                                                                         *)
(* Frame: [op, fin, rsv, masked, mask, len, pay, hs, ps, pe, base]         *)
(*   hs/ps/pe: stream offsets of header start, payload start, payload end  *)
(*   base: number of data-frame payload bytes before this frame            *)
(*   pay: unmasked payload, verbatim (always for control frames; for data  *)
(*        frames unless the scenario is `coded`: position-coded payloads   *)
(*        that are compared as intervals [lo, hi) of the data numbering).  *)
(***************************************************************************)
EXTENDS Naturals, Integers, Sequences, WsControl

Rsv1(rsv) == rsv >= 4

HdrOf(f) == [fin |-> f.fin, rsv |-> f.rsv, op |-> f.op, masked |-> f.masked, len |-> f.len]

StateFor(sc, frag) == [server |-> sc.side = "server", client |-> sc.side = "client",
                       extended |-> sc.extended, fragmented |-> frag]

\* error classes a frame may legitimately be refused with, given the fragmentation state
\* (with SkipHeaderCheck the header rules are not applied; the size limit and the extension's bit check still are)
Refusals(sc, f, frag) ==
    (IF sc.skip THEN {} ELSE {<<"protocol", r>> : r \in Broken(HdrOf(f), StateFor(sc, frag))})
      \cup (IF sc.ext /\ Rsv1(f.rsv) /\ (f.op = OpCont \/ IsControl(f.op)) THEN {<<"protocol", "compression_bit">>} ELSE {})
      \cup (IF sc.max > 0 /\ f.len > sc.max THEN {<<"too_large", "">>} ELSE {})

\* fragmentation state before each frame (as built by the frames before it)
RECURSIVE FragSeq(_, _, _)
FragSeq(F, i, frag) ==
    IF i > Len(F) THEN <<frag>>
    ELSE <<frag>> \o FragSeq(F, i + 1, IF IsData(F[i].op) THEN ~F[i].fin ELSE frag)

\* index of the first offending frame (Len(F)+1 if none)
RECURSIVE FirstOffending(_, _, _)
FirstOffending(sc, fr, i) ==
    IF i > Len(sc.frames) THEN i
    ELSE IF Refusals(sc, sc.frames[i], fr[i]) # {} THEN i
    ELSE FirstOffending(sc, fr, i + 1)

\* last frame of the message whose first frame is i (Len(F)+1 if it never ends)
RECURSIVE MsgLast(_, _)
MsgLast(F, j) == IF j > Len(F) THEN j
                 ELSE IF IsData(F[j].op) /\ F[j].fin THEN j
                 ELSE MsgLast(F, j + 1)

\* concatenated payload of the data frames i..j
RECURSIVE DataOf(_, _, _)
DataOf(F, i, j) == IF i > j \/ i > Len(F) THEN <<>>
                   ELSE (IF IsData(F[i].op) THEN F[i].pay ELSE <<>>) \o DataOf(F, i + 1, j)

\* number of frames whose header has been consumed once P stream bytes are pulled
RECURSIVE Consumed(_, _, _)
Consumed(F, fi, P) == IF fi < Len(F) /\ F[fi + 1].ps <= P /\ (F[fi + 1].ps > F[fi + 1].hs)
                      THEN Consumed(F, fi + 1, P) ELSE fi

RInit(sc) ==
    LET fr == FragSeq(sc.frames, 1, FALSE) IN
    [bad |-> "", sc |-> sc, fr |-> fr, badIdx |-> FirstOffending(sc, fr, 1),
     fi |-> 0,            \* frames whose header has been consumed
     pulled |-> 0,
     inmsg |-> FALSE,     \* a message (or top-level control frame) is open for reading
     first |-> 0,         \* index of its first frame
     del |-> 0,           \* bytes of it delivered so far
     comp |-> FALSE,      \* compression state the extension must report
     dead |-> FALSE]      \* an error was returned: nothing more is promised

\* where the stream ends for the reader
StreamEnd(sc) == IF sc.cut >= 0 THEN sc.cut
                 ELSE IF sc.frames = <<>> THEN 0 ELSE sc.frames[Len(sc.frames)].pe

\* header as the application must see it: RSV1 cleared on a first data frame under the extension
SeenHdr(sc, f) == [fin |-> f.fin, op |-> f.op, masked |-> f.masked, len |-> f.len,
                   rsv |-> IF sc.ext /\ IsData(f.op) /\ f.op # OpCont /\ Rsv1(f.rsv) THEN f.rsv - 4 ELSE f.rsv]
HdrEq(h, s) == h.fin = s.fin /\ h.op = s.op /\ h.masked = s.masked /\ h.len = s.len /\ h.rsv = s.rsv

\* ------------------------------------------------------------------ callbacks
\* Frames fi+1..fi2 had their header consumed during this call (none offending).
\* The intermediate control frames and continuation frames among them must be
\* exactly the callbacks fired, in stream order, each with its exact payload -
\* or, for a cut payload, with an error the callback could see.
RECURSIVE ExpectCbs(_, _, _, _)
ExpectCbs(m, j, j2, frag) ==
    IF j > j2 THEN <<>>
    ELSE LET f == m.sc.frames[j] IN
         (IF IsControl(f.op) /\ frag THEN <<[kind |-> "intermediate", idx |-> j]>>
          ELSE IF f.op = OpCont THEN <<[kind |-> "continuation", idx |-> j]>>
          ELSE <<>>)
         \o ExpectCbs(m, j + 1, j2, IF IsData(f.op) THEN ~f.fin ELSE frag)

CbOk(m, want, cb) ==
    LET f == m.sc.frames[want.idx] IN
    /\ cb.kind = want.kind
    /\ HdrEq(cb.hdr, SeenHdr(m.sc, f))
    /\ want.kind = "intermediate" =>
          \/ (m.sc.cbRead = 0 /\ cb.pay = f.pay /\ cb.payErr \in {"nil", "eof"})
          \* a callback that takes one Read of at most cbRead bytes (or nothing) sees a prefix of the payload
          \/ (m.sc.cbRead # 0 /\ Len(cb.pay) <= (IF m.sc.cbRead > 0 THEN m.sc.cbRead ELSE 0) /\ Len(cb.pay) <= Len(f.pay)
                /\ cb.pay = SubSeq(f.pay, 1, Len(cb.pay)) /\ cb.payErr \in {"nil", "eof"})
          \/ (cb.payErr \notin {"nil", "eof"} /\ m.sc.cut >= 0 /\ m.sc.cut < f.pe)   \* cut inside: must be visible
    \* bytes the continuation callback took out of its reader are the first bytes of that frame's payload
    /\ want.kind = "continuation" =>
          /\ cb.payErr \in {"nil", "refused"}
          /\ Len(cb.pay) <= m.sc.contRead /\ Len(cb.pay) <= Len(f.pay)
          /\ cb.pay = SubSeq(f.pay, 1, Len(cb.pay))

\* one of the callbacks fired in this call returned an error of its own
Refused(cbs) == \E i \in 1..Len(cbs) : cbs[i].payErr = "refused"

RECURSIVE EatenBy(_)
EatenBy(cbs) == IF cbs = <<>> THEN 0
                ELSE (IF Head(cbs).kind = "continuation" THEN Len(Head(cbs).pay) ELSE 0) + EatenBy(Tail(cbs))

\* (entry points without callbacks - NextReader - silently drop intermediate control frames, as documented)
CbsOk(m, fi2, cbs) ==
    IF ~m.sc.cbs THEN cbs = <<>>
    ELSE LET want == ExpectCbs(m, m.fi + 1, fi2, m.fr[m.fi + 1]) IN
         /\ Len(cbs) = Len(want)
         /\ \A i \in 1..Len(want) : CbOk(m, want[i], cbs[i])

\* ------------------------------------------------------------------ data
\* the open message: frames first..last (last may be beyond the stream)
MsgIsCtl(m) == IsControl(m.sc.frames[m.first].op)
MsgLastIdx(m) == IF MsgIsCtl(m) THEN m.first ELSE MsgLast(m.sc.frames, m.first)
\* bytes of the open message contained in frames whose header is consumed (<= fi2)
MsgBytesUpTo(m, fi2) ==
    LET F == m.sc.frames last == MsgLastIdx(m) hi == IF fi2 < last THEN fi2 ELSE last IN
    IF MsgIsCtl(m) THEN F[m.first].len
    ELSE IF hi < m.first THEN 0
    ELSE (IF IsData(F[hi].op) THEN F[hi].base + F[hi].len
          ELSE F[hi].base) - F[m.first].base

\* the n bytes delivered are the next n bytes of the open message
DataOk(m, e) ==
    LET F == m.sc.frames IN
    IF e.n = 0 THEN TRUE
    ELSE IF MsgIsCtl(m) THEN m.del + e.n <= Len(F[m.first].pay) /\ e.data = SubSeq(F[m.first].pay, m.del + 1, m.del + e.n)
    ELSE IF m.sc.coded THEN e.lo = F[m.first].base + m.del /\ e.hi = e.lo + e.n
    ELSE LET whole == DataOf(F, m.first, MsgLastIdx(m)) IN
         \* (more bytes than the message holds is a mismatch, not an evaluation error)
         m.del + e.n <= Len(whole) /\ e.data = SubSeq(whole, m.del + 1, m.del + e.n)

\* whole payload of the open message (verbatim scenarios only)
MsgPayload(m) == IF MsgIsCtl(m) THEN m.sc.frames[m.first].pay
                 ELSE DataOf(m.sc.frames, m.first, MsgLastIdx(m))
\* payload bytes of the open message that lie before stream offset P (pulled so far)
RECURSIVE PulledData(_, _, _, _)
PulledData(F, i, j, P) ==
    IF i > j THEN <<>>
    ELSE (IF IsData(F[i].op) /\ F[i].ps < P
          THEN SubSeq(F[i].pay, 1, IF P >= F[i].pe THEN F[i].len ELSE P - F[i].ps) ELSE <<>>)
         \o PulledData(F, i + 1, j, P)

Utf8Checked(m) == m.sc.utf8 /\ ~m.sc.coded /\ m.sc.frames[m.first].op = OpText

\* ------------------------------------------------------------------ errors
\* the error a call must / may return given what it consumed
\*   fi2 = frames consumed after the call; P = pulled after the call
HitOffending(m, fi2) == m.badIdx <= fi2
\* header of the offending frame must not be exceeded: not a byte of its payload pulled
NoPayloadOfOffending(m, P) == P <= m.sc.frames[m.badIdx].ps
RefusalOk(m, e) == <<e.err, IF e.err = "protocol" THEN e.rule ELSE "">> \in
                      Refusals(m.sc, m.sc.frames[m.badIdx], m.fr[m.badIdx])
AtCut(m, P) == m.sc.cut >= 0 /\ P >= m.sc.cut
CutErr(e) == e.err \in {"unexpected_eof", "transport"} \/ (e.err = "eof")
HardErr(e) == e.err \in {"unexpected_eof", "transport"}

\* ------------------------------------------------------------------ steps
Dead(m) == [m EXCEPT !.dead = TRUE]

\* bookkeeping for frames fi+1..fi2 (all valid): did a new message start, which is open
AdvanceTo(m, fi2, P) ==
    LET F == m.sc.frames IN [m EXCEPT !.fi = fi2, !.pulled = P]

StepNextFrame(m, e) ==
    LET F == m.sc.frames
        P == e.pulled
        fi2 == Consumed(F, m.fi, P)
        j == m.fi + 1
        clean == ~m.fr[j] /\ ~m.inmsg
    IN
    IF m.dead THEN [m EXCEPT !.bad = FirstBad(<< <<e.err # "nil", "call after an error succeeded">> >>), !.pulled = P]
    ELSE IF HitOffending(m, fi2) THEN
        \* C05: refused at the first offending frame, before any of its payload is read
        Dead([m EXCEPT !.bad = FirstBad(<<
            <<fi2 = m.badIdx, "reader went past the offending frame">>,
            <<RefusalOk(m, e), "offending frame not refused with a rule it breaks">>,
            <<NoPayloadOfOffending(m, P), "payload of a refused frame was read">>,
            <<CbsOk(m, m.badIdx - 1, e.cbs), "callbacks fired for the offending frame or wrong callbacks before it">> >>),
          !.pulled = P])
    ELSE IF fi2 = m.fi THEN
        \* no header consumed: the stream ended (or failed) here
        Dead([m EXCEPT !.bad = FirstBad(<<
            <<e.err # "nil", "NextFrame succeeded without consuming a header">>,
            <<AtCut(m, P) \/ P >= StreamEnd(m.sc), "NextFrame failed although the stream continues">>,
            <<e.err = "eof" => clean,
              "clean end of stream reported between the fragments of a message">>,
            <<e.cbs = <<>>, "callback without a frame">> >>),
          !.pulled = P])
    ELSE
      LET f == F[j]
          inter == IsControl(f.op) /\ m.fr[j]      \* intermediate control frame
          cutIn == inter /\ AtCut(m, P) /\ m.sc.cut < f.pe
          \* payload bytes of a continuation frame that the OnContinuation callback took for itself
          eaten == IF f.op = OpCont /\ Len(e.cbs) > 0 THEN Len(e.cbs[Len(e.cbs)].pay) ELSE 0
      IN
      [m EXCEPT
        !.bad = FirstBad(<<
           <<fi2 = j, "NextFrame consumed more than one frame header">>,
           <<HdrEq(e.hdr, SeenHdr(m.sc, f)), "NextFrame returned a header that is not the next frame's">>,
           <<CbsOk(m, fi2, e.cbs), "callbacks do not match the frames consumed (order, header or payload)">>,
           <<cutIn \/ e.err = "nil" \/ (e.err = "callback" /\ Refused(e.cbs)), "NextFrame failed on a valid frame">>,
           <<Refused(e.cbs) => e.err = "callback", "the callback's error did not reach the caller">>,
           <<~inter => P = f.ps + eaten, "NextFrame read payload bytes">>,
           <<inter /\ ~cutIn => P = f.pe, "intermediate control frame not drained">> >>),
        !.fi = fi2, !.pulled = P,
        !.dead = cutIn /\ e.err # "nil",
        \* a data or top-level control frame opens a message; a continuation keeps it
        !.inmsg = IF inter THEN m.inmsg ELSE TRUE,
        !.first = IF inter \/ f.op = OpCont THEN m.first ELSE j,
        !.del = IF inter THEN m.del ELSE IF f.op = OpCont THEN m.del + eaten ELSE 0,
        !.comp = IF IsData(f.op) /\ f.op # OpCont THEN (m.sc.ext /\ Rsv1(f.rsv)) ELSE m.comp]

StepRead(m, e) ==
    LET F == m.sc.frames
        P == e.pulled
        fi2 == Consumed(F, m.fi, P)
    IN
    IF m.dead THEN [m EXCEPT !.bad = FirstBad(<<
                        <<e.err # "nil" /\ e.err # "eof", "Read after an error reported success or end of message">>,
                        <<e.n = 0, "data delivered after an error">> >>), !.pulled = P]
    ELSE IF ~m.inmsg THEN
        [m EXCEPT !.bad = FirstBad(<<
            <<e.err = "no_frame_advance" /\ e.n = 0 /\ P = m.pulled, "Read without NextFrame must fail with ErrNoFrameAdvance">> >>)]
    ELSE
      LET hit == HitOffending(m, fi2)
          \* bytes an OnContinuation callback fired inside this Read took for itself: they come before
          \* whatever this call delivers
          del0 == m.del + EatenBy(e.cbs)
          upto == IF hit THEN m.badIdx - 1 ELSE fi2
          avail == MsgBytesUpTo(m, upto)          \* bytes of the message in frames consumed so far
          last == MsgLastIdx(m)
          allPulled == last <= upto /\ P >= F[last].pe       \* every byte of the message has been received
          complete == allPulled /\ del0 + e.n = avail
          payload == MsgPayload(m)
          valid == ~Utf8Checked(m) \/ WellFormed(payload)
          seen == PulledData(F, m.first, IF last <= Len(F) THEN last ELSE Len(F), P)
          hopeless == Utf8Checked(m) /\ (~StreamAlive(seen) \/ (allPulled /\ ~valid))
          cutHit == P >= StreamEnd(m.sc)            \* the reader has reached the end of what the stream holds
      IN
      [m EXCEPT
        !.bad = FirstBad(<<
           <<e.n <= e.k, "n > len(p)">>,
           <<del0 + e.n <= avail, "delivered bytes the reader has not received yet / beyond the offending frame">>,
           <<DataOk([m EXCEPT !.del = del0], e), "delivered bytes are not the next bytes of the message">>,
           <<CbsOk(m, upto, e.cbs), "callbacks do not match the frames consumed (order, header or payload)">>,
           <<hit => fi2 = m.badIdx /\ RefusalOk(m, e) /\ NoPayloadOfOffending(m, P),
             "offending frame not refused at once (rule, or payload read)">>,
           <<e.err = "eof" => complete /\ valid, "end of message reported for an incomplete or invalid message">>,
           <<e.err = "invalid_utf8" => hopeless, "valid (or still completable) text reported as invalid UTF-8">>,
           <<allPulled /\ ~valid /\ del0 + e.n = avail => e.err # "nil" /\ e.err # "eof", "invalid UTF-8 text message delivered as complete">>,
           <<e.err \in {"protocol", "too_large"} => hit, "protocol error without an offending frame">>,
           <<HardErr(e) => cutHit, "transport error without a cut">>,
           <<e.err \in {"nil", "eof", "invalid_utf8", "protocol", "too_large", "unexpected_eof", "transport", "callback"}, "unexpected error class">>,
           <<(e.err = "callback") = Refused(e.cbs), "an error of the application's callback is reported exactly when it returned one">> >>),
        !.fi = IF hit THEN m.badIdx ELSE fi2, !.pulled = P,
        !.del = del0 + e.n,
        !.inmsg = ~(e.err = "eof"),
        \* (after its own callback's error the application may go on - e.g. Discard the message)
        \* (likewise after invalid UTF-8, when the scenario's caller is one that discards such a message)
        !.dead = e.err \notin {"nil", "eof", "callback"} /\ ~(e.err = "invalid_utf8" /\ m.sc.discardInvalid)]

StepDiscard(m, e) ==
    LET F == m.sc.frames
        P == e.pulled
        fi2 == Consumed(F, m.fi, P)
        hit == HitOffending(m, fi2)
        last == IF m.inmsg THEN MsgLastIdx(m) ELSE m.fi
    IN
    IF m.dead THEN [m EXCEPT !.pulled = P]
    ELSE [m EXCEPT
           !.bad = FirstBad(<<
              <<CbsOk(m, IF hit THEN m.badIdx - 1 ELSE fi2, e.cbs), "callbacks do not match the frames consumed">>,
              <<hit => e.err # "nil" /\ fi2 = m.badIdx /\ NoPayloadOfOffending(m, P), "Discard went past an offending frame">>,
              <<~hit /\ e.err = "nil" => last <= Len(F) /\ fi2 = last /\ P = F[last].pe,
                "Discard did not stop exactly at the end of the message">>,
              <<~hit /\ e.err # "nil" => P >= StreamEnd(m.sc), "Discard failed on a valid stream">>,
              <<e.err # "eof", "Discard reported a clean end of stream">> >>),
           !.fi = fi2, !.pulled = P, !.inmsg = FALSE, !.dead = e.err # "nil"]

\* ------------------------------------------------------------------ helpers (big steps)
\* ReadMessage: the next message, preceded by the control frames interleaved with it
ExpectMsgs(m, j, last) ==
    LET F == m.sc.frames
        ctl == SelectSeq([i \in 1..(last - j + 1) |-> j + i - 1], LAMBDA i : IsControl(F[i].op))
    IN IF IsControl(F[j].op) THEN <<[op |-> F[j].op, pay |-> F[j].pay, lo |-> -1, hi |-> -1]>>
       ELSE [i \in 1..Len(ctl) |-> [op |-> F[ctl[i]].op, pay |-> F[ctl[i]].pay, lo |-> -1, hi |-> -1]]
            \o <<IF m.sc.coded   \* position-coded payloads are named by their range
                 THEN [op |-> F[j].op, pay |-> <<>>, lo |-> F[j].base, hi |-> F[last].base + F[last].len]
                 ELSE [op |-> F[j].op, pay |-> DataOf(F, j, last), lo |-> -1, hi |-> -1]>>

StepReadMessage(m, e) ==
    LET F == m.sc.frames
        P == e.pulled
        fi2 == Consumed(F, m.fi, P)
        j == m.fi + 1
        hit == HitOffending(m, fi2)
        isCtl == j <= Len(F) /\ IsControl(F[j].op)
        last == IF j > Len(F) THEN j ELSE IF isCtl THEN j ELSE MsgLast(F, j)
        whole == last <= Len(F) /\ last < m.badIdx /\ (m.sc.cut < 0 \/ F[last].pe <= m.sc.cut)
        text == ~isCtl /\ j <= Len(F) /\ F[j].op = OpText
        valid == ~whole \/ ~text \/ WellFormed(DataOf(F, j, last))
    IN
    IF m.dead THEN [m EXCEPT !.bad = FirstBad(<< <<e.err # "nil", "call after an error succeeded">> >>), !.pulled = P]
    ELSE
      [m EXCEPT
        !.bad = FirstBad(<<
           <<e.err = "nil" => whole /\ valid, "ReadMessage succeeded on a cut, refused or invalid message">>,
           <<e.err = "nil" /\ whole => fi2 = last /\ P = F[last].pe, "ReadMessage did not stop at the end of the message">>,
           <<e.err = "nil" /\ whole => e.msgs = ExpectMsgs(m, j, last),
             "ReadMessage result is not <interleaved control frames..., message> with exact payloads">>,
           <<whole /\ valid => e.err = "nil", "ReadMessage failed on a valid message">>,
           <<e.err = "eof" => ~m.fr[j] /\ fi2 = m.fi /\ P >= StreamEnd(m.sc), "clean EOF reported inside a message">>,
           <<e.err \in {"protocol", "too_large"} => hit /\ RefusalOk(m, e) /\ NoPayloadOfOffending(m, P),
             "protocol error: no offending frame, wrong rule, or its payload was read">>,
           <<hit => e.err # "nil" /\ fi2 = m.badIdx, "reader went past the offending frame">>,
           <<e.err = "invalid_utf8" => text /\ (~valid \/ ~StreamAlive(PulledData(F, j, IF last <= Len(F) THEN last ELSE Len(F), P))),
             "valid text reported as invalid UTF-8">>,
           <<e.err # "nil" => \A i \in 1..Len(e.msgs) : e.msgs[i] \in {[op |-> F[k].op, pay |-> F[k].pay, lo |-> -1, hi |-> -1] : k \in {k2 \in j..(IF fi2 < Len(F) THEN fi2 ELSE Len(F)) : IsControl(F[k2].op)}},
             "failed ReadMessage returned something that is not a whole control frame">> >>),
        !.fi = fi2, !.pulled = P, !.dead = e.err # "nil"]

\* ReadData(want): handles control frames (replying), skips unwanted data messages
RECURSIVE ExpectReadData(_, _, _, _)
\* returns [last, replies (list of [op, pay] handled control frames), res]:
\*   res = "msg" (message j..last), "closed" (close frame at last), "none" (stream exhausted/undecidable)
ExpectReadData(m, j, want, handled) ==
    LET F == m.sc.frames IN
    IF j > Len(F) \/ j >= m.badIdx THEN [res |-> "none", last |-> j, handled |-> handled]
    ELSE IF IsControl(F[j].op) THEN
        IF F[j].op = OpClose THEN [res |-> "closed", last |-> j, handled |-> Append(handled, j)]
        ELSE ExpectReadData(m, j + 1, want, Append(handled, j))
    ELSE LET last == MsgLast(F, j)
             ctl == SelectSeq([i \in 1..(IF last <= Len(F) THEN last - j + 1 ELSE Len(F) - j + 1) |-> j + i - 1],
                              LAMBDA i : IsControl(F[i].op))
             inner == SelectSeq(ctl, LAMBDA i : i < m.badIdx)
             closeAt == SelectSeq(inner, LAMBDA i : F[i].op = OpClose)
         IN IF closeAt # <<>> THEN [res |-> "closed", last |-> closeAt[1],
                                    handled |-> handled \o SelectSeq(inner, LAMBDA i : i <= closeAt[1])]
            ELSE IF last > Len(F) \/ last >= m.badIdx THEN [res |-> "none", last |-> last, handled |-> handled \o inner]
            ELSE IF \E w \in 1..Len(want) : want[w] = F[j].op THEN [res |-> "msg", first |-> j, last |-> last, handled |-> handled \o inner]
            ELSE ExpectReadData(m, last + 1, want, handled \o inner)

\* frames written while handling the control frames `handled` (indices), in order
RECURSIVE RepliesOk(_, _, _, _)
RepliesOk(m, handled, wrote, e) ==
    IF handled = <<>> THEN IF wrote = <<>> THEN "" ELSE "frames written that answer no control frame"
    ELSE LET f == m.sc.frames[handled[1]]
             n == IF f.op = OpPong THEN 0 ELSE 1
             isLast == Len(handled) = 1
         IN IF Len(wrote) < n THEN "missing reply to a control frame"
            ELSE LET v == ControlReply(m.sc.side, f.op, f.pay, SubSeq(wrote, 1, n),
                                       IF f.op = OpClose THEN e.err ELSE "nil", e.code, e.reason)
                 IN IF v # "" THEN v ELSE RepliesOk(m, Tail(handled), SubSeq(wrote, n + 1, Len(wrote)), e)

StepReadData(m, e) ==
    LET F == m.sc.frames
        P == e.pulled
        fi2 == Consumed(F, m.fi, P)
        x == ExpectReadData(m, m.fi + 1, e.want, <<>>)
        hit == HitOffending(m, fi2)
        intact == m.sc.cut < 0 \/ (x.last <= Len(F) /\ F[x.last].pe <= m.sc.cut)
        msgOk == x.res = "msg" /\ intact
        payload == IF msgOk /\ ~m.sc.coded THEN DataOf(F, x.first, x.last) ELSE <<>>
        valid == ~msgOk \/ m.sc.coded \/ F[x.first].op # OpText \/ WellFormed(payload)
        done == SelectSeq(x.handled, LAMBDA i : i <= fi2 /\ F[i].pe <= P)
    IN
    IF m.dead THEN [m EXCEPT !.bad = FirstBad(<< <<e.err # "nil", "call after an error succeeded">> >>), !.pulled = P]
    ELSE
      [m EXCEPT
        !.bad = FirstBad(<<
           <<e.err = "nil" => msgOk /\ valid, "ReadData succeeded without a complete valid wanted message">>,
           <<e.err = "nil" /\ msgOk => fi2 = x.last /\ P = F[x.last].pe /\ e.op = F[x.first].op
                               /\ (IF m.sc.coded THEN e.lo = F[x.first].base /\ e.hi = F[x.last].base + F[x.last].len
                                   ELSE e.data = payload),
             "ReadData returned something else than the next wanted message">>,
           <<msgOk /\ valid => e.err = "nil", "ReadData failed on a valid stream">>,
           <<e.err = "closed" => x.res = "closed" /\ intact /\ fi2 = x.last, "ClosedError without a close frame">>,
           <<x.res = "closed" /\ intact /\ ~hit => e.err \in {"closed", "protocol"}, "close frame not reported">>,
           \* every control frame received whole was answered as C08 demands - whatever ended the call -
           \* and nothing was written for a control frame that was cut
           <<RepliesOk(m, done, e.wrote, e) = "", RepliesOk(m, done, e.wrote, e)>>,
           <<\A i \in 1..Len(e.wrote) : ReplyFrameOk(m.sc.side, e.wrote[i]),
             "ReadData wrote a frame the peer's header check rejects">>,
           <<hit => e.err # "nil" /\ fi2 = m.badIdx /\ NoPayloadOfOffending(m, P), "reader went past the offending frame">>,
           <<e.err = "too_large" \/ (e.err = "protocol" /\ x.res # "closed") => hit /\ RefusalOk(m, e),
             "protocol error without an offending frame or with a rule it does not break">>,
           <<e.err = "eof" => ~m.fr[fi2 + 1] /\ P >= StreamEnd(m.sc),
             "clean EOF reported inside a message">> >>),
        !.fi = fi2, !.pulled = P, !.dead = e.err # "nil"]

RStep(m, e) ==
    CASE e.ev = "NextFrame" -> StepNextFrame(m, e)
      [] e.ev = "Read" -> StepRead(m, e)
      [] e.ev = "Discard" -> StepDiscard(m, e)
      [] e.ev = "ReadMessage" -> StepReadMessage(m, e)
      [] e.ev = "ReadData" -> StepReadData(m, e)
      \* extension state as reported by MessageState.IsCompressed() after a call
      [] e.ev = "Compressed" -> [m EXCEPT !.bad = FirstBad(<<
              <<m.dead \/ e.compressed = m.comp, "MessageState does not report the RSV1 of the current message's first frame">> >>)]
      [] e.ev = "panic" -> [m EXCEPT !.bad = "panic"]
      [] e.ev = "hang" -> [m EXCEPT !.bad = "reader made no progress (read budget exhausted)"]
      [] OTHER -> [m EXCEPT !.bad = "unknown event"]
=============================================================================
