CONSTANTS Sides = {"server"}
          MinFrames = 0
          ValidOnly = FALSE
          MaxFrames = 3
          ReadSizes = {1, 2}
          Payloads <- PayloadsSmall
          Cuts <- CutsAll
          WithExt = {FALSE}
          WithUtf8 = {TRUE}
          MaxSize = {0}
          WithInvalid = FALSE
          BugBareLimitedReader = FALSE
INIT Init
NEXT Next
INVARIANT Refines
INVARIANT CompState
CHECK_DEADLOCK FALSE
