CONSTANT MaxOps = 3
INIT Init
NEXT Next
INVARIANT Emit
CHECK_DEADLOCK FALSE
