---------------------------- MODULE C10Records ----------------------------
(* C10: client handshakes - responses judged by Handshake!ClientVerdict,   *)
(* requests by the clauses of the property.                                *)
EXTENDS Handshake, TLC, Json, IOUtils

R == ndJsonDeserialize(IOEnv.VERIF_FILE)

RespOk(r) ==
    LET v == ClientVerdict(r.resp) o == r.obs IN
    IF v = "ok"
    THEN /\ o.errNil
         /\ o.proto = r.sentProto /\ o.exts = r.sentExts     \* what the server sent, names and parameters
         /\ o.trailingOK                                      \* every byte after the head readable once, in order
    ELSE ~o.errNil

ReqOk(r) ==
    LET o == r.obs IN
    /\ o.parsed /\ o.method = "GET" /\ o.version = "HTTP/1.1"
    /\ o.uri = r.wantURI
    /\ o.host = r.wantHost /\ o.hostCount = 1
    /\ o.upgrade = "websocket" /\ o.connection = "Upgrade" /\ o.wsversion = "13"
    /\ o.keyIs16Bytes /\ o.keyFresh
    /\ o.protocols = r.wantProtocols
    /\ o.exts = r.wantExts
    /\ o.extraHeader = r.wantExtraHeader
    /\ o.dialAddr = r.wantAddr
    /\ o.tlsHost = r.wantTLSHost
    /\ o.crlfOnly
    /\ o.wrapOK                 \* with WrapConn: all I/O through the wrapper, which is also what Dial returns

Ok(r) == CASE r.k = "resp" -> RespOk(r)
           [] r.k = "req" -> ReqOk(r)
           [] OTHER -> FALSE

Bad == {i \in 1..Len(R) : ~Ok(R[i])}
ASSUME PrintT(<<"VERIF-RECORDS", Len(R)>>)
ASSUME PrintT(<<"VERIF-BAD", {<<i, R[i].key>> : i \in Bad}>>)
ASSUME Bad = {}
=============================================================================
