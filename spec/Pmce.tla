-------------------------------- MODULE Pmce --------------------------------
(***************************************************************************)
(* permessage-deflate negotiation (RFC 7692 section 7.1) - code anchors:   *)
(* wsflate.Extension.Negotiate/Accepted/Reset (wsflate/extension.go),      *)
(* wsflate.Parameters.Parse/Option (wsflate/parameters.go).                *)
(*                                                                         *)
(* Parameters are records [snct, cnct : BOOLEAN, smwb, cmwb : Nat] with    *)
(* 0 = absent, 1 = present without a value (client_max_window_bits only,   *)
(* in an offer), 8..15 = a window size.                                    *)
(***************************************************************************)
EXTENDS Naturals, Sequences, FiniteSets

Bits == 8..15
Offers  == [snct : BOOLEAN, cnct : BOOLEAN, smwb : {0} \cup Bits, cmwb : {0, 1} \cup Bits]   \* 2x2x9x10
Configs == [snct : BOOLEAN, cnct : BOOLEAN, smwb : {0} \cup Bits, cmwb : {0} \cup Bits]      \* 2x2x9x9

\* RFC 7692 7.1: is `resp` a legal answer to `offer`?
LegalAnswer(offer, resp) ==
    \* 7.1.2.1: the server must answer a requested limit with a value not larger than it
    /\ offer.smwb # 0 => resp.smwb # 0 /\ resp.smwb <= offer.smwb
    \* 7.1.2.2: client_max_window_bits only if the client offered it, and not larger than an offered value
    /\ resp.cmwb # 0 => offer.cmwb # 0 /\ (offer.cmwb \in Bits => resp.cmwb <= offer.cmwb)
    \* 7.1.1.1: server_no_context_takeover must be confirmed when asked for
    /\ offer.snct => resp.snct
    \* every window value in a response lies in 8..15 (a value-less parameter is not a response)
    /\ resp.smwb \in {0} \cup Bits /\ resp.cmwb \in {0} \cup Bits

(***************************************************************************)
(* Implementation level: the three comparisons of Extension.Negotiate.     *)
(* BugSmwReversed = TRUE is the pre-repair comparison (offer > want).      *)
(***************************************************************************)
CONSTANT BugSmwReversed

Declines(cfg, offer) ==
    \/ IF BugSmwReversed THEN offer.smwb > cfg.smwb
       ELSE offer.smwb # 0 /\ (cfg.smwb = 0 \/ cfg.smwb > offer.smwb)
    \/ cfg.cmwb > offer.cmwb
    \/ offer.snct /\ ~cfg.snct

NoneR == [snct |-> FALSE, cnct |-> FALSE, smwb |-> 99, cmwb |-> 99]   \* "no response" / declined
ErrP == [snct |-> FALSE, cnct |-> FALSE, smwb |-> 98, cmwb |-> 98]    \* parse error

\* one Negotiate call on a permessage-deflate offer: <<response or NoneR, accepted'>>
NegotiateImpl(cfg, offer, accepted) ==
    IF accepted THEN <<NoneR, TRUE>>
    ELSE IF Declines(cfg, offer) THEN <<NoneR, FALSE>>
    ELSE <<cfg, TRUE>>

(***************************************************************************)
(* Parameter encoding: an option is a sequence of <<name, value>> with     *)
(* value = "" for a value-less parameter (values as naturals, 0 = none).   *)
(***************************************************************************)
Names == {"server_no_context_takeover", "client_no_context_takeover", "server_max_window_bits", "client_max_window_bits"}

OptionOf(p) ==
    (IF p.snct THEN <<<<"server_no_context_takeover", 0>>>> ELSE <<>>)
      \o (IF p.cnct THEN <<<<"client_no_context_takeover", 0>>>> ELSE <<>>)
      \o (IF p.smwb # 0 THEN <<<<"server_max_window_bits", p.smwb>>>> ELSE <<>>)
      \o (IF p.cmwb # 0 THEN <<<<"client_max_window_bits", IF p.cmwb = 1 THEN 0 ELSE p.cmwb>>>> ELSE <<>>)

\* parse an option; ErrP (error) for unknown / duplicated / ill-valued parameters
RECURSIVE ParseFrom(_, _, _, _)
ParseFrom(opt, i, p, seen) ==
    IF i > Len(opt) THEN p
    ELSE LET n == opt[i][1] v == opt[i][2] IN
         IF n \notin Names \/ n \in seen THEN ErrP
         ELSE CASE n = "server_no_context_takeover" ->
                     IF v # 0 THEN ErrP ELSE ParseFrom(opt, i + 1, [p EXCEPT !.snct = TRUE], seen \cup {n})
                [] n = "client_no_context_takeover" ->
                     IF v # 0 THEN ErrP ELSE ParseFrom(opt, i + 1, [p EXCEPT !.cnct = TRUE], seen \cup {n})
                [] n = "server_max_window_bits" ->
                     IF v \notin Bits THEN ErrP ELSE ParseFrom(opt, i + 1, [p EXCEPT !.smwb = v], seen \cup {n})
                [] OTHER ->
                     IF v # 0 /\ v \notin Bits THEN ErrP
                     ELSE ParseFrom(opt, i + 1, [p EXCEPT !.cmwb = IF v = 0 THEN 1 ELSE v], seen \cup {n})

Zero == [snct |-> FALSE, cnct |-> FALSE, smwb |-> 0, cmwb |-> 0]
ParseOption(opt) == ParseFrom(opt, 1, Zero, {})
=============================================================================
