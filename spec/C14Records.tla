---------------------------- MODULE C14Records ----------------------------
(* C14: negotiation records from the real wsflate.Extension / Parameters   *)
(* judged by Pmce!LegalAnswer and Pmce!ParseOption.                        *)
EXTENDS Pmce, TLC, Json, IOUtils

R == ndJsonDeserialize(IOEnv.VERIF_FILE)

P(a) == [snct |-> a[1] = 1, cnct |-> a[2] = 1, smwb |-> a[3], cmwb |-> a[4]]

NegOk(r) ==
    LET n == Len(r.offers)
        accIdx == {i \in 1..n : r.results[i].acc}
        aloneIdx == {i \in 1..n : r.alone[i]}
    IN
    /\ \A i \in 1..n : ~r.results[i].err
    \* every response is a legal answer to its offer
    /\ \A i \in accIdx : LegalAnswer(P(r.offers[i]), P(r.results[i].resp))
    \* at most one accepted, and it is the first one a fresh negotiator accepts alone
    /\ Cardinality(accIdx) <= 1
    /\ accIdx = (IF aloneIdx = {} THEN {} ELSE {CHOOSE i \in aloneIdx : \A j \in aloneIdx : i <= j})
    \* Accepted() reports the flag and the parameters of the accepted offer
    /\ r.acceptedFlag = (accIdx # {})
    /\ accIdx # {} => P(r.acceptedParams) = P(r.offers[CHOOSE i \in accIdx : TRUE])
    \* after Reset the same list gives the same answers (behaves as new)
    /\ r.resetSame

OptSet(o) == {<<o[i][1], o[i][2]>> : i \in 1..Len(o)}

ParseOk(r) ==
    LET want == ParseOption(r.opt) IN
    IF want = ErrP THEN r.err ELSE ~r.err /\ P(r.params) = want

OptionOk(r) == OptSet(r.opt) = OptSet(OptionOf(P(r.params))) /\ Len(r.opt) = Len(OptionOf(P(r.params)))

Ok(r) == CASE r.k = "neg" -> NegOk(r)
           [] r.k = "parse" -> ParseOk(r)
           [] r.k = "option" -> OptionOk(r)
           [] OTHER -> FALSE

Bad == {i \in 1..Len(R) : ~Ok(R[i])}
ASSUME PrintT(<<"VERIF-RECORDS", Len(R)>>)
ASSUME PrintT(<<"VERIF-BAD", {<<i, R[i].key>> : i \in Bad}>>)
ASSUME Bad = {}
=============================================================================
