CONSTANTS MaxLen = 44
          Offsets = {0, 1, 2, 3, 4, 5, 6, 7, 1048577, 1048578}
INIT Init
NEXT Next
INVARIANT PrefixIsOneShot
INVARIANT Involution
INVARIANT ImplIsMask
CHECK_DEADLOCK FALSE
