CONSTANTS Msgs = {}
          Pings = {}
          Codes = {}
          MaxMsgs = 0
          MaxPings = 0
          MaxFrags = 0
          Cap = 1000000
          Bug = "none"
INIT TInit
NEXT TNext
INVARIANT Final
CHECK_DEADLOCK FALSE
