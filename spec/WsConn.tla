------------------------------- MODULE WsConn -------------------------------
(***************************************************************************)
(* One WebSocket connection as a system: a client and an echo server       *)
(* joined by two FIFO channels - the composition of the pieces the other   *)
(* modules describe one by one (frame reader, fragmenting writer, control  *)
(* handler, closing handshake of RFC 6455 5.5.1 / 7.1.2).                  *)
(*                                                                         *)
(* The CLIENT is the most general well-behaved sender: it may send any     *)
(* data message in any fragmentation, pings at any moment (also between    *)
(* the fragments of a message), and finally one close frame, and it may    *)
(* receive at any moment.  The SERVER is the echo loop every application   *)
(* of the library writes (example/autobahn; the sessions of the C19        *)
(* driver):                                                                *)
(*     NextFrame; control frame -> ControlHandler (ping: pong with the     *)
(*     same payload, at once; close: close with the same code, then        *)
(*     stop); data -> read the whole message, write it back through a      *)
(*     Writer (any fragmentation), then read on.                           *)
(* One server step per frame: the server never receives while it still     *)
(* owes a reply (spend) or an echo (secho) - wsutil.Reader does not read   *)
(* ahead and ControlHandler writes its reply before it returns.            *)
(*                                                                         *)
(* A frame is [op, fin, mdg, pdg, code]:                                   *)
(*   op   "data" (first frame of a message) | "cont" | "ping" | "pong"     *)
(*        | "close"                                                        *)
(*   mdg  identity of the WHOLE message, carried by its final frame ("" on *)
(*        the others); in traces a digest of the reassembled application   *)
(*        payload (after unmasking and inflating)                          *)
(*   pdg  identity of a control payload                                    *)
(*   code close status (0 = none)                                          *)
(*                                                                         *)
(* Properties: EchoCorrect, PongCorrect, CloseCorrect, NothingAfterClose   *)
(* (safety), Closes (liveness).  Binding: TraceWsConn replays the frame    *)
(* events of real concurrent sessions, linearised by the transport's lock. *)
(***************************************************************************)
EXTENDS Naturals, Sequences, FiniteSets, TLC

CONSTANTS Msgs,        \* message identities the model-checked client may send
          Pings,       \* ping payload identities
          Codes,       \* close codes
          MaxMsgs, MaxPings, MaxFrags,   \* bounds for model checking
          Cap,         \* channel capacity in frames
          Bug          \* "none" | planted server defects for anti-vacuity: "closecode" (always answers 1000),
                       \* "droppong" (a ping between the fragments of a message is not answered)

VARIABLES c2s, s2c,            \* frames in flight
          copen, cfrags,       \* client: a message is open; frames sent of it
          csent, cpings,       \* history: messages completed / pings sent by the client
          cclosed, ccode,      \* client has sent close (and with which code)
          cgot, cpongs,        \* history: messages / pongs delivered to the client
          cracc,               \* client: frames of the message being received
          cdone, cgotcode,     \* client has received the server's close
          spend,               \* server: replies it owes before it receives again
          secho, sfrags,       \* server: message it is echoing ("" = none), frames sent of it
          sdone,               \* server has sent its close and stopped
          sopen,               \* server: in the middle of receiving a fragmented message
          nsent                \* bound: pings sent

vars == <<c2s, s2c, copen, cfrags, csent, cpings, cclosed, ccode, cgot, cpongs, cracc, cdone, cgotcode,
          spend, secho, sfrags, sdone, sopen, nsent>>

Frame(op, fin, mdg, pdg, code) == [op |-> op, fin |-> fin, mdg |-> mdg, pdg |-> pdg, code |-> code]

Init ==
    /\ c2s = <<>> /\ s2c = <<>>
    /\ copen = FALSE /\ cfrags = 0 /\ csent = <<>> /\ cpings = <<>>
    /\ cclosed = FALSE /\ ccode = 0 /\ cgot = <<>> /\ cpongs = <<>> /\ cracc = 0
    /\ cdone = FALSE /\ cgotcode = 0
    /\ spend = <<>> /\ secho = "" /\ sfrags = 0 /\ sdone = FALSE /\ sopen = FALSE /\ nsent = 0

----------------------------------------------------------------------------
(* client *)

\* a data frame: the first of a message is "data", the others "cont"; the final one names the message
CSendDataG(f) ==
    /\ ~cclosed /\ Len(c2s) < Cap
    /\ f.op = (IF copen THEN "cont" ELSE "data")
    /\ (f.fin <=> f.mdg # "") /\ f.pdg = "" /\ f.code = 0
CSendData(f) ==
    /\ CSendDataG(f)
    /\ c2s' = Append(c2s, f)
    /\ copen' = ~f.fin
    /\ cfrags' = (IF f.fin THEN 0 ELSE cfrags + 1)
    /\ csent' = (IF f.fin THEN Append(csent, f.mdg) ELSE csent)
    /\ UNCHANGED <<s2c, cpings, cclosed, ccode, cgot, cpongs, cracc, cdone, cgotcode, spend, secho, sfrags, sdone, sopen, nsent>>

CSendPingG(f) ==
    /\ ~cclosed /\ Len(c2s) < Cap
    /\ f.op = "ping" /\ f.fin /\ f.mdg = "" /\ f.code = 0
CSendPing(f) ==
    /\ CSendPingG(f)
    /\ c2s' = Append(c2s, f)
    /\ cpings' = Append(cpings, f.pdg)
    /\ nsent' = nsent + 1
    /\ UNCHANGED <<s2c, copen, cfrags, csent, cclosed, ccode, cgot, cpongs, cracc, cdone, cgotcode, spend, secho, sfrags, sdone, sopen>>

\* the close frame ends the client's sending (here: only between messages)
CSendCloseG(f) ==
    /\ ~cclosed /\ ~copen /\ Len(c2s) < Cap
    /\ f.op = "close" /\ f.fin /\ f.mdg = ""
CSendClose(f) ==
    /\ CSendCloseG(f)
    /\ c2s' = Append(c2s, f)
    /\ cclosed' = TRUE /\ ccode' = f.code
    /\ UNCHANGED <<s2c, copen, cfrags, csent, cpings, cgot, cpongs, cracc, cdone, cgotcode, spend, secho, sfrags, sdone, sopen, nsent>>

CRecvG == s2c # <<>> /\ ~cdone
CRecv ==
    /\ CRecvG
    /\ LET f == Head(s2c) IN
       /\ s2c' = Tail(s2c)
       /\ cgot' = (IF f.op \in {"data", "cont"} /\ f.fin THEN Append(cgot, f.mdg) ELSE cgot)
       /\ cracc' = (IF f.op \in {"data", "cont"} THEN (IF f.fin THEN 0 ELSE cracc + 1) ELSE cracc)
       /\ cpongs' = (IF f.op = "pong" THEN Append(cpongs, f.pdg) ELSE cpongs)
       /\ cdone' = (f.op = "close")
       /\ cgotcode' = (IF f.op = "close" THEN f.code ELSE cgotcode)
    /\ UNCHANGED <<c2s, copen, cfrags, csent, cpings, cclosed, ccode, spend, secho, sfrags, sdone, sopen, nsent>>

----------------------------------------------------------------------------
(* echo server *)

SRecvG == c2s # <<>> /\ ~sdone /\ spend = <<>> /\ secho = ""
SRecv ==
    /\ SRecvG
    /\ LET f == Head(c2s) IN
       /\ c2s' = Tail(c2s)
       /\ spend' = CASE f.op = "ping" /\ ~(Bug = "droppong" /\ sopen) -> <<Frame("pong", TRUE, "", f.pdg, 0)>>
                     [] f.op = "close" -> <<Frame("close", TRUE, "", "", IF Bug = "closecode" THEN 1000 ELSE f.code)>>
                     [] OTHER -> <<>>
       /\ secho' = (IF f.op \in {"data", "cont"} /\ f.fin THEN f.mdg ELSE "")
       /\ sopen' = (IF f.op \in {"data", "cont"} THEN ~f.fin ELSE sopen)
    /\ sfrags' = 0
    /\ UNCHANGED <<s2c, copen, cfrags, csent, cpings, cclosed, ccode, cgot, cpongs, cracc, cdone, cgotcode, sdone, nsent>>

\* the reply the control handler owes: exactly that frame (a close reply may carry any reason)
SSendCtlG(f) ==
    /\ spend # <<>> /\ Len(s2c) < Cap
    /\ LET w == Head(spend) IN
       /\ f.op = w.op /\ f.fin /\ f.mdg = "" /\ f.code = w.code
       /\ (w.op = "pong" => f.pdg = w.pdg)
SSendCtl(f) ==
    /\ SSendCtlG(f)
    /\ s2c' = Append(s2c, f)
    /\ spend' = Tail(spend)
    /\ sdone' = (f.op = "close")
    /\ UNCHANGED <<c2s, copen, cfrags, csent, cpings, cclosed, ccode, cgot, cpongs, cracc, cdone, cgotcode, secho, sfrags, sopen, nsent>>

\* the echo: one message, fragmented as the writer likes, whose final frame names the message received
SSendEchoG(f) ==
    /\ secho # "" /\ spend = <<>> /\ Len(s2c) < Cap
    /\ f.op = (IF sfrags = 0 THEN "data" ELSE "cont")
    /\ f.pdg = "" /\ f.code = 0
    /\ (f.fin <=> f.mdg # "")
    /\ (f.fin => f.mdg = secho)
SSendEcho(f) ==
    /\ SSendEchoG(f)
    /\ s2c' = Append(s2c, f)
    /\ secho' = (IF f.fin THEN "" ELSE secho)
    /\ sfrags' = (IF f.fin THEN 0 ELSE sfrags + 1)
    /\ UNCHANGED <<c2s, copen, cfrags, csent, cpings, cclosed, ccode, cgot, cpongs, cracc, cdone, cgotcode, spend, sdone, sopen, nsent>>

----------------------------------------------------------------------------
(* bounded instance for model checking *)

SCtl == spend # <<>> /\ SSendCtl(Head(spend))
SEcho == \E fin \in BOOLEAN :
            /\ (fin \/ sfrags + 1 < MaxFrags)
            /\ SSendEcho(Frame(IF sfrags = 0 THEN "data" ELSE "cont", fin, IF fin THEN secho ELSE "", "", 0))

Next ==
    \/ \E m \in Msgs, fin \in BOOLEAN :
          /\ Len(csent) < MaxMsgs /\ (fin \/ cfrags + 1 < MaxFrags)
          /\ CSendData(Frame(IF copen THEN "cont" ELSE "data", fin, IF fin THEN m ELSE "", "", 0))
    \/ \E p \in Pings : nsent < MaxPings /\ CSendPing(Frame("ping", TRUE, "", p, 0))
    \/ \E k \in Codes : CSendClose(Frame("close", TRUE, "", "", k))
    \/ CRecv
    \/ SRecv
    \/ SCtl
    \/ SEcho

Fair == /\ WF_vars(CRecv) /\ WF_vars(SRecv) /\ WF_vars(SCtl) /\ WF_vars(SEcho)

Spec == Init /\ [][Next]_vars /\ Fair

----------------------------------------------------------------------------
(* properties *)

IsPrefix(s, t) == Len(s) <= Len(t) /\ SubSeq(t, 1, Len(s)) = s

\* every message delivered to the client is the next message it sent: nothing lost, changed, duplicated
\* or reordered on the way there and back
EchoCorrect == IsPrefix(cgot, csent)
\* pongs come back with the pings' payloads, in the pings' order
PongCorrect == IsPrefix(cpongs, cpings)
\* the closing handshake: the server's close answers the client's, with its code
CloseCorrect == /\ (cdone => cclosed /\ cgotcode = ccode)
                /\ (sdone => cclosed)
\* a close frame is the last frame in its direction
NothingAfterClose ==
    /\ \A i \in 1..Len(s2c) : s2c[i].op = "close" => i = Len(s2c)
    /\ \A i \in 1..Len(c2s) : c2s[i].op = "close" => i = Len(c2s)
    /\ (sdone => spend = <<>> /\ secho = "")
ServerSilentAfterClose == [][sdone => (s2c' = s2c \/ s2c' = Tail(s2c))]_vars
\* at the end everything the client sent came back
Complete == cdone => cgot = csent /\ cpongs = cpings /\ c2s = <<>> /\ s2c = <<>>

AllInv == EchoCorrect /\ PongCorrect /\ CloseCorrect /\ NothingAfterClose /\ Complete

\* once the client has sent its close, the handshake completes
Closes == cclosed ~> (cdone /\ sdone)
=============================================================================
