------------------------------ MODULE Handshake ------------------------------
(***************************************************************************)
(* The opening handshake (RFC 6455 section 4) as decision functions over   *)
(* abstract requests and responses - code anchors: ws.Upgrader.Upgrade,    *)
(* ws.HTTPUpgrader.Upgrade (server.go), ws.Dialer.Upgrade (dialer.go),     *)
(* http.go, util.go, nonce.go.                                             *)
(*                                                                         *)
(* An abstract request gives, for the request line and each mandatory      *)
(* header, a token class; the conformance harness renders classes to bytes *)
(* (choosing spellings, blanks, header order, line ends) and logs what the *)
(* real upgrader answered.  Classes:                                       *)
(*   method   "GET" | "POST" | "get"                                       *)
(*   version  "1.1" | "1.2" | "1.0" | "2.0" | "0.9" | "garbage"            *)
(*   host, upgrade, connection, wsversion, key:                            *)
(*     "absent" | "ok" | "varied" (case / blanks / token inside a list)    *)
(*     | "dup" (twice, same valid value) | "wrong" | key only: "len23",    *)
(*     "len25", "empty", "latebad", "earlybad" (a second, ill-sized key     *)
(*     line), "nonb64" (24 characters that are not base64:                  *)
(*     open) | wsversion only: "other" (a different number), "lead0" (013,  *)
(*     13.0, +13: not literally 13)                                         *)
(* cfg: reject in "none" | "onrequest" | "onhost" | "onheader" | "onbefore"*)
(*      | "negotiate", rejectStatus (0 = plain error -> 500)               *)
(***************************************************************************)
EXTENDS Integers, Sequences, FiniteSets

Good == {"ok", "varied", "dup"}

VersionOk(v) == v \in {"1.1", "1.2"}
VersionParsed(v) == v # "garbage"

\* does a callback get the chance to object (it is only reached if the
\* request line and everything before it was fine)
CallbackFires(req, cfg) ==
    /\ cfg.reject # "none" /\ VersionOk(req.version) /\ req.method = "GET"
    /\ CASE cfg.reject = "onhost" -> req.host \in Good
         [] cfg.reject = "onheader" -> req.extra
         \* the negotiator objects to every offer, or only to the extension named cfg.rejectExt
         [] cfg.reject = "negotiate" -> IF cfg.rejectExt = "" THEN req.exts # <<>>
                                        ELSE \E i \in 1..Len(req.exts) : req.exts[i] = cfg.rejectExt
         [] OTHER -> TRUE

\* the built-in checks: set of HTTP statuses that name a real problem
Problems(req) ==
    (IF ~VersionOk(req.version) THEN {505} ELSE {})
      \cup (IF req.method # "GET" THEN {405} ELSE {})
      \cup (IF req.host \notin Good \/ req.upgrade \notin Good \/ req.connection \notin Good THEN {400} ELSE {})
      \cup (IF req.wsversion = "absent" THEN {400} ELSE {})
      \* ("contra": a line saying 13 and a line saying another version, in either order - the request does
      \*  not carry "Sec-WebSocket-Version: 13" but two contradicting claims)
      \cup (IF req.wsversion \in {"wrong", "other", "lead0", "contra"} THEN {426} ELSE {})
      \* ("latebad" / "earlybad": a valid key plus another Sec-WebSocket-Key line that is not 24 characters
      \*  long, after / before all other headers - a key that is not 24 characters long is always refused)
      \cup (IF req.key \in {"absent", "len23", "len25", "empty", "latebad", "earlybad"} THEN {400} ELSE {})

\* a Sec-WebSocket-Protocol value that breaks the token-list grammar before any acceptable token:
\* refused (RFC 6455 4.2.2 /1) by an upgrader that looks at the header, i.e. has a selector
\* (likewise when the application's own ProtocolCustom / ExtensionCustom callback reports the header
\* value as malformed; the callback only runs when the header is there)
ProtoProblem(req, cfg) ==
    \/ req.protoBad # "" /\ cfg.hasSelector
    \/ cfg.custom = "refuse" /\ (req.protos # <<>> \/ req.protoBad # "")
    \/ cfg.extMode = "customrefuse" /\ req.exts # <<>>
    \* a Sec-WebSocket-Extensions value that breaks the list grammar (possibly after well-formed items):
    \* refused by an upgrader that looks at the header, i.e. has an extension selector or negotiator
    \/ req.extBad # "" /\ cfg.extMode \in {"select", "negotiate"}

KeyOpen(req) == req.key = "nonb64"

\* must the upgrade succeed / fail?  ("open": either)
ServerVerdict(req, cfg) ==
    IF ~VersionParsed(req.version) THEN "fail"
    ELSE IF Problems(req) # {} THEN "fail"
    ELSE IF ProtoProblem(req, cfg) THEN "fail"
    ELSE IF CallbackFires(req, cfg) THEN "fail"
    ELSE IF KeyOpen(req) THEN "open"
    ELSE "ok"

\* the status a rejecting callback produces: its own, or 500 for a plain error (rejectStatus 0) and for a
\* rejection that names headers / a reason but no status (rejectStatus -1, a negative number in the logs)
\* (rejectStatus -2: a plain error that wraps one of the library's own handshake errors)
RejectStatusOf(cfg) == IF cfg.rejectStatus \in {0, 0 - 1, 0 - 2} THEN 500 ELSE cfg.rejectStatus
RejectBringsHeader(cfg) == cfg.rejectStatus \notin {0, 0 - 2}

\* statuses the error response may carry
AllowedStatus(req, cfg) ==
    Problems(req) \cup (IF ProtoProblem(req, cfg) THEN {400} ELSE {}) \cup
      (IF cfg.reject # "none" THEN {RejectStatusOf(cfg)} ELSE {})
      \cup (IF KeyOpen(req) THEN {400} ELSE {})

\* first element of the client's list that the selector accepts ("" if none)
RECURSIVE FirstAccepted(_, _)
FirstAccepted(offered, accept) ==
    IF offered = <<>> THEN ""
    ELSE IF \E i \in 1..Len(accept) : accept[i] = Head(offered) THEN Head(offered)
    ELSE FirstAccepted(Tail(offered), accept)

SeqSet(s) == {s[i] : i \in 1..Len(s)}

(***************************************************************************)
(* Client side: abstract response classes                                  *)
(*   proto    "1.1" | "1.2" | "1.0" | "2.0" | "garbage"                    *)
(*   status   "101" | "other3" | "short" | "long" | "nondigit" | "wrap"    *)
(*            | "empty"   (only the literal token 101 is a 101)            *)
(*   upgrade, connection: "absent" | "ok" | "varied" | "wrong" | "dup"     *)
(*   accept   "absent" | "ok" | "varied" | "dup" | "otherkey" | "short"    *)
(*            | "lowbits" (only the unused low bits of the last base64     *)
(*            symbol differ) | "casefold" | "padded": all not the value    *)
(*   protocol "none" | "requested" | "foreign" | "reqforeign" (a requested *)
(*            one and, on another line, a foreign one) | "foreignlist"     *)
(*   exts     "none" | "offered" | "offeredparams" | "offered2" (two       *)
(*            offered ones in one line) | "foreign" | "mixed" | "mixedrev" *)
(*            | "mixedmid" (a foreign one after / before / between offered)*)
(***************************************************************************)
ClientVerdict(resp) ==
    IF /\ resp.proto \in {"1.1", "1.2"} /\ resp.status = "101"
       /\ resp.upgrade \in Good /\ resp.connection \in Good /\ resp.accept \in Good
       /\ resp.protocol \in {"none", "requested"}
       /\ resp.exts \in {"none", "offered", "offeredparams", "offered2"}
       /\ ~resp.cut
       /\ ~resp.veto           \* no application callback (Dialer.OnHeader) refused one of the other headers
    THEN "ok" ELSE "fail"
=============================================================================
