CONSTANTS Sides = {"server"}
          MinFrames = 0
          ValidOnly = FALSE
          MaxFrames = 3
          ReadSizes = {1, 2}
          Payloads <- PayloadsSmall
          Cuts <- CutsNone
          WithExt = {FALSE, TRUE}
          WithUtf8 = {FALSE}
          MaxSize = {0, 1}
          WithInvalid = TRUE
          BugBareLimitedReader = FALSE
INIT Init
NEXT Next
INVARIANT Refines
INVARIANT CompState
CHECK_DEADLOCK FALSE
