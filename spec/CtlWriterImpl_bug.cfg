CONSTANTS L7 = 4  L16 = 9  H7 = 1  H16 = 2  H64 = 3  ML = 1
          BugResetKeepsErr = FALSE  BugReadFromNotDirty = FALSE  BugCtlNoCount = TRUE
          Sides = {"server", "client"}
          Ops = {9}
          WriteSizes = {0, 1, 2, 3, 4, 5}
          MaxCalls = 6
INIT CInit
NEXT CNext
INVARIANT CtlRefines
CHECK_DEADLOCK FALSE
