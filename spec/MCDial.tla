------------------------------- MODULE MCDial -------------------------------
(* Exhaustive exploration of Dial over every configuration: context kind x *)
(* timeout relation x NetDial behaviour x peer behaviour (responsive,      *)
(* silent or failing from operation i) with K handshake operations.       *)
EXTENDS Dial

CONSTANTS Watched, K

Configs ==
    {c \in [ctxKind : {"background", "cancel", "deadline"},
            timeout : {"none", "shorter", "longer"},
            dialmode : {"ok", "fail", "hang"},
            peer : [mode : {"ok", "silent", "error"}, at : 1..K],
            K : {K}, kfree : {FALSE}, watched : {Watched}] :
        \* without a context deadline "shorter"/"longer" mean the same: keep one
        /\ (c.ctxKind # "deadline" => c.timeout # "longer")
        /\ (c.peer.mode = "ok" => c.peer.at = 1)}

Init == \E c \in Configs : InitWith(c)
Spec == Init /\ [][Next]_vars /\ Fairness
=============================================================================
