CONSTANTS MaxLen = 7
          Sizes = {2, 3, 4}
