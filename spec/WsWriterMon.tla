---------------------------- MODULE WsWriterMon ----------------------------
(***************************************************************************)
(* Property-level specification of the fragmenting writer (wsutil.Writer)  *)
(* and the control-frame writer (wsutil.ControlWriter): what C06, C08      *)
(* (control writer), C13 (RSV1 on the first frame only), C16 (sticky       *)
(* destination failure) and C18 (reset == fresh) permit, and nothing more. *)
(*                                                                         *)
(* It is a monitor: MonStep(m, e) consumes one public-API event e (call,   *)
(* arguments, results, and the frames that reached the destination during  *)
(* the call, decoded and unmasked by the observer's own codec) and returns *)
(* the next monitor state; m.bad # "" names the first clause that e broke. *)
(* The same monitor judges                                                 *)
(*   - every behaviour of the implementation-level model WsWriterImpl      *)
(*     (TLC, exhaustive, small constants), and                             *)
(*   - every trace recorded from the real code (TraceWsWriter).            *)
(*                                                                         *)
(* Caller bytes are numbered globally 0,1,2,... in the order they are      *)
(* offered; a frame's payload is the interval [lo, hi) of those numbers    *)
(* (lo = -1 when the payload is not that interval of the caller's bytes).  *)
(*                                                                         *)
(* Freedom left open on purpose (DESIGN 6.2): where fragment boundaries    *)
(* fall, whether a final flush after only empty writes emits an empty      *)
(* frame or nothing, ReadFrom's return value after a destination failure.  *)
(***************************************************************************)
EXTENDS Naturals, Integers, Sequences, MonUtil

IsDataOp(op) == op \in {1, 2}

\* monitor state of a freshly constructed / reset writer
Fresh(side, op, size, acc) ==
    [bad |-> "", side |-> side, op |-> op, noflush |-> FALSE, comp |-> FALSE,
     acc |-> acc,          \* caller bytes reported accepted so far
     sent |-> acc,         \* caller bytes that reached the destination in whole frames
     inmsg |-> 0,          \* frames of the current message already on the wire
     failed |-> FALSE,     \* a destination write has failed
     touched |-> FALSE,    \* some write-like call since the last final flush
     wrote |-> 0,          \* bytes accepted since the last final flush
     plain |-> TRUE,       \* only plain Write calls since the last final flush
     copyonly |-> TRUE,    \* only Write / ReadFrom calls since the last final flush
     fits |-> TRUE,        \* every cumulative total so far was <= Size()
     nfwhole |-> FALSE,    \* flushing has been disabled since before the current message began
     size |-> size]

(***************************************************************************)
(* Fold the whole frames seen during one call.  Each must continue the     *)
(* message correctly; a final frame is legal only as the last frame of a   *)
(* Flush.  Returns <<bad, sent', inmsg'>>.                                 *)
(***************************************************************************)
RECURSIVE FoldFrames(_, _, _, _, _)
FoldFrames(m, out, i, sent, inmsg) ==
    IF i > Len(out) THEN <<"", sent, inmsg>>
    ELSE
      LET f == out[i]
          b == FirstBad(<<
                 <<f.op = (IF inmsg = 0 THEN m.op ELSE 0), "frame opcode: first = configured op, rest = continuation">>,
                 <<f.rsv = (IF inmsg = 0 /\ m.comp /\ IsDataOp(m.op) THEN 4 ELSE 0), "rsv bits: rsv1 exactly on the first frame of a compressed message">>,
                 <<f.masked = (m.side = "client"), "masked iff client side">>,
                 <<f.lo = sent /\ f.hi = sent + f.len, "payload = next accepted bytes in order (mask key correctly applied)">>,
                 <<f.fin => i = Len(out), "only the last frame of a flush may be final">> >>)
      IN IF b # "" THEN <<b, sent, inmsg>>
         ELSE FoldFrames(m, out, i + 1, f.hi, IF f.fin THEN 0 ELSE inmsg + 1)

NoFin(out) == \A i \in 1..Len(out) : ~out[i].fin

\* common treatment of a call that may emit non-final fragments
Fragments(m, e, acc2) ==
    LET r == FoldFrames(m, e.out, 1, m.sent, m.inmsg) IN
    [bad |-> FirstBad(<<
        <<r[1] = "", r[1]>>,
        <<NoFin(e.out), "a non-flush call emitted a final frame">>,
        <<e.rest = 0 \/ e.destFailed, "bytes at the destination are not whole frames at the call boundary">>,
        <<e.late = 0, "bytes offered to the destination after its failure">>,
        <<e.destFailed \/ r[2] <= acc2, "sent more than accepted">> >>),
     sent |-> r[2], inmsg |-> r[3]]

\* after the destination failed: error on every later call, no further bytes
AfterFailure(m, e, needErr) ==
    [m EXCEPT !.bad = FirstBad(<<
        <<~needErr \/ e.err # "nil", "call after a failed destination write returned no error">>,
        <<e.out = <<>> /\ e.rest = 0 /\ e.late = 0, "bytes sent after a failed destination write">> >>),
      !.acc = m.acc + e.n]

Healthy(m, e) == ~m.failed /\ ~e.destFailed

StepWrite(m, e) ==
    IF m.failed THEN AfterFailure(m, e, TRUE)
    ELSE
      LET acc2 == m.acc + e.n
          fr == Fragments(m, e, acc2)
          wrote2 == m.wrote + e.n
      IN [m EXCEPT
           !.bad = FirstBad(<<
              <<e.n <= e.k, "n > len(p)">>,
              <<e.destFailed \/ (e.err = "nil" /\ e.n = e.k), "healthy Write must accept everything without error">>,
              <<e.destFailed => e.err # "nil", "failed destination write not reported">>,
              <<fr.bad = "", fr.bad>>,
              <<m.noflush /\ ~e.destFailed => e.out = <<>>, "flush disabled: Write sent bytes">> >>),
           !.acc = acc2, !.sent = fr.sent, !.inmsg = fr.inmsg,
           !.failed = e.destFailed, !.touched = TRUE, !.wrote = wrote2,
           !.fits = m.fits /\ wrote2 <= e.size, !.size = e.size]

StepWriteThrough(m, e) ==
    IF m.failed THEN AfterFailure(m, e, TRUE)
    ELSE IF e.err = "ext" THEN
      \* a send extension refused the frame: nothing accepted, nothing sent, the writer is as it was
      [m EXCEPT !.bad = FirstBad(<<
          <<e.n = 0 /\ e.out = <<>> /\ e.rest = 0, "a write-through refused by an extension must accept and send nothing">> >>)]
    ELSE IF m.acc - m.sent > 0 THEN
      [m EXCEPT !.bad = FirstBad(<<
          <<e.err = "not_empty" /\ e.n = 0 /\ e.out = <<>> /\ e.rest = 0,
            "WriteThrough with buffered data must fail with ErrNotEmpty and send nothing">> >>)]
    ELSE
      LET acc2 == m.acc + e.n
          fr == Fragments(m, e, acc2)
      IN [m EXCEPT
           !.bad = FirstBad(<<
              <<e.n <= e.k, "n > len(p)">>,
              <<e.destFailed \/ (e.err = "nil" /\ e.n = e.k), "healthy WriteThrough must accept everything">>,
              <<e.destFailed => e.err # "nil", "failed destination write not reported">>,
              <<fr.bad = "", fr.bad>>,
              <<~e.destFailed => fr.sent = acc2 /\ Len(e.out) >= 1, "WriteThrough must send its bytes at once">> >>),
           !.acc = acc2, !.sent = fr.sent, !.inmsg = fr.inmsg, !.failed = e.destFailed,
           !.touched = TRUE, !.wrote = m.wrote + e.n, !.plain = FALSE, !.copyonly = FALSE]

StepReadFrom(m, e) ==
    \* (a copy into the writer is a write: "reports the error on every later write and flush")
    IF m.failed THEN AfterFailure(m, e, TRUE)
    ELSE
      LET acc2 == m.acc + e.n
          fr == Fragments(m, e, acc2)
      IN [m EXCEPT
           !.bad = FirstBad(<<
              <<e.n <= e.total, "ReadFrom reports more than the source gave">>,
              <<~e.destFailed /\ e.srcErr = "eof" => e.err = "nil" /\ e.n = e.total, "ReadFrom must copy the source to EOF">>,
              <<~e.destFailed /\ e.srcErr # "eof" => e.err = e.srcErr, "ReadFrom must report the source's error">>,
              <<~e.destFailed => e.n = e.total, "ReadFrom must account for every byte the source delivered (also those that came with the error)">>,
              <<fr.bad = "", fr.bad>>,
              <<m.noflush /\ ~e.destFailed => e.out = <<>>, "flush disabled: ReadFrom sent bytes">> >>),
           !.acc = acc2, !.sent = fr.sent, !.inmsg = fr.inmsg, !.failed = e.destFailed,
           !.touched = m.touched \/ e.n > 0 \/ e.srcErr = "eof", !.wrote = m.wrote + e.n,
           !.plain = FALSE, !.size = e.size]

StepFlushFragment(m, e) ==
    IF m.failed THEN AfterFailure(m, e, TRUE)
    ELSE
      LET fr == Fragments(m, e, m.acc) IN
      [m EXCEPT
        !.bad = FirstBad(<<
           <<e.destFailed \/ e.err = "nil", "healthy FlushFragment returned an error">>,
           <<e.destFailed => e.err # "nil", "failed destination write not reported">>,
           <<fr.bad = "", fr.bad>>,
           <<~e.destFailed => fr.sent = m.acc, "FlushFragment left accepted bytes unsent">>,
           <<m.acc = m.sent => e.out = <<>>, "FlushFragment with an empty buffer sent a frame">> >>),
        !.sent = fr.sent, !.inmsg = fr.inmsg, !.failed = e.destFailed,
        !.plain = FALSE, !.copyonly = FALSE]

StepFlush(m, e) ==
    IF m.failed THEN AfterFailure(m, e, TRUE)
    ELSE
      LET r == FoldFrames(m, e.out, 1, m.sent, m.inmsg)
          pending == m.acc - m.sent > 0
          nothing == ~m.touched /\ m.inmsg = 0 /\ ~pending
          onlyEmpty == m.touched /\ m.wrote = 0 /\ m.inmsg = 0 /\ ~pending
          n == Len(e.out)
      IN [m EXCEPT
           !.bad = FirstBad(<<
              <<e.destFailed \/ e.err = "nil", "healthy Flush returned an error">>,
              <<e.destFailed => e.err # "nil", "failed destination write not reported">>,
              <<r[1] = "", r[1]>>,
              <<e.rest = 0 \/ e.destFailed, "bytes at the destination are not whole frames at the call boundary">>,
              <<nothing => e.out = <<>>, "final flush with nothing written emitted a frame">>,
              <<~e.destFailed /\ ~nothing /\ ~onlyEmpty => n >= 1 /\ e.out[n].fin /\ r[2] = m.acc /\ r[3] = 0,
                "final flush must end the message with a final frame carrying every accepted byte">>,
              <<~e.destFailed /\ onlyEmpty => n = 0 \/ (n = 1 /\ e.out[1].fin /\ e.out[1].len = 0),
                "final flush after only empty writes: nothing or one empty final frame">>,
              <<~e.destFailed /\ ~nothing /\ ~onlyEmpty /\ m.plain /\ m.fits => m.inmsg = 0 /\ n = 1,
                "data that fits the buffer must leave as a single frame">>,
              <<~e.destFailed /\ ~nothing /\ ~onlyEmpty /\ m.nfwhole /\ m.copyonly => m.inmsg = 0 /\ n = 1,
                "flush disabled: the whole message must leave as one frame">> >>),
           !.sent = r[2], !.inmsg = r[3], !.failed = e.destFailed,
           !.touched = FALSE, !.wrote = 0, !.plain = TRUE, !.copyonly = TRUE, !.fits = TRUE,
           !.nfwhole = m.noflush]

\* Grow: no output, never shrinks
StepGrow(m, e) ==
    [m EXCEPT !.bad = FirstBad(<<
        <<e.out = <<>> /\ e.rest = 0, "Grow sent bytes">>,
        <<e.size >= m.size, "Grow shrank the buffer">> >>),
      !.size = e.size]

StepOther(m, e) ==
    CASE e.ev = "DisableFlush" ->
           [m EXCEPT !.noflush = TRUE, !.nfwhole = m.nfwhole \/ (~m.touched /\ m.inmsg = 0 /\ m.acc = m.sent)]
      [] e.ev = "SetExt" -> [m EXCEPT !.comp = e.compressed]
      \* Reset / pooled reuse: behaves as a freshly constructed writer from here on (C18)
      [] e.ev = "Reset" -> Fresh(e.side, e.op, e.size, m.acc)
      \* ResetOp: drops unflushed fragments, keeps extensions and the flush mode
      [] e.ev = "ResetOp" ->
           [m EXCEPT !.op = e.op, !.sent = m.acc, !.inmsg = 0, !.touched = FALSE, !.wrote = 0,
                     !.plain = TRUE, !.copyonly = TRUE, !.fits = TRUE, !.nfwhole = m.noflush]
      [] OTHER -> [m EXCEPT !.bad = "unknown event"]

MonStep(m, e) ==
    CASE e.ev = "Write" -> StepWrite(m, e)
      [] e.ev = "WriteThrough" -> StepWriteThrough(m, e)
      [] e.ev = "ReadFrom" -> StepReadFrom(m, e)
      [] e.ev = "FlushFragment" -> StepFlushFragment(m, e)
      [] e.ev = "Flush" -> StepFlush(m, e)
      [] e.ev = "Grow" -> StepGrow(m, e)
      [] OTHER -> StepOther(m, e)

(***************************************************************************)
(* Control-frame writer (C08): never a non-final, continuation or          *)
(* oversized frame; a write that would exceed the limit fails.             *)
(***************************************************************************)
\* oklimit: total up to which writes must succeed (125, or less for a small caller buffer)
\* limit: the protocol limit (125; scaled down in the exhaustive model)
CtlFresh(side, op, limit, oklimit) == [bad |-> "", side |-> side, op |-> op, pending |-> 0, total |-> 0,
                                       limit |-> limit, oklimit |-> oklimit, failed |-> FALSE]

CtlStep(c, e) ==
    CASE e.ev = "CWrite" ->
           [c EXCEPT
             !.bad = FirstBad(<<
                <<c.pending + e.k > c.limit => e.err # "nil" /\ e.n = 0, "write beyond the 125-byte control limit was accepted">>,
                <<e.err = "nil" => e.n = e.k, "n # len(p) without error">>,
                <<c.total + e.k <= c.oklimit /\ ~c.failed => e.err = "nil", "write within the limit refused">>,
                <<e.out = <<>>, "control writer sent bytes before Flush">> >>),
             !.pending = c.pending + e.n, !.total = c.total + e.n]
      [] e.ev = "CFlush" ->
           [c EXCEPT
             !.bad = FirstBad(<<
                <<\A i \in 1..Len(e.out) :
                     /\ e.out[i].fin /\ e.out[i].op = c.op /\ e.out[i].len <= c.limit
                     /\ e.out[i].masked = (c.side = "client") /\ e.out[i].rsv = 0,
                  "control writer emitted a non-final, continuation, oversized or wrongly masked frame">>,
                <<Len(e.out) <= 1 /\ e.rest = 0, "control flush emitted more than one frame">>,
                <<c.pending > 0 /\ e.err = "nil" => Len(e.out) = 1 /\ e.out[1].lo >= 0 /\ e.out[1].len = c.pending,
                  "control flush lost or altered payload bytes">> >>),
             !.pending = 0]
      [] OTHER -> [c EXCEPT !.bad = "unknown event"]
=============================================================================
