---------------------------- MODULE C07Records ----------------------------
(* C07: the standalone validating reader (wsutil.UTF8Reader) judged by the *)
(* RFC 3629 definition in Utf8.tla, for every chunking that was logged.    *)
EXTENDS Utf8, TLC, Json, IOUtils

R == ndJsonDeserialize(IOEnv.VERIF_FILE)

IsPrefixOf(a, b) == Len(a) <= Len(b) /\ a = SubSeq(b, 1, Len(a))

Ok(r) ==
    LET alive == StreamAlive(r.input) valid == WellFormed(r.input) IN
    /\ IsPrefixOf(r.got, r.input)
    /\ ~alive => r.err = "invalid_utf8" /\ ~r.valid       \* some prefix can no longer become valid
    /\ alive => r.err = "eof" /\ r.got = r.input /\ r.valid = valid

Bad == {i \in 1..Len(R) : ~Ok(R[i])}
ASSUME PrintT(<<"VERIF-RECORDS", Len(R)>>)
ASSUME PrintT(<<"VERIF-BAD", {<<i, R[i].key>> : i \in Bad}>>)
ASSUME Bad = {}
=============================================================================
