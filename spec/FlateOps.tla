------------------------------ MODULE FlateOps ------------------------------
(***************************************************************************)
(* The stream logic around the (uninterpreted) DEFLATE compressor of       *)
(* permessage-deflate, RFC 7692 7.2.1/7.2.2 - code anchors: wsflate.cbuf   *)
(* (withholds the last four bytes), wsflate.Writer.Flush/Close/checkTail,  *)
(* wsflate.suffixedReader (source followed by a 9-byte tail).              *)
(*                                                                         *)
(* Property level: after the compressor has emitted the byte string cout,  *)
(* the destination has received cout without its last min(4, |cout|)       *)
(* bytes; Flush succeeds iff cout ends with 00 00 ff ff, otherwise the     *)
(* writer fails and stays failed.                                          *)
(* Implementation level: cbuf.Write's split/shift arithmetic.              *)
(***************************************************************************)
EXTENDS Naturals, Sequences, TLC

Tail4 == <<0, 0, 255, 255>>
ReadTail == <<0, 0, 255, 255, 1, 0, 0, 255, 255>>

Min2(a, b) == IF a < b THEN a ELSE b
LastN(s, n) == SubSeq(s, Len(s) - Min2(n, Len(s)) + 1, Len(s))
ButLastN(s, n) == SubSeq(s, 1, Len(s) - Min2(n, Len(s)))

\* property level
Forwarded(cout) == ButLastN(cout, 4)
FlushOk(cout) == Len(cout) >= 4 /\ LastN(cout, 4) = Tail4
SuffixedRead(src) == src \o ReadTail

(***************************************************************************)
(* cbuf.Write(p) as in wsflate/cbuf.go: state [buf (4 bytes), n, fwd].     *)
(***************************************************************************)
CbufWrite(c, p) ==
    LET np == Len(p)
        head == IF np > 4 THEN SubSeq(p, 1, np - 4) ELSE <<>>
        tail == IF np > 4 THEN SubSeq(p, np - 3, np) ELSE p
        n1 == c.n + Len(tail)
        x == IF n1 > 4 THEN n1 - 4 ELSE 0
        \* flush c.buf[:x]; shift the rest left
        fwd1 == c.fwd \o SubSeq(c.buf, 1, x)
        buf1 == SubSeq(c.buf, x + 1, 4) \o [i \in 1..x |-> 0]
        nA == c.n - x
        fwd2 == fwd1 \o head
        \* copy(c.buf[c.n:], tail)
        buf2 == [i \in 1..4 |-> IF i > nA /\ i <= nA + Len(tail) THEN tail[i - nA] ELSE buf1[i]]
    IN [buf |-> buf2, n |-> Min2(nA + Len(tail), 4), fwd |-> fwd2]

CbufInit == [buf |-> <<0, 0, 0, 0>>, n |-> 0, fwd |-> <<>>]
=============================================================================
