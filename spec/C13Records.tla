---------------------------- MODULE C13Records ----------------------------
(***************************************************************************)
(* C13, the header-level view (RFC 7692 6: the Per-Message Compressed bit  *)
(* RSV1 belongs to the first frame of a data message only).                *)
(*   receive (UnsetBits): a first data frame (text / binary) is accepted    *)
(*     with any RSV1, which is cleared in the header handed on and becomes  *)
(*     the state; RSV1 on a continuation or control frame is an error;      *)
(*     other frames pass unchanged and do not disturb the state;            *)
(*   send (SetBits): RSV1 already set is an error; a first data frame gets  *)
(*     RSV1 iff the message is marked compressed; other frames never get it;*)
(*   RSV2 / RSV3 and every other header field are never touched.            *)
(***************************************************************************)
EXTENDS Naturals, Sequences, TLC, Json, IOUtils

R == ndJsonDeserialize(IOEnv.VERIF_FILE)

Rsv1(r) == (r \div 4) % 2 = 1
Clear1(r) == IF Rsv1(r) THEN r - 4 ELSE r
Set1(r) == IF Rsv1(r) THEN r ELSE r + 4
FirstData(op) == op \in {1, 2}
\* (reserved non-control opcodes 3..7 count as data for IsData(); the header check refuses them elsewhere)
DataLike(op) == op \in 1..7

Ok(r) ==
    LET first == DataLike(r.op) r1 == Rsv1(r.rsv) IN
    \* wsflate.UnsetBit / IsCompressed (fresh state)
    /\ (first => ~r.uerr /\ r.urs = Clear1(r.rsv) /\ r.uwas = r1)
    /\ (~first /\ r1 => r.uerr)
    /\ (~first /\ ~r1 => ~r.uerr /\ r.urs = r.rsv /\ ~r.uwas)
    /\ r.usame
    /\ r.ierr = r.uerr /\ (~r.ierr => r.ic = r.uwas)
    \* MessageState.UnsetBits with an earlier state
    /\ r.muerr = r.uerr /\ (~r.muerr => r.murs = r.urs)
    /\ r.after = (IF first THEN r1 ELSE r.prev)
    \* wsflate.SetBit (message compressed)
    /\ (r1 => r.serr)
    /\ (~r1 /\ first => ~r.serr /\ r.srs = Set1(r.rsv))
    /\ (~r1 /\ ~first => ~r.serr /\ r.srs = r.rsv)
    /\ r.ssame
    \* MessageState.SetBits with the message's state
    /\ r.mserr = r1
    /\ (~r1 => r.msrs = (IF first /\ r.prev THEN Set1(r.rsv) ELSE r.rsv))
    /\ r.stateKept

Bad == {i \in 1..Len(R) : ~Ok(R[i])}
ASSUME PrintT(<<"VERIF-RECORDS", Len(R)>>)
ASSUME PrintT(<<"VERIF-BAD", {<<i, R[i].key>> : i \in Bad}>>)
ASSUME Bad = {}
=============================================================================
