---------------------------- MODULE C01Records ----------------------------
(***************************************************************************)
(* C01: judge records logged by the real header codec against FrameCodec.  *)
(* Variable-free module: TLC evaluates the ASSUMEs.                        *)
(***************************************************************************)
EXTENDS FrameCodec, TLC, Json, IOUtils

R == ndJsonDeserialize(IOEnv.VERIF_FILE)

NormH(h) == [h EXCEPT !.mask = IF h.masked THEN h.mask ELSE ZeroMask]

\* a decoder run over the bytes of a complete minimal header + trailing payload
DecOfEncOk(d, h, n) ==
    /\ d.st = "ok" /\ ~d.neg
    /\ d.h = NormH(h)
    /\ d.consumed = n                \* not one byte beyond the header

EncOk(r) ==
    /\ IsHeader(r.h)
    /\ ~r.werr
    /\ r.wbytes = Encode(r.h)
    /\ r.size = HeaderSizeOf(r.h) /\ r.size = Len(r.wbytes)
    /\ RoundTrip(r.h, <<165, 90>>)   \* the oracle agrees with itself here
    /\ \A i \in 1..Len(r.decs) : DecOfEncOk(r.decs[i], r.h, Len(r.wbytes))

\* a decoder run over an arbitrary byte string
DecOk(r) ==
    LET D == Decode(r.input) ds == r.decs IN
    /\ \A i \in 1..Len(ds) : ~ds[i].neg
    /\ CASE D.st \in {"short", "msb"} -> \A i \in 1..Len(ds) : ds[i].st = "err"
         [] D.st = "ok" /\ D.minimal ->
              \A i \in 1..Len(ds) : ds[i].st = "ok" /\ ds[i].h = D.h /\ ds[i].consumed = D.consumed
         [] OTHER -> \* non-minimal length form: open, but all decoders decide alike
              /\ \A i, j \in 1..Len(ds) : ds[i].st = ds[j].st /\ ds[i].h = ds[j].h
              /\ \A i \in 1..Len(ds) : ds[i].st = "ok" => ds[i].h = D.h /\ ds[i].consumed = D.consumed

FrameOk(r) ==
    LET e == Encode(r.h) IN
    /\ IsHeader(r.h) /\ Small8(r.h.len) /\ Val8(r.h.len) = r.plen
    /\ ~r.werr /\ r.whdr = e /\ r.wtotal = Len(e) + r.plen /\ r.wpayOK
    /\ ~r.cerr /\ r.chdr = e /\ r.ctotal = Len(e) + r.plen /\ r.cpayOK
    /\ r.inhdr = e                    \* the harness' own codec is validated too
    /\ r.rerr = "nil" /\ r.rh = NormH(r.h) /\ r.rpayOK /\ r.rconsumed = Len(e) + r.plen
    /\ r.mustOK

FrameCutOk(r) == r.rerr # "nil" /\ r.mustPanics

\* one streaming reader decoding the headers r.hs one after the other
SeqOk(r) ==
    /\ Len(r.decs) = Len(r.hs)
    /\ \A i \in 1..Len(r.hs) : IsHeader(r.hs[i]) /\ DecOfEncOk(r.decs[i], r.hs[i], Len(Encode(r.hs[i])))

Ok(r) == CASE r.k = "enc" -> EncOk(r)
           [] r.k = "dec" -> DecOk(r)
           [] r.k = "frame" -> FrameOk(r)
           [] r.k = "framecut" -> FrameCutOk(r)
           [] r.k = "seq" -> SeqOk(r)
           [] r.k = "framebig" -> r.rerr = "nil" /\ r.rpayOK /\ r.rlen = r.plen   \* header codec + exactly `length` payload bytes
           [] r.k = "conc" -> r.ok       \* concurrent goroutines each got their own headers, byte for byte
           [] OTHER -> FALSE

Bad == {i \in 1..Len(R) : ~Ok(R[i])}

ASSUME PrintT(<<"VERIF-RECORDS", Len(R)>>)
ASSUME PrintT(<<"VERIF-BAD", {<<i, R[i].key>> : i \in Bad}>>)
ASSUME Bad = {}
=============================================================================
