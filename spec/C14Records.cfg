CONSTANT BugSmwReversed = FALSE
