CONSTANTS L7 = 2  L16 = 5  H7 = 1  H16 = 2  H64 = 3  ML = 1
          BugResetKeepsErr = TRUE  BugReadFromNotDirty = FALSE
          Sides = {"server", "client"}
          Ops = {1}
          RawSizes = {2, 3, 4, 5, 7, 8, 9}
          WriteSizes = {0, 1, 2, 3, 7}
          MaxCalls = 4
          FailAts = {0, 1, 2}
          MaxRaw = 64
INIT Init
NEXT Next
INVARIANT Refines
INVARIANT HeaderFits
INVARIANT BufferBounds
INVARIANT ResetIsFresh
INVARIANT AfterFailNoWrites
CHECK_DEADLOCK FALSE
