---------------------------- MODULE FlateStream ----------------------------
(* Exhaustive check that cbuf.Write (FlateOps!CbufWrite) refines the       *)
(* property-level description for every chunking of every byte string up   *)
(* to MaxTotal bytes over Alphabet, and that Writer.Reset (cbuf.reset)     *)
(* makes the pair behave as new (C18): the flush verdict of the code,      *)
(* which looks at the four held bytes only (Writer.checkTail), agrees with *)
(* the property for what the compressor emitted since the reset.           *)
(* BugResetKeepsTail plants a reset that leaves the held bytes in place.   *)
EXTENDS FlateOps

CONSTANTS Alphabet, MaxTotal, MaxChunk, MaxResets, BugResetKeepsTail

VARIABLES c, cout, resets

CbufReset(x) == [buf |-> IF BugResetKeepsTail THEN x.buf ELSE <<0, 0, 0, 0>>, n |-> 0, fwd |-> <<>>]

\* Writer.checkTail: w.cbuf.buf != compressionTail
CodeFlushOk(x) == x.buf = Tail4

Init == c = CbufInit /\ cout = <<>> /\ resets = 0
Emit == \E k \in 0..MaxChunk : \E p \in [1..k -> Alphabet] :
           /\ Len(cout) + k <= MaxTotal
           /\ c' = CbufWrite(c, p) /\ cout' = cout \o p /\ UNCHANGED resets
Reset == /\ resets < MaxResets
         /\ c' = CbufReset(c) /\ cout' = <<>> /\ resets' = resets + 1
Next == Emit \/ Reset

\* the implementation refines the property
Refines == /\ c.fwd = Forwarded(cout)
           /\ c.n = Min2(4, Len(cout))
           /\ SubSeq(c.buf, 1, c.n) = LastN(cout, 4)
           /\ (c.buf = Tail4 /\ c.n = 4) = FlushOk(cout)
           /\ CodeFlushOk(c) = FlushOk(cout)

\* C18: a reset writer is indistinguishable from a new one
ResetIsFresh == cout = <<>> => c = CbufInit
=============================================================================
