---------------------------- MODULE FlateStream ----------------------------
(* Exhaustive check that cbuf.Write (FlateOps!CbufWrite) refines the       *)
(* property-level description for every chunking of every byte string up   *)
(* to MaxTotal bytes over Alphabet.                                        *)
EXTENDS FlateOps

CONSTANTS Alphabet, MaxTotal, MaxChunk

VARIABLES c, cout

Init == c = CbufInit /\ cout = <<>>
Next == \E k \in 0..MaxChunk : \E p \in [1..k -> Alphabet] :
           /\ Len(cout) + k <= MaxTotal
           /\ c' = CbufWrite(c, p) /\ cout' = cout \o p

\* the implementation refines the property
Refines == /\ c.fwd = Forwarded(cout)
           /\ c.n = Min2(4, Len(cout))
           /\ SubSeq(c.buf, 1, c.n) = LastN(cout, 4)
           /\ (c.buf = Tail4 /\ c.n = 4) = FlushOk(cout)
=============================================================================
