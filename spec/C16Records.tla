---------------------------- MODULE C16Records ----------------------------
(***************************************************************************)
(* C16, the frame-level API and the handshakes: a transport that ends or   *)
(* fails at byte offset `cut` of a unit of `total` bytes.                  *)
(*   cut < total  => the call reports an error (never success); a server   *)
(*                   that was cut has not answered 101                     *)
(*   cut = total  => success, whatever the way the end is signalled        *)
(* A write that fails inside a handshake makes the handshake fail.         *)
(* (An io.EOF for a frame of which not one payload byte arrived is an      *)
(* error report and is accepted; once a part of the payload was delivered  *)
(* the error must not be io.EOF.)                                          *)
(***************************************************************************)
EXTENDS Naturals, Sequences, TLC, Json, IOUtils

R == ndJsonDeserialize(IOEnv.VERIF_FILE)

FrameOk(r) ==
    IF r.cut < r.total
    THEN /\ r.err # "nil" /\ ~r.payOK
         /\ (r.cut > r.hn => r.err # "eof")
         /\ (r.cut < r.hn => r.herr # "nil")
    ELSE r.err = "nil" /\ r.payOK /\ r.herr = "nil"

SrvOk(r) == IF r.cut < r.total THEN r.err /\ ~r.wrote101 ELSE ~r.err /\ r.wrote101
CliOk(r) == IF r.cut < r.total THEN r.err ELSE ~r.err
\* the debug wrapper around the dialer: same verdict, one report, of exactly the bytes that arrived
CliDebugOk(r) == CliOk(r) /\ r.calls = 1 /\ r.reportedOK
WriteOk(r) == r.writes >= r.failAt => r.err

\* a compressed message whose source FAILS (no clean end) at offset cut: the failure reaches the caller
FlateOk(r) == r.err # "nil"

Ok(r) == CASE r.k = "frame" -> FrameOk(r)
           [] r.k = "flate" -> FlateOk(r)
           [] r.k = "srv" -> SrvOk(r)
           [] r.k = "cli" -> CliOk(r)
           [] r.k = "clidebug" -> CliDebugOk(r)
           [] r.k \in {"srvwrite", "cliwrite"} -> WriteOk(r)
           [] OTHER -> FALSE

Bad == {i \in 1..Len(R) : ~Ok(R[i])}
ASSUME PrintT(<<"VERIF-RECORDS", Len(R)>>)
ASSUME PrintT(<<"VERIF-BAD", {<<i, R[i].key>> : i \in Bad}>>)
ASSUME Bad = {}
=============================================================================
