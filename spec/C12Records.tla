---------------------------- MODULE C12Records ----------------------------
(* C12: permessage-deflate stream logic and payload round trips.           *)
(* The DEFLATE bit format itself is judged by an independent inflater /    *)
(* deflater (Python zlib) whose verdict is the logged field inflateOK /    *)
(* the pre-generated inputs; everything around it is judged here.          *)
EXTENDS FlateOps, Json, IOUtils

R == ndJsonDeserialize(IOEnv.VERIF_FILE)

RECURSIVE Cat(_)
Cat(ss) == IF ss = <<>> THEN <<>> ELSE Head(ss) \o Cat(Tail(ss))

\* a scripted compressor pushed r.chunks into the writer, then Flush()/Close()
CbufOk(r) ==
    LET cout == Cat(r.chunks) IN
    /\ r.dest = Forwarded(cout)                     \* everything but the last four bytes reached the destination
    /\ r.flushErr = ~FlushOk(cout)                  \* a compressor that does not end with 00 00 ff ff is an error
    /\ r.flushErr => r.afterWriteErr /\ r.afterFlushErr /\ r.afterCloseErr /\ r.destAfter = r.dest   \* sticky, nothing more sent
    /\ ~r.flushErr => ~r.afterWriteErr

SuffixOk(r) == r.got = SuffixedRead(r.src) /\ r.err = "eof"

\* real compressor: wire + 00 00 ff ff inflates (independent inflater) to the message so far
DeflateOk(r) == r.err = "nil" /\ r.inflateOK /\ r.selfReadOK

\* independent deflater's sync-flushed output minus the tail, read through wsflate.Reader
InflateOk(r) == r.err = "nil" /\ r.equal

HelperOk(r) ==
    IF ~r.fin THEN r.cerr /\ r.derr /\ r.perr        \* non-final frames are refused, with or without RSV1
    ELSE /\ ~r.cerr /\ ~r.derr
         /\ r.crsv = r.rsv + 4 /\ r.cop = r.op /\ r.cfin = r.fin /\ r.cmasked = r.masked   \* only RSV1 and the length change
         /\ r.clenOK /\ r.dlenOK
         /\ r.drsv = r.rsv /\ r.dop = r.op /\ r.dfin = r.fin /\ r.dmasked = r.masked /\ r.maskKept
         /\ r.roundtrip
         /\ r.plainUntouched                          \* a frame without RSV1 is returned as it is

\* end to end through writer and reader stacks
E2EOk(r) ==
    /\ r.err = "nil" /\ r.equal
    /\ \A i \in 1..Len(r.frames) :
          LET f == r.frames[i] IN
          IF f.first THEN f.rsv = (IF r.compressed THEN 4 ELSE 0) ELSE f.rsv = 0
    /\ r.reportedCompressed = r.compressed

Ok(r) == CASE r.k = "cbuf" -> CbufOk(r)
           [] r.k = "suffix" -> SuffixOk(r)
           [] r.k = "deflate" -> DeflateOk(r)
           [] r.k = "inflate" -> InflateOk(r)
           [] r.k = "helper" -> HelperOk(r)
           [] r.k = "e2e" -> E2EOk(r)
           [] OTHER -> FALSE

Bad == {i \in 1..Len(R) : ~Ok(R[i])}
ASSUME PrintT(<<"VERIF-RECORDS", Len(R)>>)
ASSUME PrintT(<<"VERIF-BAD", {<<i, R[i].key>> : i \in Bad}>>)
ASSUME Bad = {}
=============================================================================
