CONSTANT MaxLen = 4
INIT Init
NEXT Next
INVARIANT Agree
INVARIANT DeadIsDead
INVARIANT SplitFree
CHECK_DEADLOCK FALSE
