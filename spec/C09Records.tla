---------------------------- MODULE C09Records ----------------------------
(* C09: server handshakes judged by Handshake!ServerVerdict. *)
EXTENDS Handshake, TLC, Json, IOUtils

R == ndJsonDeserialize(IOEnv.VERIF_FILE)

Success(r) ==
    LET o == r.obs c == r.cfg q == r.req IN
    /\ o.errNil /\ o.wrote = "101" /\ o.acceptOK /\ o.statusLineOK
    \* the subprotocol is the first one in the client's order that the selector accepts
    /\ o.proto = (IF c.hasSelector THEN FirstAccepted(q.protos, c.accept) ELSE "")
    /\ o.protoSent = o.proto
    \* returned extensions come only from the client's offer, and are the ones sent
    /\ SeqSet(o.exts) \subseteq SeqSet(q.exts) /\ o.extsSent = o.exts
    /\ c.extraHeader => o.hdrPresent

Failure(r) ==
    LET o == r.obs c == r.cfg q == r.req IN
    /\ ~o.errNil /\ o.wrote # "101"
    /\ VersionParsed(q.version) =>
          /\ o.wrote = "error" /\ o.statusLineOK
          /\ o.status \in AllowedStatus(q, c)
          /\ o.bodyLenOK /\ o.bodyIsErr       \* the error text as a correctly sized body
          /\ (o.status = 426 => o.hasVersion13)
          /\ (c.extraHeader => o.hdrPresent)
          \* a status that only the rejecting callback can have produced carries the callback's headers
          /\ (c.reject # "none" /\ o.status = RejectStatusOf(c) /\ RejectBringsHeader(c) /\ o.status \notin Problems(q)
                /\ ~ProtoProblem(q, c) => o.rejectHdrPresent)

Ok(r) ==
    \* (net/http hands the HTTP upgrader the first value of a repeated header only: which of two differing
    \*  key lines it judges is left open there)
    LET v == IF r.req.key \in {"latebad", "earlybad"} /\ r.api \in {"HTTPUpgrader", "UpgradeHTTP"} THEN "open"
             ELSE ServerVerdict(r.req, r.cfg) IN
    /\ (r.obs.wrote = "101") = r.obs.errNil          \* never a 101 on failure
    /\ CASE v = "ok" -> Success(r)
         [] v = "fail" -> Failure(r)
         [] OTHER -> Success(r) \/ Failure(r)

Bad == {i \in 1..Len(R) : ~Ok(R[i])}
ASSUME PrintT(<<"VERIF-RECORDS", Len(R)>>)
ASSUME PrintT(<<"VERIF-BAD", {<<i, R[i].key>> : i \in Bad}>>)
ASSUME Bad = {}
=============================================================================
