CONSTANTS Sides = {"server", "client"}
          MinFrames = 3
          ValidOnly = TRUE
          MaxFrames = 6
          ReadSizes = {1, 2, 3}
          Payloads <- PayloadsUtf8
          Cuts <- CutsSim
          WithExt = {FALSE, TRUE}
          WithUtf8 = {TRUE, FALSE}
          MaxSize = {0}
          WithInvalid = TRUE
          BugBareLimitedReader = FALSE
INIT Init
NEXT Next
INVARIANT Refines
INVARIANT CompState
CHECK_DEADLOCK FALSE
