---------------------------- MODULE C19Records ----------------------------
(* C19: every concurrently run session observed exactly what the same      *)
(* session observes when it runs alone (Pools!NonInterference on the real  *)
(* code); data races are the race detector's verdict (logged as `races`).  *)
EXTENDS Naturals, Sequences, TLC, Json, IOUtils

R == ndJsonDeserialize(IOEnv.VERIF_FILE)

Ok(r) == /\ r.completed                    \* no deadlock / error that the solo run does not have
         /\ r.obs = r.solo                 \* same observations, in the same order, as alone
         /\ r.races = 0

Bad == {i \in 1..Len(R) : ~Ok(R[i])}
ASSUME PrintT(<<"VERIF-RECORDS", Len(R)>>)
ASSUME PrintT(<<"VERIF-BAD", {<<i, R[i].key>> : i \in Bad}>>)
ASSUME Bad = {}
=============================================================================
