INIT TInit
NEXT TNext
CONSTRAINT Mark
POSTCONDITION Post
INVARIANT S1
INVARIANT S2
INVARIANT S3
INVARIANT S4
INVARIANT S5
CHECK_DEADLOCK FALSE
