------------------------------- MODULE Utf8 -------------------------------
(***************************************************************************)
(* RFC 3629 well-formed UTF-8, twice:                                      *)
(*  - WellFormed(s): the declarative ABNF table (section 4);               *)
(*  - the incremental automaton Step/Run used for streaming validation     *)
(*    (code anchor: wsutil/utf8.go, Hoehrmann DFA).                        *)
(* MCUtf8 checks with TLC that both agree on all strings over byte-class   *)
(* representatives up to a bounded length.                                 *)
(***************************************************************************)
EXTENDS Naturals, Sequences

InR(b, lo, hi) == lo <= b /\ b <= hi
IsTail(b) == InR(b, 128, 191)

\* number of bytes of the well-formed character at the head of s, or 0
HeadLen(s) ==
    LET n == Len(s) b1 == s[1] IN
    IF n = 0 THEN 0
    ELSE IF b1 <= 127 THEN 1
    ELSE IF InR(b1, 194, 223) THEN (IF n >= 2 /\ IsTail(s[2]) THEN 2 ELSE 0)
    ELSE IF b1 = 224 THEN (IF n >= 3 /\ InR(s[2], 160, 191) /\ IsTail(s[3]) THEN 3 ELSE 0)
    ELSE IF InR(b1, 225, 236) \/ InR(b1, 238, 239)
         THEN (IF n >= 3 /\ IsTail(s[2]) /\ IsTail(s[3]) THEN 3 ELSE 0)
    ELSE IF b1 = 237 THEN (IF n >= 3 /\ InR(s[2], 128, 159) /\ IsTail(s[3]) THEN 3 ELSE 0)
    ELSE IF b1 = 240
         THEN (IF n >= 4 /\ InR(s[2], 144, 191) /\ IsTail(s[3]) /\ IsTail(s[4]) THEN 4 ELSE 0)
    ELSE IF InR(b1, 241, 243)
         THEN (IF n >= 4 /\ IsTail(s[2]) /\ IsTail(s[3]) /\ IsTail(s[4]) THEN 4 ELSE 0)
    ELSE IF b1 = 244
         THEN (IF n >= 4 /\ InR(s[2], 128, 143) /\ IsTail(s[3]) /\ IsTail(s[4]) THEN 4 ELSE 0)
    ELSE 0

RECURSIVE WellFormed(_)
WellFormed(s) ==
    IF s = <<>> THEN TRUE
    ELSE LET k == HeadLen(s) IN k > 0 /\ WellFormed(SubSeq(s, k + 1, Len(s)))

(***************************************************************************)
(* Incremental automaton.  State: "acc" (at a character boundary), "rej"   *)
(* (dead), or <<need, lo, hi>>: need more tail bytes, the next one in      *)
(* lo..hi.                                                                 *)
(***************************************************************************)
UAcc == <<0, 0, 0>>
URej == <<9, 0, 0>>

UStep(st, b) ==
    IF st = URej THEN URej
    ELSE IF st = UAcc THEN
        IF b <= 127 THEN UAcc
        ELSE IF InR(b, 194, 223) THEN <<1, 128, 191>>
        ELSE IF b = 224 THEN <<2, 160, 191>>
        ELSE IF InR(b, 225, 236) \/ InR(b, 238, 239) THEN <<2, 128, 191>>
        ELSE IF b = 237 THEN <<2, 128, 159>>
        ELSE IF b = 240 THEN <<3, 144, 191>>
        ELSE IF InR(b, 241, 243) THEN <<3, 128, 191>>
        ELSE IF b = 244 THEN <<3, 128, 143>>
        ELSE URej
    ELSE IF InR(b, st[2], st[3])
         THEN (IF st[1] = 1 THEN UAcc ELSE <<st[1] - 1, 128, 191>>)
         ELSE URej

RECURSIVE URun(_, _)
URun(st, s) == IF s = <<>> THEN st ELSE URun(UStep(st, s[1]), Tail(s))

\* a whole message is valid iff the automaton ends at a character boundary
StreamValid(s) == URun(UAcc, s) = UAcc
\* some extension of s could still be valid
StreamAlive(s) == URun(UAcc, s) # URej

=============================================================================
