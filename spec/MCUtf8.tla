------------------------------ MODULE MCUtf8 ------------------------------
(* TLC: the declarative table and the incremental automaton agree on every *)
(* string over byte-class boundary representatives up to length MaxLen,    *)
(* and splitting the input anywhere does not change the automaton's state. *)
EXTENDS Utf8, TLC, FiniteSets

CONSTANT MaxLen

\* both ends of every range that appears in the RFC 3629 table
Reps == {0, 127, 128, 143, 144, 159, 160, 191, 192, 193, 194, 223, 224, 225, 236,
         237, 238, 239, 240, 241, 243, 244, 245, 255}

VARIABLE s

Init == s = <<>>
Next == /\ Len(s) < MaxLen
        /\ \E b \in Reps : s' = Append(s, b)

Agree == WellFormed(s) = StreamValid(s)
\* a dead automaton means no well-formed extension exists (checked one step ahead)
DeadIsDead == ~StreamAlive(s) => ~WellFormed(s)
SplitFree == \A k \in 0..Len(s) :
                URun(URun(UAcc, SubSeq(s, 1, k)), SubSeq(s, k + 1, Len(s))) = URun(UAcc, s)
=============================================================================
