----------------------------- MODULE TracePools -----------------------------
(***************************************************************************)
(* Trace validation for C17: results returned by the library (handshake    *)
(* protocol / extensions / parameters, close reasons, message payloads)    *)
(* are values captured at return - Pools!ResultsStable.  The harness logs  *)
(* Result(id, digest) when a value is returned, Recycle when it has pulled *)
(* every size class of the library's pools, overwritten the buffers and    *)
(* put them back (and after every further operation that reuses them), and *)
(* Recheck(id, digest) with the value re-read.  Caller/Dest events carry   *)
(* the harness' byte comparison of a caller slice before/after a           *)
(* non-mutating write API and of the destination's bytes after the caller  *)
(* reuses its slice.                                                       *)
(***************************************************************************)
EXTENDS Naturals, Sequences, TLC, Json, IOUtils

Tr == ndJsonDeserialize(IOEnv.VERIF_FILE)
ASSUME PrintT(<<"VERIF-TRACE", Len(Tr)>>)

VARIABLES l, res, bad, recycled, rej

None == <<>>
Init == l = 1 /\ res = {} /\ bad = "" /\ recycled = 0 /\ rej = <<>>

Lookup(id) == {p \in res : p[1] = id}

RECURSIVE NextSetup(_)
NextSetup(i) == IF i > Len(Tr) THEN i ELSE IF Tr[i].ev = "setup" THEN i ELSE NextSetup(i + 1)

Consume ==
    /\ l <= Len(Tr) /\ bad = ""
    /\ LET e == Tr[l] IN
       CASE e.ev = "setup" -> res' = {} /\ bad' = "" /\ recycled' = 0
         [] e.ev = "Result" -> res' = res \cup {<<e.id, e.digest>>} /\ bad' = "" /\ UNCHANGED recycled
         [] e.ev = "Recycle" -> recycled' = recycled + e.objects /\ UNCHANGED <<res, bad>>
         [] e.ev = "Recheck" ->
              /\ UNCHANGED <<res, recycled>>
              /\ bad' = IF Lookup(e.id) = {<<e.id, e.digest>>} THEN ""
                        ELSE "a returned value changed after pooled buffers were recycled (aliasing)"
         [] e.ev = "Caller" -> /\ UNCHANGED <<res, recycled>>
                               /\ bad' = IF e.same THEN "" ELSE "a non-mutating write API modified the caller's bytes"
         [] e.ev = "Dest" -> /\ UNCHANGED <<res, recycled>>
                             /\ bad' = IF e.same THEN "" ELSE "bytes already handed to the destination changed when the caller reused its slice"
         [] OTHER -> bad' = "unknown event" /\ UNCHANGED <<res, recycled>>
    /\ l' = l + 1 /\ UNCHANGED rej

Skip == /\ bad # ""
        /\ rej' = IF Len(rej) < 40 THEN Append(rej, <<l - 1, bad>>) ELSE rej
        /\ l' = NextSetup(l) /\ bad' = "" /\ res' = {} /\ recycled' = 0
Next == Consume \/ Skip

Done == l > Len(Tr) /\ bad = ""
Final == Done => PrintT(<<"VERIF-DONE", Len(rej), rej>>)
=============================================================================
