---------------------------- MODULE C15Records ----------------------------
(* C15: every decoding entry point is a total function: value | error.     *)
(* A panic, a no-progress loop, an allocation in proportion to an          *)
(* announced length during header decoding, or payload read beyond a       *)
(* configured size limit has no counterpart in the specification.          *)
EXTENDS Naturals, Sequences, TLC, Json, IOUtils

R == ndJsonDeserialize(IOEnv.VERIF_FILE)

AllocBudget == 65536        \* 64 KiB + the bytes actually supplied

Ok(r) ==
    /\ r.outcome \in {"value", "error"}                          \* never "panic" / "hang"
    /\ r.allocChecked => r.alloc <= AllocBudget + r.supplied
    /\ r.limitChecked => r.payloadPulled = 0                     \* refused before any payload byte is read
    /\ r.limitChecked => r.outcome = "error"

Bad == {i \in 1..Len(R) : ~Ok(R[i])}
ASSUME PrintT(<<"VERIF-RECORDS", Len(R)>>)
ASSUME PrintT(<<"VERIF-BAD", {<<i, R[i].key>> : i \in Bad}>>)
ASSUME Bad = {}
=============================================================================
