------------------------------ MODULE WsBytes ------------------------------
(***************************************************************************)
(* Byte strings for the gobwas/ws specification.                           *)
(*                                                                         *)
(* A byte string is a sequence over 0..255.  TLC integers are 32 bit, so   *)
(* 63-bit payload lengths are 8-byte big-endian tuples ("len8") compared   *)
(* lexicographically; small lengths are also available as naturals.        *)
(***************************************************************************)
EXTENDS Naturals, Sequences, Bitwise

Byte == 0..255

IsBytes(s) == \A i \in 1..Len(s) : s[i] \in Byte

Take(s, n) == SubSeq(s, 1, IF n < Len(s) THEN n ELSE Len(s))
Drop(s, n) == SubSeq(s, n + 1, Len(s))
Min(a, b) == IF a < b THEN a ELSE b
Max(a, b) == IF a > b THEN a ELSE b

\* n as big-endian tuple of k bytes (n must fit TLC's 31-bit naturals).
RECURSIVE BE(_, _)
BE(n, k) == IF k = 0 THEN <<>> ELSE Append(BE(n \div 256, k - 1), n % 256)

\* Value of a big-endian tuple; only used when it is known to be small.
RECURSIVE BEVal(_)
BEVal(s) == IF s = <<>> THEN 0 ELSE BEVal(SubSeq(s, 1, Len(s) - 1)) * 256 + s[Len(s)]

Len8(n) == BE(n, 8)

\* lexicographic comparison of equally long tuples: a <= b
RECURSIVE LexLE(_, _)
LexLE(a, b) == IF a = <<>> THEN TRUE
               ELSE IF a[1] < b[1] THEN TRUE
               ELSE IF a[1] > b[1] THEN FALSE
               ELSE LexLE(Tail(a), Tail(b))

AllZero(s) == \A i \in 1..Len(s) : s[i] = 0

\* len8 is small enough to be handled as a natural (< 2^24)
Small8(l) == \A i \in 1..5 : l[i] = 0
Val8(l) == l[6] * 65536 + l[7] * 256 + l[8]

\* RFC 6455 5.3: transformed[i] = original[i] XOR key[(off + i) mod 4], i from 0
Mask(p, key, off) == [i \in 1..Len(p) |-> p[i] ^^ key[((off + i - 1) % 4) + 1]]

\* position-coded payload byte: byte i (0-based) of message m
PByte(m, i) == (m * 31 + i * 7 + (i \div 256)) % 256

=============================================================================
