---------------------------- MODULE C18Records ----------------------------
(***************************************************************************)
(* C18 for the objects besides the fragmenting writer and the message      *)
(* reader: after Reset, every observation of a suffix of operations equals *)
(* the observation a newly constructed instance gives (lock-step), and     *)
(* where the property-level description is history-free it is applied to   *)
(* the suffix alone:                                                       *)
(*   wsflate.Writer  FlateOps!Forwarded / FlushOk on what the compressor   *)
(*                   emitted since the reset (model: FlateStream, action   *)
(*                   Reset, invariants Refines / ResetIsFresh)             *)
(*   wsflate.Reader  FlateOps!SuffixedRead of the new source               *)
(*   Cipher*         the mask applied from offset 0 of the new mask        *)
(***************************************************************************)
EXTENDS FlateOps, Json, IOUtils

R == ndJsonDeserialize(IOEnv.VERIF_FILE)

RECURSIVE Cat(_)
Cat(ss) == IF ss = <<>> THEN <<>> ELSE Head(ss) \o Cat(Tail(ss))

Extra(r) ==
    CASE r.obj = "flatewriter" ->
           LET cout == Cat(r.chunks) IN r.dest = Forwarded(cout) /\ r.flushErr = ~FlushOk(cout)
      [] r.obj = "flatereader" -> r.got = SuffixedRead(r.src)
      [] r.obj \in {"cipherreader", "cipherwriter"} -> r.got = r.want
      [] r.obj = "flatereal" -> r.roundtrip
      [] OTHER -> TRUE

Ok(r) == r.k = "reuse" /\ r.reused = r.fresh /\ Extra(r)

Bad == {i \in 1..Len(R) : ~Ok(R[i])}
ASSUME PrintT(<<"VERIF-RECORDS", Len(R)>>)
ASSUME PrintT(<<"VERIF-BAD", {<<i, R[i].key>> : i \in Bad}>>)
ASSUME Bad = {}
=============================================================================
