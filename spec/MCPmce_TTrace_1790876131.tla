---- MODULE MCPmce_TTrace_1790876131 ----
EXTENDS Sequences, TLCExt, Toolbox, Naturals, TLC, MCPmce

_expression ==
    LET MCPmce_TEExpression == INSTANCE MCPmce_TEExpression
    IN MCPmce_TEExpression!expression
----

_trace ==
    LET MCPmce_TETrace == INSTANCE MCPmce_TETrace
    IN MCPmce_TETrace!trace
----

_inv ==
    ~(
        TLCGet("level") = Len(_TETrace)
        /\
        justReset = (FALSE)
        /\
        lastResp = ([smwb |-> 9, cmwb |-> 0, cnct |-> FALSE, snct |-> FALSE])
        /\
        nAccepted = (1)
        /\
        cfg = ([smwb |-> 9, cmwb |-> 0, cnct |-> FALSE, snct |-> FALSE])
        /\
        firstOk = (TRUE)
        /\
        accepted = (TRUE)
        /\
        nOffers = (1)
        /\
        lastOffer = ([smwb |-> 8, cmwb |-> 0, cnct |-> FALSE, snct |-> FALSE])
    )
----

_init ==
    /\ nAccepted = _TETrace[1].nAccepted
    /\ nOffers = _TETrace[1].nOffers
    /\ lastResp = _TETrace[1].lastResp
    /\ cfg = _TETrace[1].cfg
    /\ firstOk = _TETrace[1].firstOk
    /\ justReset = _TETrace[1].justReset
    /\ accepted = _TETrace[1].accepted
    /\ lastOffer = _TETrace[1].lastOffer
----

_next ==
    /\ \E i,j \in DOMAIN _TETrace:
        /\ \/ /\ j = i + 1
              /\ i = TLCGet("level")
        /\ nAccepted  = _TETrace[i].nAccepted
        /\ nAccepted' = _TETrace[j].nAccepted
        /\ nOffers  = _TETrace[i].nOffers
        /\ nOffers' = _TETrace[j].nOffers
        /\ lastResp  = _TETrace[i].lastResp
        /\ lastResp' = _TETrace[j].lastResp
        /\ cfg  = _TETrace[i].cfg
        /\ cfg' = _TETrace[j].cfg
        /\ firstOk  = _TETrace[i].firstOk
        /\ firstOk' = _TETrace[j].firstOk
        /\ justReset  = _TETrace[i].justReset
        /\ justReset' = _TETrace[j].justReset
        /\ accepted  = _TETrace[i].accepted
        /\ accepted' = _TETrace[j].accepted
        /\ lastOffer  = _TETrace[i].lastOffer
        /\ lastOffer' = _TETrace[j].lastOffer

\* Uncomment the ASSUME below to write the states of the error trace
\* to the given file in Json format. Note that you can pass any tuple
\* to `JsonSerialize`. For example, a sub-sequence of _TETrace.
    \* ASSUME
    \*     LET J == INSTANCE Json
    \*         IN J!JsonSerialize("MCPmce_TTrace_1790876131.json", _TETrace)

=============================================================================

 Note that you can extract this module `MCPmce_TEExpression`
  to a dedicated file to reuse `expression` (the module in the 
  dedicated `MCPmce_TEExpression.tla` file takes precedence 
  over the module `MCPmce_TEExpression` below).

---- MODULE MCPmce_TEExpression ----
EXTENDS Sequences, TLCExt, Toolbox, Naturals, TLC, MCPmce

expression == 
    [
        \* To hide variables of the `MCPmce` spec from the error trace,
        \* remove the variables below.  The trace will be written in the order
        \* of the fields of this record.
        nAccepted |-> nAccepted
        ,nOffers |-> nOffers
        ,lastResp |-> lastResp
        ,cfg |-> cfg
        ,firstOk |-> firstOk
        ,justReset |-> justReset
        ,accepted |-> accepted
        ,lastOffer |-> lastOffer
        
        \* Put additional constant-, state-, and action-level expressions here:
        \* ,_stateNumber |-> _TEPosition
        \* ,_nAcceptedUnchanged |-> nAccepted = nAccepted'
        
        \* Format the `nAccepted` variable as Json value.
        \* ,_nAcceptedJson |->
        \*     LET J == INSTANCE Json
        \*     IN J!ToJson(nAccepted)
        
        \* Lastly, you may build expressions over arbitrary sets of states by
        \* leveraging the _TETrace operator.  For example, this is how to
        \* count the number of times a spec variable changed up to the current
        \* state in the trace.
        \* ,_nAcceptedModCount |->
        \*     LET F[s \in DOMAIN _TETrace] ==
        \*         IF s = 1 THEN 0
        \*         ELSE IF _TETrace[s].nAccepted # _TETrace[s-1].nAccepted
        \*             THEN 1 + F[s-1] ELSE F[s-1]
        \*     IN F[_TEPosition - 1]
    ]

=============================================================================



Parsing and semantic processing can take forever if the trace below is long.
 In this case, it is advised to uncomment the module below to deserialize the
 trace from a generated binary file.

\*
\*---- MODULE MCPmce_TETrace ----
\*EXTENDS IOUtils, TLC, MCPmce
\*
\*trace == IODeserialize("MCPmce_TTrace_1790876131.bin", TRUE)
\*
\*=============================================================================
\*

---- MODULE MCPmce_TETrace ----
EXTENDS TLC, MCPmce

trace == 
    <<
    ([justReset |-> TRUE,lastResp |-> [smwb |-> 99, cmwb |-> 99, cnct |-> FALSE, snct |-> FALSE],nAccepted |-> 0,cfg |-> [smwb |-> 9, cmwb |-> 0, cnct |-> FALSE, snct |-> FALSE],firstOk |-> TRUE,accepted |-> FALSE,nOffers |-> 0,lastOffer |-> [smwb |-> 0, cmwb |-> 0, cnct |-> FALSE, snct |-> FALSE]]),
    ([justReset |-> FALSE,lastResp |-> [smwb |-> 9, cmwb |-> 0, cnct |-> FALSE, snct |-> FALSE],nAccepted |-> 1,cfg |-> [smwb |-> 9, cmwb |-> 0, cnct |-> FALSE, snct |-> FALSE],firstOk |-> TRUE,accepted |-> TRUE,nOffers |-> 1,lastOffer |-> [smwb |-> 8, cmwb |-> 0, cnct |-> FALSE, snct |-> FALSE]])
    >>
----


=============================================================================

---- CONFIG MCPmce_TTrace_1790876131 ----
CONSTANTS
    BugSmwReversed = TRUE
    MaxOffers = 1
    SingleOnly = TRUE

INVARIANT
    _inv

CHECK_DEADLOCK
    \* CHECK_DEADLOCK off because of PROPERTY or INVARIANT above.
    FALSE

INIT
    _init

NEXT
    _next

CONSTANT
    _TETrace <- _trace

ALIAS
    _expression
=============================================================================
\* Generated on Thu Oct 01 17:35:32 UTC 2026