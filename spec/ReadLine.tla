------------------------------ MODULE ReadLine ------------------------------
(***************************************************************************)
(* readLine (util.go) over bufio.Reader.ReadSlice: a header line longer    *)
(* than the read buffer arrives as several ErrBufferFull pieces that are   *)
(* glued together; the result must be the bytes before the first LF minus  *)
(* one trailing CR, whatever the buffer size - in particular when CR and   *)
(* LF fall into different pieces.  TLC checks this for every stream up to  *)
(* MaxLen over {x, CR, LF} and every buffer size in Sizes.                 *)
(***************************************************************************)
EXTENDS Naturals, Sequences, FiniteSets, TLC

CONSTANTS MaxLen, Sizes
X == 120  CR == 13  LF == 10

RECURSIVE Streams(_)
Streams(n) == IF n = 0 THEN {<<>>} ELSE Streams(n - 1) \cup {Append(s, b) : s \in Streams(n - 1), b \in {X, CR, LF}}

HasLF(s) == \E i \in 1..Len(s) : s[i] = LF
FirstLF(s) == CHOOSE i \in 1..Len(s) : s[i] = LF /\ \A j \in 1..(i - 1) : s[j] # LF

\* what readLine must return: [line, ok]
Expected(s) ==
    IF ~HasLF(s) THEN [ok |-> FALSE, line |-> s]
    ELSE LET i == FirstLF(s)
             raw == SubSeq(s, 1, i - 1)
         IN [ok |-> TRUE, line |-> IF raw # <<>> /\ raw[Len(raw)] = CR THEN SubSeq(raw, 1, Len(raw) - 1) ELSE raw]

\* bufio.Reader.ReadSlice with buffer size B on the remaining stream s:
\* <<piece, status, rest>> with status "ok" (delimiter found), "full" (buffer full), "eof"
ReadSlice(s, B) ==
    LET win == SubSeq(s, 1, IF Len(s) < B THEN Len(s) ELSE B) IN
    IF HasLF(win) THEN LET i == FirstLF(win) IN <<SubSeq(s, 1, i), "ok", SubSeq(s, i + 1, Len(s))>>
    ELSE IF Len(s) >= B THEN <<win, "full", SubSeq(s, B + 1, Len(s))>>
    ELSE <<s, "eof", <<>>>>

\* readLine as in util.go
RECURSIVE ReadLineImpl(_, _, _)
ReadLineImpl(s, B, line) ==
    LET r == ReadSlice(s, B) IN
    IF r[2] = "full" THEN ReadLineImpl(r[3], B, line \o r[1])
    ELSE LET whole == line \o r[1] n == Len(whole) IN
         IF r[2] = "eof" THEN [ok |-> FALSE, line |-> whole]
         ELSE [ok |-> TRUE,
               line |-> IF n > 1 /\ whole[n - 1] = CR THEN SubSeq(whole, 1, n - 2) ELSE SubSeq(whole, 1, n - 1)]

ASSUME \A s \in Streams(MaxLen), B \in Sizes : ReadLineImpl(s, B, <<>>) = Expected(s)
ASSUME PrintT(<<"ReadLine checked", Cardinality(Streams(MaxLen)), Sizes>>)
=============================================================================
