---------------------------- MODULE WsWriterAlgo ----------------------------
(***************************************************************************)
(* Implementation-level model of wsutil.Writer (wsutil/writer.go): one     *)
(* operator per code path of the real algorithm - reserve, initBuf, Write  *)
(* (the fill / flush / write-through loop), Grow, WriteThrough, ReadFrom,  *)
(* FlushFragment, Flush, Reset, ResetOp, DisableFlush, SetExtensions -     *)
(* deterministic where the code is.  Each action builds the same event     *)
(* record that the conformance harness logs from the real code and feeds   *)
(* it to the property-level monitor WsWriterMon; TLC checks that no        *)
(* behaviour of the model is rejected by the monitor (Refines), that the   *)
(* header always fits the reserved space and that Grow never shrinks.      *)
(*                                                                         *)
(* Header-size thresholds are constants so that the exhaustive config can  *)
(* scale them down (L7 = 2, L16 = 5, ...) while trace validation uses the  *)
(* real ones (125, 65535, 2/4/10, 4).                                      *)
(*                                                                         *)
(* Planted pre-repair behaviours (self-test / regression of the fixes):    *)
(*   BugResetKeepsErr    - Reset leaves the sticky error set               *)
(*   BugReadFromNotDirty - ReadFrom marks the writer dirty only on EOF     *)
(***************************************************************************)
EXTENDS WsWriterMon, TLC

CONSTANTS L7, L16,         \* largest payload with the 7-bit / 16-bit length form
          H7, H16, H64,    \* header bytes for the three forms (without mask)
          ML,              \* mask length
          BugResetKeepsErr, BugReadFromNotDirty

M(side) == IF side = "client" THEN ML ELSE 0

\* writer.go: reserve(state, n) - bytes reserved for the header, from the buffer size
Reserve(side, n) == IF n <= L7 + M(side) + H7 THEN M(side) + H7
                    ELSE IF n <= L16 + M(side) + H16 THEN M(side) + H16
                    ELSE M(side) + H64
\* ws.HeaderSize - from the payload length
HdrSize(side, k) == (IF k <= L7 THEN H7 ELSE IF k <= L16 THEN H16 ELSE H64) + M(side)

RECURSIVE Pow2Above(_, _)
Pow2Above(n, p) == IF p > n THEN p ELSE Pow2Above(n, 2 * p)
CeilPowerOfTwo(n) == Pow2Above(n, 1)      \* smallest power of two > n, as the bit trick

(***************************************************************************)
(* The struct.  raw/buf are lengths; the buffer holds the caller bytes     *)
(* [pos - n, pos) where pos is the global number of the next caller byte.  *)
(***************************************************************************)
NewW(side, op, raw) ==
    [side |-> side, op |-> op, raw |-> raw, buf |-> raw - Reserve(side, raw), n |-> 0,
     dirty |-> FALSE, fseq |-> 0, noflush |-> FALSE, err |-> FALSE, comp |-> FALSE]

Avail(w) == w.buf - w.n
Offset(w) == w.raw - w.buf
OpCodeOf(w) == IF w.fseq > 0 THEN 0 ELSE w.op

\* destination: calls so far, index of the failing call (0 = never)
DestWrite(d) == [d EXCEPT !.calls = d.calls + 1, !.failed = d.failed \/ (d.calls + 1 = d.failAt)]
WriteOk(d) == d.failAt = 0 \/ d.calls + 1 # d.failAt

FrameOf(w, fin, lo, hi) ==
    [op |-> OpCodeOf(w), fin |-> fin, rsv |-> IF w.comp /\ IsDataOp(OpCodeOf(w)) THEN 4 ELSE 0,
     masked |-> w.side = "client", len |-> hi - lo, lo |-> lo, hi |-> hi]

\* flushFragment(fin): header into the reserved space, one destination write
\* r = [w, d, out, hdrfits]
FlushFrag(w, d, fin, pos) ==
    LET ok == WriteOk(d) IN
    [w |-> [w EXCEPT !.err = ~ok], d |-> DestWrite(d),
     out |-> IF ok THEN <<FrameOf(w, fin, pos - w.n, pos)>> ELSE <<>>,
     hdrfits |-> HdrSize(w.side, w.n) <= Offset(w)]

\* FlushFragment()
DoFlushFragment(w, d, pos) ==
    IF w.n = 0 \/ w.err THEN [w |-> w, d |-> d, out |-> <<>>, hdrfits |-> TRUE]
    ELSE LET r == FlushFrag(w, d, FALSE, pos) IN
         [r EXCEPT !.w = [r.w EXCEPT !.n = 0, !.fseq = w.fseq + 1]]

\* Flush()
DoFlush(w, d, pos) ==
    IF (~w.dirty /\ w.n = 0) \/ w.err THEN [w |-> w, d |-> d, out |-> <<>>, hdrfits |-> TRUE]
    ELSE LET r == FlushFrag(w, d, TRUE, pos) IN
         [r EXCEPT !.w = [r.w EXCEPT !.n = 0, !.dirty = FALSE, !.fseq = 0]]

\* WriteThrough(p): ws.WriteFrame = header write, then payload write
\* r = [w, d, out, n, rest, err]  err in {"nil", "sticky", "not_empty", "transport"}
DoWriteThrough(w, d, k, pos) ==
    IF w.err THEN [w |-> w, d |-> d, out |-> <<>>, n |-> 0, rest |-> 0, err |-> "sticky"]
    ELSE IF w.n # 0 THEN [w |-> w, d |-> d, out |-> <<>>, n |-> 0, rest |-> 0, err |-> "not_empty"]
    ELSE LET ok1 == WriteOk(d)
             d1 == DestWrite(d)
             ok2 == ok1 /\ WriteOk(d1)
             d2 == IF ok1 THEN DestWrite(d1) ELSE d1
         IN [w |-> [w EXCEPT !.err = ~ok2, !.dirty = TRUE, !.fseq = w.fseq + 1],
             d |-> d2,
             \* (an empty payload is still written, as a second call: if only that call fails the header
             \* already on the wire is a whole frame)
             out |-> IF ok2 \/ (ok1 /\ k = 0) THEN <<FrameOf(w, FALSE, pos, pos + k)>> ELSE <<>>,
             n |-> IF ok2 THEN k ELSE 0,
             rest |-> IF ok1 /\ ~ok2 /\ k > 0 THEN HdrSize(w.side, k) ELSE 0,
             err |-> IF ok2 THEN "nil" ELSE "transport"]

\* Grow(n): the for-loop with header reservation; returns the new struct
RECURSIVE GrowLoop(_, _, _, _, _)
GrowLoop(side, size, nextOffset, buffered, n) ==
    IF size - nextOffset - buffered < n
    THEN LET s2 == CeilPowerOfTwo(nextOffset + buffered + n) IN
         GrowLoop(side, s2, Reserve(side, s2), buffered, n)
    ELSE <<size, nextOffset>>
DoGrow(w, k) ==
    LET r == GrowLoop(w.side, w.raw, Offset(w), w.n, k) IN
    IF r[1] = w.raw THEN w ELSE [w EXCEPT !.raw = r[1], !.buf = r[1] - r[2]]
GrowShrinks(w, k) == GrowLoop(w.side, w.raw, Offset(w), w.n, k)[1] < w.raw

\* Write(p): r = [w, d, out, n, hdrfits, shrink]; pos = number of the first byte of p
RECURSIVE WriteLoop(_, _, _, _, _, _, _, _)
WriteLoop(w, d, k, pos, out, n, hdrfits, shrink) ==
    IF k > Avail(w) /\ ~w.err THEN
       IF w.noflush THEN WriteLoop(DoGrow(w, k), d, k, pos, out, n, hdrfits, shrink \/ GrowShrinks(w, k))
       ELSE IF w.n = 0 THEN
            LET r == DoWriteThrough(w, d, k, pos) IN
            WriteLoop(r.w, r.d, k - r.n, pos + r.n, out \o r.out, n + r.n, hdrfits, shrink)
       ELSE LET nn == Avail(w)
                r == DoFlushFragment([w EXCEPT !.n = w.n + nn], d, pos + nn) IN
            WriteLoop(r.w, r.d, k - nn, pos + nn, out \o r.out, n + nn, hdrfits /\ r.hdrfits, shrink)
    ELSE IF w.err THEN [w |-> w, d |-> d, out |-> out, n |-> n, hdrfits |-> hdrfits, shrink |-> shrink]
    ELSE [w |-> [w EXCEPT !.n = w.n + k], d |-> d, out |-> out, n |-> n + k, hdrfits |-> hdrfits, shrink |-> shrink]

\* ReadFrom(src): the source yields `total` bytes in reads that fill the free
\* space (the strongest adversary for fragmentation), then EOF or an error.
\* what ReadFrom does after its loop: mark the writer dirty when bytes were taken (or at EOF)
RFDone(w, n, eof) ==
    IF eof \/ (~BugReadFromNotDirty /\ n > 0) THEN [w EXCEPT !.dirty = TRUE] ELSE w

RECURSIVE ReadLoop(_, _, _, _, _, _, _, _)
ReadLoop(w, d, left, srcErr, pos, out, n, hdrfits) ==
    IF Avail(w) = 0 THEN
       IF w.noflush THEN ReadLoop(DoGrow(w, w.n), d, left, srcErr, pos, out, n, hdrfits)
       ELSE IF w.err THEN  \* FlushFragment() returns the sticky error: the loop ends
            [w |-> RFDone(w, n, FALSE), d |-> d, out |-> out, n |-> n, err |-> "transport", hdrfits |-> hdrfits]
       ELSE LET r == DoFlushFragment(w, d, pos) IN
            IF r.w.err
            THEN [w |-> RFDone(r.w, n, FALSE), d |-> r.d, out |-> out \o r.out, n |-> n, err |-> "transport", hdrfits |-> hdrfits /\ r.hdrfits]
            ELSE ReadLoop(r.w, r.d, left, srcErr, pos, out \o r.out, n, hdrfits /\ r.hdrfits)
    ELSE IF left = 0 THEN
       \* src.Read returns (0, srcErr)
       [w |-> RFDone(w, n, srcErr = "eof"),
        d |-> d, out |-> out, n |-> n, err |-> IF srcErr = "eof" THEN "nil" ELSE srcErr, hdrfits |-> hdrfits]
    ELSE LET nn == IF left < Avail(w) THEN left ELSE Avail(w) IN
         ReadLoop([w EXCEPT !.n = w.n + nn], d, left - nn, srcErr, pos + nn, out, n + nn, hdrfits)

\* ReadFrom: like bufio.Writer.ReadFrom, a writer whose destination has failed takes nothing more
DoReadFrom(w, d, total, srcErr, pos) ==
    IF w.err THEN [w |-> w, d |-> d, out |-> <<>>, n |-> 0, err |-> "transport", hdrfits |-> TRUE]
    ELSE ReadLoop(w, d, total, srcErr, pos, <<>>, 0, TRUE)

DoReset(w, side, op) ==
    [w EXCEPT !.side = side, !.op = op, !.buf = w.raw - Reserve(side, w.raw), !.n = 0, !.dirty = FALSE,
              !.fseq = 0, !.comp = FALSE, !.noflush = FALSE,
              !.err = IF BugResetKeepsErr THEN w.err ELSE FALSE]
DoResetOp(w, op) == [w EXCEPT !.op = op, !.n = 0, !.dirty = FALSE, !.fseq = 0]
=============================================================================
