---------------------------- MODULE C08Records ----------------------------
(* C08: every handled control frame (all entry points) judged by WsControl. *)
EXTENDS WsControl, TLC, Json, IOUtils

R == ndJsonDeserialize(IOEnv.VERIF_FILE)

Ok(r) == ControlReply(r.side, r.op, r.pay, r.wrote, r.err, r.code, r.reason) = ""

Bad == {i \in 1..Len(R) : ~Ok(R[i])}
ASSUME PrintT(<<"VERIF-RECORDS", Len(R)>>)
ASSUME PrintT(<<"VERIF-BAD", {<<i, R[i].key>> : i \in Bad}>>)
ASSUME Bad = {}
=============================================================================
