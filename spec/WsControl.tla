------------------------------ MODULE WsControl ------------------------------
(***************************************************************************)
(* What RFC 6455 5.5 asks an endpoint to answer to a received control      *)
(* frame, and what the caller must be told (C08).  Code anchors:           *)
(* wsutil.ControlHandler.Handle/HandlePing/HandlePong/HandleClose,         *)
(* wsutil.ControlFrameHandler, wsutil.HandleControlMessage, and the        *)
(* control path of wsutil.ReadData (wsutil/handler.go, wsutil/helper.go).  *)
(*                                                                         *)
(* A received frame is [op, pay] (payload already unmasked); `wrote` is    *)
(* the list of frames the handler sent (decoded and unmasked by the        *)
(* observer's own codec: [op, fin, rsv, masked, len, pay]); `err` is the   *)
(* kind of the returned error: "nil", "closed" (with code and reason) or   *)
(* "protocol".                                                             *)
(***************************************************************************)
EXTENDS WsCheck, MonUtil

\* every reply must be a frame the peer's own header check accepts
ReplyFrameOk(side, w) ==
    /\ w.fin /\ w.rsv = 0 /\ w.len <= 125 /\ w.len = Len(w.pay)
    /\ w.masked = (side = "client")
    /\ Broken([fin |-> w.fin, rsv |-> w.rsv, op |-> w.op, masked |-> w.masked, len |-> w.len],
              PeerState(side)) = {}

\* a close payload the peer's close-payload check accepts (empty is fine)
ClosePayloadOk(p) ==
    \/ p = <<>>
    \/ /\ Len(p) >= 2
       /\ CloseCodeClass(p[1] * 256 + p[2]) \in {"accept", "open"}
       /\ WellFormed(SubSeq(p, 3, Len(p)))

IsProtoErr(err) == err = "protocol"

\* verdict for one handled control frame; "" = fine, else the broken clause
ControlReply(side, op, pay, wrote, err, code, reason) ==
    LET n == Len(wrote)
        allok == \A i \in 1..n : ReplyFrameOk(side, wrote[i])
        pc == ParseClose(pay)
        cls == CloseCodeClass(pc.code)
        goodClose == Len(pay) >= 2 /\ cls # "refuse" /\ WellFormed(pc.reason)
        mustRefuse == Len(pay) = 1 \/ (Len(pay) >= 2 /\ (cls = "refuse" \/ (cls = "accept" /\ ~WellFormed(pc.reason))))
        echo == n = 1 /\ wrote[1].op = OpClose /\ wrote[1].pay = SubSeq(pay, 1, 2)
                  /\ err = "closed" /\ code = pc.code /\ reason = pc.reason
        refuse == n = 1 /\ wrote[1].op = OpClose /\ Len(wrote[1].pay) >= 2
                    /\ (wrote[1].pay[1] * 256 + wrote[1].pay[2] = 1002
                        \/ (wrote[1].pay[1] * 256 + wrote[1].pay[2] = 1007 /\ ~WellFormed(pc.reason)))
                    /\ ClosePayloadOk(wrote[1].pay)
                    /\ IsProtoErr(err)
    IN
    FirstBad(<<
      <<allok, "reply is not a single final frame the peer accepts (fin, rsv 0, <= 125 bytes, masked iff client)">>,
      <<op = OpPing => n = 1 /\ wrote[1].op = OpPong /\ wrote[1].pay = pay /\ err = "nil",
        "ping must be answered by one pong with the identical payload">>,
      <<op = OpPong => n = 0 /\ err = "nil", "pong must not be answered">>,
      <<op = OpClose /\ pay = <<>> => n = 1 /\ wrote[1].op = OpClose /\ wrote[1].pay = <<>>
                                        /\ err = "closed" /\ code = 1005 /\ reason = <<>>,
        "empty close must be answered by an empty close and reported as 1005">>,
      <<op = OpClose /\ mustRefuse => refuse,
        "invalid close code/reason must be answered by close 1002 (1007 for a bad reason) and a protocol error">>,
      <<op = OpClose /\ Len(pay) >= 2 /\ ~mustRefuse /\ cls = "accept" => echo,
        "valid close must be echoed with the same status code and reported with code and reason">>,
      <<op = OpClose /\ Len(pay) >= 2 /\ ~mustRefuse /\ cls = "open" => (echo \/ refuse),
        "close with an open-class code: echo or refuse">> >>)
=============================================================================
