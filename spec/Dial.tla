-------------------------------- MODULE Dial --------------------------------
(***************************************************************************)
(* ws.Dialer.Dial and its context watcher (dialer.go): the main goroutine, *)
(* the watcher goroutine started by setupContextDeadliner, the caller's    *)
(* context, the dial-timeout timer and a net.Conn that honours deadlines.  *)
(*                                                                         *)
(*   main:    start -> dialing -> setup -> io (K operations) -> defer      *)
(*            -> [recv] -> closeif -> returned                             *)
(*   watcher: idle -> select -> (quit: exited | done: setdl -> send ->     *)
(*            exited)                                                      *)
(*                                                                         *)
(* cfg (chosen in Init, or given by a trace's setup event):                *)
(*   ctxKind  "background" | "cancel" | "deadline"                         *)
(*   timeout  "none" | "shorter" | "longer"  (Dialer.Timeout relative to   *)
(*            the context's own deadline; without a context deadline any   *)
(*            timeout derives a separate dial context)                     *)
(*   dialmode "ok" | "fail" | "hang"   (NetDial returns a conn, fails, or  *)
(*            blocks until its context ends)                               *)
(*   peer     [mode: "ok"|"silent"|"error", at: first affected operation]  *)
(*   K        number of I/O operations of the handshake (kfree: any)       *)
(*   watched  "ctx" | "dialctx": which context the watcher observes - the  *)
(*            code's choice ("ctx" is the pre-repair behaviour).           *)
(***************************************************************************)
EXTENDS Naturals, TLC

VARIABLES cfg,
          ctxState,     \* "live" | "canceled" | "expired"   (the caller's context)
          timer,        \* "off" | "armed" | "fired"          (Dialer.Timeout)
          dcErr,        \* error of the derived dial context once it is done ("none" before)
          mpc, wpc,
          hasConn, dl,  \* conn deadline: "none" | "future" (= the timeout's instant) | "past"
          closed,
          quitClosed, intr,     \* the two channels: quit closed? interrupt: "empty" | "nil" | an error
          ioIdx, ioErr,         \* next I/O operation; result of Upgrade: "nil" | "timeout" | "other"
          err,                  \* what Dial returns
          endedEarly,           \* history: the caller's context ended before the handshake I/O finished
          touched               \* history: the conn was touched after Dial returned

vars == <<cfg, ctxState, timer, dcErr, mpc, wpc, hasConn, dl, closed, quitClosed, intr, ioIdx, ioErr, err,
          endedEarly, touched>>

CtxErrs == {"ctx_canceled", "ctx_deadline"}

HasDialCtx == cfg.timeout # "none" /\ ~(cfg.ctxKind = "deadline" /\ cfg.timeout = "longer")
Background == cfg.ctxKind = "background"
CtxDone == ctxState # "live"
CtxErr == IF ctxState = "canceled" THEN "ctx_canceled" ELSE "ctx_deadline"
DialCtxDone == CtxDone \/ (HasDialCtx /\ timer = "fired")
DialCtxErr == IF HasDialCtx THEN dcErr ELSE CtxErr
WatchedDone == IF cfg.watched = "ctx" THEN CtxDone ELSE DialCtxDone
WatchedErr == IF cfg.watched = "ctx" THEN CtxErr ELSE DialCtxErr
DeadlinePassed == dl = "past" \/ (dl = "future" /\ timer = "fired")
IoPending == mpc \in {"start", "dialing", "setup", "io"}

InitWith(c) ==
    /\ cfg = c
    /\ ctxState = "live" /\ timer = "off" /\ dcErr = "none"
    /\ mpc = "start" /\ wpc = "idle"
    /\ hasConn = FALSE /\ dl = "none" /\ closed = FALSE
    /\ quitClosed = FALSE /\ intr = "empty"
    /\ ioIdx = 1 /\ ioErr = "nil" /\ err = "nil"
    /\ endedEarly = FALSE /\ touched = FALSE

\* ------------------------------------------------------------------ environment
CtxCancel == /\ cfg.ctxKind \in {"cancel", "deadline"} /\ ctxState = "live"
             /\ ctxState' = "canceled"
             /\ dcErr' = IF dcErr = "none" THEN "ctx_canceled" ELSE dcErr
             /\ endedEarly' = (endedEarly \/ IoPending)
             /\ UNCHANGED <<cfg, timer, mpc, wpc, hasConn, dl, closed, quitClosed, intr, ioIdx, ioErr, err, touched>>

CtxExpire == /\ cfg.ctxKind = "deadline" /\ ctxState = "live"
             /\ ctxState' = "expired"
             /\ dcErr' = IF dcErr = "none" THEN "ctx_deadline" ELSE dcErr
             /\ endedEarly' = (endedEarly \/ IoPending)
             /\ UNCHANGED <<cfg, timer, mpc, wpc, hasConn, dl, closed, quitClosed, intr, ioIdx, ioErr, err, touched>>

TimerFire == /\ timer = "armed" /\ timer' = "fired"
             /\ dcErr' = IF dcErr = "none" /\ HasDialCtx THEN "ctx_deadline" ELSE dcErr
             /\ UNCHANGED <<cfg, ctxState, mpc, wpc, hasConn, dl, closed, quitClosed, intr, ioIdx, ioErr, err, endedEarly, touched>>

\* ------------------------------------------------------------------ main goroutine
MStart == /\ mpc = "start" /\ mpc' = "dialing"
          \* the timer only matters when it derives a dial context or sets the conn deadline
          /\ timer' = IF HasDialCtx \/ (Background /\ cfg.timeout # "none") THEN "armed" ELSE "off"
          /\ UNCHANGED <<cfg, ctxState, dcErr, wpc, hasConn, dl, closed, quitClosed, intr, ioIdx, ioErr, err, endedEarly, touched>>

MDialOk == /\ mpc = "dialing" /\ cfg.dialmode = "ok"
           /\ hasConn' = TRUE /\ mpc' = "setup"
           /\ UNCHANGED <<cfg, ctxState, timer, dcErr, wpc, dl, closed, quitClosed, intr, ioIdx, ioErr, err, endedEarly, touched>>

MDialFail == /\ mpc = "dialing" /\ cfg.dialmode = "fail"
             /\ err' = "dialerr" /\ mpc' = "returned"
             /\ UNCHANGED <<cfg, ctxState, timer, dcErr, wpc, hasConn, dl, closed, quitClosed, intr, ioIdx, ioErr, endedEarly, touched>>

\* NetDial blocked: it gives up when the context it was given (the dial context) ends
MDialAbort == /\ mpc = "dialing" /\ cfg.dialmode = "hang" /\ DialCtxDone
              /\ err' = DialCtxErr /\ mpc' = "returned"
              /\ UNCHANGED <<cfg, ctxState, timer, dcErr, wpc, hasConn, dl, closed, quitClosed, intr, ioIdx, ioErr, endedEarly, touched>>

\* background context: SetDeadline(deadline); otherwise start the watcher goroutine
MSetup == /\ mpc = "setup" /\ mpc' = "io"
          /\ IF Background
             THEN /\ dl' = IF cfg.timeout = "none" THEN "none" ELSE "future"
                  /\ UNCHANGED wpc
             ELSE /\ wpc' = "select" /\ UNCHANGED dl
          /\ UNCHANGED <<cfg, ctxState, timer, dcErr, hasConn, closed, quitClosed, intr, ioIdx, ioErr, err, endedEarly, touched>>

PeerAnswers(i) == cfg.peer.mode = "ok" \/ i < cfg.peer.at

MIoOk == /\ mpc = "io" /\ ~closed
         /\ cfg.kfree \/ ioIdx <= cfg.K
         /\ PeerAnswers(ioIdx)
         /\ ioIdx' = ioIdx + 1
         /\ UNCHANGED <<cfg, ctxState, timer, dcErr, mpc, wpc, hasConn, dl, closed, quitClosed, intr, ioErr, err, endedEarly, touched>>

\* Upgrade() returns successfully after its K operations
MIoDone == /\ mpc = "io"
           /\ IF cfg.kfree THEN ioIdx > 1 ELSE ioIdx = cfg.K + 1
           /\ ioErr' = "nil" /\ mpc' = "defer"
           /\ UNCHANGED <<cfg, ctxState, timer, dcErr, wpc, hasConn, dl, closed, quitClosed, intr, ioIdx, err, endedEarly, touched>>

\* a conn that honours deadlines fails the pending / next operation with a timeout
MIoTimeout == /\ mpc = "io" /\ DeadlinePassed
              /\ cfg.kfree \/ ioIdx <= cfg.K
              /\ ioErr' = "timeout" /\ mpc' = "defer"
              /\ UNCHANGED <<cfg, ctxState, timer, dcErr, wpc, hasConn, dl, closed, quitClosed, intr, ioIdx, err, endedEarly, touched>>

MIoErr == /\ mpc = "io" /\ cfg.peer.mode = "error" /\ ioIdx >= cfg.peer.at
          /\ cfg.kfree \/ ioIdx <= cfg.K
          /\ ioErr' = "other" /\ mpc' = "defer"
          /\ UNCHANGED <<cfg, ctxState, timer, dcErr, wpc, hasConn, dl, closed, quitClosed, intr, ioIdx, err, endedEarly, touched>>

\* deferred: background -> SetDeadline(noDeadline); else done(&err): close(quit) ...
MDefer == /\ mpc = "defer"
          /\ IF Background
             THEN /\ dl' = "none" /\ err' = ioErr /\ mpc' = "closeif" /\ UNCHANGED quitClosed
             ELSE /\ quitClosed' = TRUE /\ mpc' = "recv" /\ UNCHANGED <<dl, err>>
          /\ UNCHANGED <<cfg, ctxState, timer, dcErr, wpc, hasConn, closed, intr, ioIdx, ioErr, endedEarly, touched>>

\* ... ctxErr := <-interrupt; map a nil or timeout error to the context's error
MRecv == /\ mpc = "recv" /\ intr # "empty"
         /\ err' = IF intr # "nil" /\ ioErr \in {"nil", "timeout"} THEN intr ELSE ioErr
         /\ mpc' = "closeif"
         /\ UNCHANGED <<cfg, ctxState, timer, dcErr, wpc, hasConn, dl, closed, quitClosed, intr, ioIdx, ioErr, endedEarly, touched>>

\* deferred: if err != nil { conn.Close() }
MCloseIf == /\ mpc = "closeif"
            /\ closed' = (err # "nil") /\ mpc' = "returned"
            /\ UNCHANGED <<cfg, ctxState, timer, dcErr, wpc, hasConn, dl, quitClosed, intr, ioIdx, ioErr, err, endedEarly, touched>>

\* ------------------------------------------------------------------ watcher goroutine
WSelQuit == /\ wpc = "select" /\ quitClosed
            /\ intr' = "nil" /\ wpc' = "exited"
            /\ UNCHANGED <<cfg, ctxState, timer, dcErr, mpc, hasConn, dl, closed, quitClosed, ioIdx, ioErr, err, endedEarly, touched>>

WSelDone == /\ wpc = "select" /\ WatchedDone
            /\ wpc' = "setdl"
            /\ UNCHANGED <<cfg, ctxState, timer, dcErr, mpc, hasConn, dl, closed, quitClosed, intr, ioIdx, ioErr, err, endedEarly, touched>>

WSetDl == /\ wpc = "setdl"
          /\ dl' = "past" /\ wpc' = "send"
          /\ touched' = (touched \/ mpc = "returned")
          /\ UNCHANGED <<cfg, ctxState, timer, dcErr, mpc, hasConn, closed, quitClosed, intr, ioIdx, ioErr, err, endedEarly>>

WSend == /\ wpc = "send"
         /\ intr' = WatchedErr /\ wpc' = "exited"
         /\ UNCHANGED <<cfg, ctxState, timer, dcErr, mpc, hasConn, dl, closed, quitClosed, ioIdx, ioErr, err, endedEarly, touched>>

Main == MStart \/ MDialOk \/ MDialFail \/ MDialAbort \/ MSetup \/ MIoOk \/ MIoDone \/ MIoTimeout \/ MIoErr
          \/ MDefer \/ MRecv \/ MCloseIf
Watcher == WSelQuit \/ WSelDone \/ WSetDl \/ WSend
Env == CtxCancel \/ CtxExpire \/ TimerFire
Next == Main \/ Watcher \/ Env

\* ------------------------------------------------------------------ properties
Returned == mpc = "returned"

\* (S1) nil error: an open conn with its deadline cleared
S1 == Returned /\ err = "nil" => hasConn /\ ~closed /\ dl = "none"
\* (S2) non-nil error after a conn existed: it has been closed
S2 == Returned /\ err # "nil" /\ hasConn => closed
\* (S3) the watcher has finished by the time Dial returns, and the conn is never touched again
S3 == Returned => wpc \in {"idle", "exited"} /\ ~touched
ConnStable == [][Returned => UNCHANGED <<dl, closed>>]_vars
\* (S4) the context ended before the handshake I/O finished and the I/O did not fail for another reason
S4 == Returned /\ err # "nil" /\ hasConn /\ endedEarly /\ ioErr \in {"nil", "timeout"} => err \in CtxErrs
\* the dial phase honours the dial context
S5 == Returned /\ ~hasConn => err \in {"dialerr"} \cup CtxErrs

\* (L) on a conn that honours deadlines Dial returns once the context ends or the timeout elapses
Fairness == /\ WF_vars(Main) /\ WF_vars(Watcher)
Live == (CtxDone \/ timer = "fired") ~> Returned
=============================================================================
