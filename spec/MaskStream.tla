----------------------------- MODULE MaskStream -----------------------------
(***************************************************************************)
(* The streaming mask machine (code anchors: ws.Cipher's offset argument,  *)
(* wsutil.CipherReader/CipherWriter `pos`): a payload is processed as      *)
(* arbitrary consecutive chunks with a running position.  TLC checks, for  *)
(* all chunkings of all payloads over a small alphabet, that the           *)
(* concatenated output is the one-shot RFC 6455 5.3 mask and that masking  *)
(* is an involution.  ImplCipher mirrors cipher.go's head / 16-byte loop / *)
(* tail index arithmetic (remain table) and must equal Mask.               *)
(***************************************************************************)
EXTENDS WsBytes, TLC

CONSTANTS MaxLen, Offsets
Key == <<1, 2, 4, 8>>

VARIABLES payload, off0, pos, done, outp

vars == <<payload, off0, pos, done, outp>>

\* cipher.go: n < 8 byte loop; else ln = remain[off%4] head bytes, rn = (n-ln)%16 tail
\* bytes, and the middle in 16-byte strides with the key rotated to mpos... the code
\* uses the *unrotated* key for the strides, which is right only because ln aligns
\* the stride start to a key boundary: (mpos + ln) % 4 = 0.
Remain == <<0, 3, 2, 1>>
ImplCipher(p, key, off) ==
    LET n == Len(p) IN
    IF n < 8 THEN [i \in 1..n |-> p[i] ^^ key[((off + i - 1) % 4) + 1]]
    ELSE LET mpos == off % 4
             ln == Remain[mpos + 1]
             rn == (n - ln) % 16
         IN [i \in 1..n |->
               IF i <= ln \/ i > n - rn
               THEN p[i] ^^ key[((mpos + i - 1) % 4) + 1]
               ELSE p[i] ^^ key[((i - 1 - ln) % 4) + 1]]

Init == /\ payload \in {[i \in 1..n |-> PByte(n, i)] : n \in 0..MaxLen}
        /\ off0 \in Offsets
        /\ pos = 0 /\ done = 0 /\ outp = <<>>

Chunk(k) == /\ done + k <= Len(payload)
            /\ outp' = outp \o ImplCipher(SubSeq(payload, done + 1, done + k), Key, off0 + pos)
            /\ pos' = pos + k /\ done' = done + k
            /\ UNCHANGED <<payload, off0>>

Next == \E k \in 0..MaxLen : Chunk(k) /\ (k = 0 => done < Len(payload))

PrefixIsOneShot == outp = Mask(SubSeq(payload, 1, done), Key, off0)
Involution == Mask(Mask(payload, Key, off0), Key, off0) = payload
ImplIsMask == ImplCipher(payload, Key, off0) = Mask(payload, Key, off0)
=============================================================================
