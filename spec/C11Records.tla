---------------------------- MODULE C11Records ----------------------------
(* C11: both peers agree; a single peer's outcome does not depend on the   *)
(* transport chunking or the buffer sizes; the debug wrappers are          *)
(* transparent.                                                            *)
EXTENDS Naturals, Sequences, TLC, Json, IOUtils

R == ndJsonDeserialize(IOEnv.VERIF_FILE)

PairOk(r) ==
    /\ r.c.ok = r.s.ok                              \* both succeed or both fail
    /\ r.c.ok => r.c.proto = r.s.proto /\ r.c.exts = r.s.exts
    /\ r.deadlock = FALSE

IndepOk(r) ==
    \A i \in 1..Len(r.variants) :
        LET a == r.variants[1] b == r.variants[i] IN
        a.ok = b.ok /\ a.proto = b.proto /\ a.exts = b.exts /\ a.out = b.out /\ a.err = b.err

DebugOk(r) ==
    /\ r.reqEq /\ r.respEq                          \* the callbacks got exactly the bytes exchanged
    /\ r.sameOutcome                                 \* as without the wrapper
    /\ r.trailingOK                                  \* post-handshake bytes not lost
    /\ r.calls = 1
    /\ r.wrapOK                                      \* with Dialer.WrapConn: the application's wrapper is what comes back and carries all traffic

\* a transport write failed on one side during the handshake: both peers fail (the one whose write failed
\* because it did, the other because the stream ends) - unless the failing write index was never reached
PairFaultOk(r) == r.c.ok = r.s.ok /\ r.deadlock = FALSE

Ok(r) == CASE r.k = "pair" -> PairOk(r)
           [] r.k = "pairfault" -> PairFaultOk(r)
           [] r.k = "indep" -> IndepOk(r)
           [] r.k = "debug" -> DebugOk(r)
           [] OTHER -> FALSE

Bad == {i \in 1..Len(R) : ~Ok(R[i])}
ASSUME PrintT(<<"VERIF-RECORDS", Len(R)>>)
ASSUME PrintT(<<"VERIF-BAD", {<<i, R[i].key>> : i \in Bad}>>)
ASSUME Bad = {}
=============================================================================
