CONSTANTS Watched = "ctx"
          K = 2
SPECIFICATION Spec
INVARIANT S1
INVARIANT S2
INVARIANT S3
INVARIANT S4
INVARIANT S5
PROPERTY ConnStable
PROPERTY Live
CHECK_DEADLOCK FALSE
