---- MODULE MCDial_TTrace_1790875690 ----
EXTENDS Sequences, TLCExt, MCDial, Toolbox, Naturals, TLC

_expression ==
    LET MCDial_TEExpression == INSTANCE MCDial_TEExpression
    IN MCDial_TEExpression!expression
----

_trace ==
    LET MCDial_TETrace == INSTANCE MCDial_TETrace
    IN MCDial_TETrace!trace
----

_prop ==
    ~<>[](
        quitClosed = (FALSE)
        /\
        mpc = ("io")
        /\
        endedEarly = (FALSE)
        /\
        touched = (FALSE)
        /\
        ioErr = ("nil")
        /\
        err = ("nil")
        /\
        hasConn = (TRUE)
        /\
        cfg = ([K |-> 2, ctxKind |-> "deadline", timeout |-> "shorter", dialmode |-> "ok", peer |-> [mode |-> "silent", at |-> 1], kfree |-> FALSE, watched |-> "ctx"])
        /\
        dl = ("none")
        /\
        dcErr = ("ctx_deadline")
        /\
        wpc = ("select")
        /\
        ioIdx = (1)
        /\
        timer = ("fired")
        /\
        intr = ("empty")
        /\
        closed = (FALSE)
        /\
        ctxState = ("live")
    )
----

_init ==
    /\ endedEarly = _TETrace[1].endedEarly
    /\ ioIdx = _TETrace[1].ioIdx
    /\ ctxState = _TETrace[1].ctxState
    /\ ioErr = _TETrace[1].ioErr
    /\ dl = _TETrace[1].dl
    /\ dcErr = _TETrace[1].dcErr
    /\ quitClosed = _TETrace[1].quitClosed
    /\ mpc = _TETrace[1].mpc
    /\ closed = _TETrace[1].closed
    /\ wpc = _TETrace[1].wpc
    /\ timer = _TETrace[1].timer
    /\ cfg = _TETrace[1].cfg
    /\ intr = _TETrace[1].intr
    /\ touched = _TETrace[1].touched
    /\ err = _TETrace[1].err
    /\ hasConn = _TETrace[1].hasConn
----

_next ==
    /\ \E i,j \in DOMAIN _TETrace:
        /\ \/ /\ j = i + 1
              /\ i = TLCGet("level")
        /\ endedEarly  = _TETrace[i].endedEarly
        /\ endedEarly' = _TETrace[j].endedEarly
        /\ ioIdx  = _TETrace[i].ioIdx
        /\ ioIdx' = _TETrace[j].ioIdx
        /\ ctxState  = _TETrace[i].ctxState
        /\ ctxState' = _TETrace[j].ctxState
        /\ ioErr  = _TETrace[i].ioErr
        /\ ioErr' = _TETrace[j].ioErr
        /\ dl  = _TETrace[i].dl
        /\ dl' = _TETrace[j].dl
        /\ dcErr  = _TETrace[i].dcErr
        /\ dcErr' = _TETrace[j].dcErr
        /\ quitClosed  = _TETrace[i].quitClosed
        /\ quitClosed' = _TETrace[j].quitClosed
        /\ mpc  = _TETrace[i].mpc
        /\ mpc' = _TETrace[j].mpc
        /\ closed  = _TETrace[i].closed
        /\ closed' = _TETrace[j].closed
        /\ wpc  = _TETrace[i].wpc
        /\ wpc' = _TETrace[j].wpc
        /\ timer  = _TETrace[i].timer
        /\ timer' = _TETrace[j].timer
        /\ cfg  = _TETrace[i].cfg
        /\ cfg' = _TETrace[j].cfg
        /\ intr  = _TETrace[i].intr
        /\ intr' = _TETrace[j].intr
        /\ touched  = _TETrace[i].touched
        /\ touched' = _TETrace[j].touched
        /\ err  = _TETrace[i].err
        /\ err' = _TETrace[j].err
        /\ hasConn  = _TETrace[i].hasConn
        /\ hasConn' = _TETrace[j].hasConn

\* Uncomment the ASSUME below to write the states of the error trace
\* to the given file in Json format. Note that you can pass any tuple
\* to `JsonSerialize`. For example, a sub-sequence of _TETrace.
    \* ASSUME
    \*     LET J == INSTANCE Json
    \*         IN J!JsonSerialize("MCDial_TTrace_1790875690.json", _TETrace)

=============================================================================

 Note that you can extract this module `MCDial_TEExpression`
  to a dedicated file to reuse `expression` (the module in the 
  dedicated `MCDial_TEExpression.tla` file takes precedence 
  over the module `MCDial_TEExpression` below).

---- MODULE MCDial_TEExpression ----
EXTENDS Sequences, TLCExt, MCDial, Toolbox, Naturals, TLC

expression == 
    [
        \* To hide variables of the `MCDial` spec from the error trace,
        \* remove the variables below.  The trace will be written in the order
        \* of the fields of this record.
        endedEarly |-> endedEarly
        ,ioIdx |-> ioIdx
        ,ctxState |-> ctxState
        ,ioErr |-> ioErr
        ,dl |-> dl
        ,dcErr |-> dcErr
        ,quitClosed |-> quitClosed
        ,mpc |-> mpc
        ,closed |-> closed
        ,wpc |-> wpc
        ,timer |-> timer
        ,cfg |-> cfg
        ,intr |-> intr
        ,touched |-> touched
        ,err |-> err
        ,hasConn |-> hasConn
        
        \* Put additional constant-, state-, and action-level expressions here:
        \* ,_stateNumber |-> _TEPosition
        \* ,_endedEarlyUnchanged |-> endedEarly = endedEarly'
        
        \* Format the `endedEarly` variable as Json value.
        \* ,_endedEarlyJson |->
        \*     LET J == INSTANCE Json
        \*     IN J!ToJson(endedEarly)
        
        \* Lastly, you may build expressions over arbitrary sets of states by
        \* leveraging the _TETrace operator.  For example, this is how to
        \* count the number of times a spec variable changed up to the current
        \* state in the trace.
        \* ,_endedEarlyModCount |->
        \*     LET F[s \in DOMAIN _TETrace] ==
        \*         IF s = 1 THEN 0
        \*         ELSE IF _TETrace[s].endedEarly # _TETrace[s-1].endedEarly
        \*             THEN 1 + F[s-1] ELSE F[s-1]
        \*     IN F[_TEPosition - 1]
    ]

=============================================================================



Parsing and semantic processing can take forever if the trace below is long.
 In this case, it is advised to uncomment the module below to deserialize the
 trace from a generated binary file.

\*
\*---- MODULE MCDial_TETrace ----
\*EXTENDS IOUtils, MCDial, TLC
\*
\*trace == IODeserialize("MCDial_TTrace_1790875690.bin", TRUE)
\*
\*=============================================================================
\*

---- MODULE MCDial_TETrace ----
EXTENDS MCDial, TLC

trace == 
    <<
    ([quitClosed |-> FALSE,mpc |-> "start",endedEarly |-> FALSE,touched |-> FALSE,ioErr |-> "nil",err |-> "nil",hasConn |-> FALSE,cfg |-> [K |-> 2, ctxKind |-> "deadline", timeout |-> "shorter", dialmode |-> "ok", peer |-> [mode |-> "silent", at |-> 1], kfree |-> FALSE, watched |-> "ctx"],dl |-> "none",dcErr |-> "none",wpc |-> "idle",ioIdx |-> 1,timer |-> "off",intr |-> "empty",closed |-> FALSE,ctxState |-> "live"]),
    ([quitClosed |-> FALSE,mpc |-> "dialing",endedEarly |-> FALSE,touched |-> FALSE,ioErr |-> "nil",err |-> "nil",hasConn |-> FALSE,cfg |-> [K |-> 2, ctxKind |-> "deadline", timeout |-> "shorter", dialmode |-> "ok", peer |-> [mode |-> "silent", at |-> 1], kfree |-> FALSE, watched |-> "ctx"],dl |-> "none",dcErr |-> "none",wpc |-> "idle",ioIdx |-> 1,timer |-> "armed",intr |-> "empty",closed |-> FALSE,ctxState |-> "live"]),
    ([quitClosed |-> FALSE,mpc |-> "setup",endedEarly |-> FALSE,touched |-> FALSE,ioErr |-> "nil",err |-> "nil",hasConn |-> TRUE,cfg |-> [K |-> 2, ctxKind |-> "deadline", timeout |-> "shorter", dialmode |-> "ok", peer |-> [mode |-> "silent", at |-> 1], kfree |-> FALSE, watched |-> "ctx"],dl |-> "none",dcErr |-> "none",wpc |-> "idle",ioIdx |-> 1,timer |-> "armed",intr |-> "empty",closed |-> FALSE,ctxState |-> "live"]),
    ([quitClosed |-> FALSE,mpc |-> "setup",endedEarly |-> FALSE,touched |-> FALSE,ioErr |-> "nil",err |-> "nil",hasConn |-> TRUE,cfg |-> [K |-> 2, ctxKind |-> "deadline", timeout |-> "shorter", dialmode |-> "ok", peer |-> [mode |-> "silent", at |-> 1], kfree |-> FALSE, watched |-> "ctx"],dl |-> "none",dcErr |-> "ctx_deadline",wpc |-> "idle",ioIdx |-> 1,timer |-> "fired",intr |-> "empty",closed |-> FALSE,ctxState |-> "live"]),
    ([quitClosed |-> FALSE,mpc |-> "io",endedEarly |-> FALSE,touched |-> FALSE,ioErr |-> "nil",err |-> "nil",hasConn |-> TRUE,cfg |-> [K |-> 2, ctxKind |-> "deadline", timeout |-> "shorter", dialmode |-> "ok", peer |-> [mode |-> "silent", at |-> 1], kfree |-> FALSE, watched |-> "ctx"],dl |-> "none",dcErr |-> "ctx_deadline",wpc |-> "select",ioIdx |-> 1,timer |-> "fired",intr |-> "empty",closed |-> FALSE,ctxState |-> "live"])
    >>
----


=============================================================================

---- CONFIG MCDial_TTrace_1790875690 ----
CONSTANTS
    Watched = "ctx"
    K = 2

PROPERTY
    _prop

CHECK_DEADLOCK
    \* CHECK_DEADLOCK off because of PROPERTY or INVARIANT above.
    FALSE

INIT
    _init

NEXT
    _next

CONSTANT
    _TETrace <- _trace

ALIAS
    _expression
=============================================================================
\* Generated on Thu Oct 01 17:28:11 UTC 2026