CONSTANTS Alphabet = {0, 255, 7}
          MaxTotal = 5
          MaxChunk = 5
          MaxResets = 1
          BugResetKeepsTail = TRUE
INIT Init
NEXT Next
INVARIANT Refines
CHECK_DEADLOCK FALSE
