---------------------------- MODULE C03Records ----------------------------
EXTENDS WsCheck, TLC, Json, IOUtils

R == ndJsonDeserialize(IOEnv.VERIF_FILE)

HdrOk(r) ==
    LET st == StateOf(r.state) B == Broken(r.h, st) IN
    /\ (r.err = "nil") = (B = {})
    /\ r.err # "nil" => r.err \in B
    \* opcode predicates are judged by the same definitions
    /\ r.isControl = IsControl(r.h.op) /\ r.isData = IsData(r.h.op) /\ r.isReserved = IsReservedOp(r.h.op)

CodeOk(r) == CloseDataOk(r.code, r.reason, r.err = "nil")

BodyOk(r) ==
    LET want == CloseBody(r.code, r.reason) IN
    /\ r.body = want /\ Len(r.body) <= 125 /\ r.put = want
    /\ r.pcode = r.code /\ r.preason = Crop(r.reason)
    /\ r.ucode = r.code /\ r.ureason = Crop(r.reason)

ShortOk(r) == Len(r.body) < 2 /\ r.pcode = 0 /\ r.preason = <<>> /\ r.ucode = 0 /\ r.ureason = <<>>

Ok(r) == CASE r.k = "hdr" -> HdrOk(r)
           [] r.k = "code" -> CodeOk(r)
           [] r.k = "body" -> BodyOk(r)
           [] r.k = "short" -> ShortOk(r)
           [] OTHER -> FALSE

Bad == {i \in 1..Len(R) : ~Ok(R[i])}
ASSUME PrintT(<<"VERIF-RECORDS", Len(R)>>)
ASSUME PrintT(<<"VERIF-BAD", {<<i, R[i].key>> : i \in Bad}>>)
ASSUME Bad = {}
=============================================================================
