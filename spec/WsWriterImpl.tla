---------------------------- MODULE WsWriterImpl ----------------------------
(***************************************************************************)
(* Exhaustive exploration of the implementation-level writer algorithm     *)
(* (WsWriterAlgo) against the property-level monitor (WsWriterMon): every  *)
(* call sequence up to MaxCalls over WriteSizes, every constructor size in *)
(* RawSizes, both sides, a destination failing at write FailAts.           *)
(***************************************************************************)
EXTENDS WsWriterAlgo

(***************************************************************************)
(* State machine for exhaustive exploration.                               *)
(***************************************************************************)
CONSTANTS Sides, Ops, RawSizes, WriteSizes, MaxCalls, FailAts, MaxRaw

VARIABLES w, d, pos, m, calls, hdrOK, lastEv

vars == <<w, d, pos, m, calls, hdrOK, lastEv>>

SizeOf(x) == x.buf

Init ==
    \E side \in Sides, op \in Ops, raw \in RawSizes, fa \in FailAts :
       /\ raw > Reserve(side, raw)
       /\ w = NewW(side, op, raw)
       /\ d = [calls |-> 0, failAt |-> fa, failed |-> FALSE]
       /\ pos = 0 /\ calls = 0 /\ hdrOK = TRUE
       /\ m = Fresh(side, op, raw - Reserve(side, raw), 0)
       /\ lastEv = [ev |-> "setup"]

Ev(name, k, n, err, out, rest, d0, d1, w1) ==
    [ev |-> name, k |-> k, n |-> n, err |-> err, out |-> out, rest |-> rest,
     destFailed |-> d1.failed /\ ~d0.failed, late |-> 0, size |-> SizeOf(w1)]

Step(e, w1, d1, pos1, hf) ==
    /\ w' = w1 /\ d' = d1 /\ pos' = pos1
    /\ m' = MonStep(m, e)
    /\ calls' = calls + 1
    /\ hdrOK' = (hdrOK /\ hf)
    /\ lastEv' = e

AWrite(k) ==
    LET r == WriteLoop([w EXCEPT !.dirty = TRUE], d, k, pos, <<>>, 0, TRUE, FALSE)
        e == Ev("Write", k, r.n, IF r.w.err THEN "transport" ELSE "nil", r.out, 0, d, r.d, r.w)
    IN Step(e, r.w, r.d, pos + r.n, r.hdrfits /\ ~r.shrink)

AWriteThrough(k) ==
    LET r == DoWriteThrough(w, d, k, pos)
        e == Ev("WriteThrough", k, r.n, r.err, r.out, r.rest, d, r.d, r.w)
    IN Step(e, r.w, r.d, pos + r.n, TRUE)

\* (the copy loop runs once per buffer: totals are bounded relative to the buffer so that the
\* recursive operator stays shallow with the real header constants)
AReadFrom(total, srcErr) ==
    /\ total <= 40 * w.buf + 40
    /\ LET r == DoReadFrom(w, d, total, srcErr, pos)
        e == [Ev("ReadFrom", total, r.n, r.err, r.out, 0, d, r.d, r.w) EXCEPT !.k = total]
             @@ [total |-> total, srcErr |-> srcErr]
       IN Step(e, r.w, r.d, pos + r.n, r.hdrfits)

AFlushFragment ==
    LET r == DoFlushFragment(w, d, pos)
        e == Ev("FlushFragment", 0, 0, IF r.w.err THEN "transport" ELSE "nil", r.out, 0, d, r.d, r.w)
    IN Step(e, r.w, r.d, pos, r.hdrfits)

AFlush ==
    LET r == DoFlush(w, d, pos)
        e == Ev("Flush", 0, 0, IF r.w.err THEN "transport" ELSE "nil", r.out, 0, d, r.d, r.w)
    IN Step(e, r.w, r.d, pos, r.hdrfits)

AGrow(k) ==
    LET w1 == DoGrow(w, k)
        e == Ev("Grow", k, 0, "nil", <<>>, 0, d, d, w1)
    IN w1.raw <= MaxRaw /\ Step(e, w1, d, pos, ~GrowShrinks(w, k))

ADisableFlush == Step([ev |-> "DisableFlush"], [w EXCEPT !.noflush = TRUE], d, pos, TRUE)
ASetExt(c) == Step([ev |-> "SetExt", compressed |-> c], [w EXCEPT !.comp = c], d, pos, TRUE)

\* Reset onto a healthy destination, possibly another side
AReset(side, op) ==
    LET w1 == DoReset(w, side, op)
        d1 == [calls |-> 0, failAt |-> 0, failed |-> FALSE] IN
    /\ w.raw > Reserve(side, w.raw)
    /\ Step([ev |-> "Reset", side |-> side, op |-> op, size |-> SizeOf(w1)], w1, d1, pos, TRUE)

AResetOp(op) == Step([ev |-> "ResetOp", op |-> op], DoResetOp(w, op), d, pos, TRUE)

Next ==
    /\ calls < MaxCalls
    /\ m.bad = ""
    /\ \/ \E k \in WriteSizes : AWrite(k)
       \/ \E k \in WriteSizes : AWriteThrough(k)
       \/ \E k \in WriteSizes, se \in {"eof", "transport_src"} : AReadFrom(k, se)
       \/ AFlushFragment
       \/ AFlush
       \/ \E k \in WriteSizes : k > 0 /\ AGrow(k)
       \/ ADisableFlush
       \/ \E c \in BOOLEAN : c # w.comp /\ ASetExt(c)
       \/ \E side \in Sides, op \in Ops : AReset(side, op)
       \/ \E op \in Ops : AResetOp(op)

Spec == Init /\ [][Next]_vars

\* ---- properties
Refines == m.bad = ""                        \* C06 / C13 / C16 / C18 at the property level
HeaderFits == hdrOK                          \* header always fits the reserved bytes; Grow never shrinks
BufferBounds == w.n <= w.buf /\ w.buf < w.raw /\ Offset(w) = Reserve(w.side, w.raw)
ResetIsFresh ==                              \* C18 on the struct itself
    lastEv.ev = "Reset" =>
        w = [NewW(lastEv.side, lastEv.op, w.raw) EXCEPT !.raw = w.raw]
AfterFailNoWrites == d.failed => d.calls = d.failAt   \* C16: no destination write after the failed one

View == <<w, d, m, calls, hdrOK, lastEv.ev, pos - m.acc>>
=============================================================================
