--------------------------- MODULE CtlWriterImpl ---------------------------
(***************************************************************************)
(* Implementation-level model of wsutil.ControlWriter: a Writer of size    *)
(* `limit` plus the byte counter c.n.  TLC explores every sequence of      *)
(* writes whose total crosses the (scaled) limit and checks with the       *)
(* property-level monitor CtlStep that no non-final, continuation or       *)
(* oversized control frame is ever emitted and that overflowing writes     *)
(* fail.  BugCtlNoCount = TRUE is the pre-repair behaviour (c.n never      *)
(* incremented).                                                           *)
(***************************************************************************)
EXTENDS WsWriterAlgo

CONSTANTS BugCtlNoCount, Sides, Ops, WriteSizes, MaxCalls

VARIABLES cw, cn, cd, cpos, cm, ccalls

cvars == <<cw, cn, cd, cpos, cm, ccalls>>

\* NewControlWriter: NewWriterSize(dest, state, op, MaxControlFramePayloadSize)
CInit == \E side \in Sides, op \in Ops :
           /\ cw = NewW(side, op, L7 + HdrSize(side, L7))
           /\ cn = 0 /\ cpos = 0 /\ ccalls = 0
           /\ cd = [calls |-> 0, failAt |-> 0, failed |-> FALSE]
           /\ cm = CtlFresh(side, op, L7, L7)

CEv(name, k, n, err, out) == [ev |-> name, k |-> k, n |-> n, err |-> err, out |-> out, rest |-> 0]

CWrite(k) ==
    IF cn + k > L7
    THEN /\ cm' = CtlStep(cm, CEv("CWrite", k, 0, "ctl_overflow", <<>>))
         /\ UNCHANGED <<cw, cn, cd, cpos>>
    ELSE LET r == WriteLoop([cw EXCEPT !.dirty = TRUE], cd, k, cpos, <<>>, 0, TRUE, FALSE)
             \* the harness reports a frame's payload as [0, len) when it equals the written bytes
             out == [i \in 1..Len(r.out) |-> [r.out[i] EXCEPT !.lo = IF r.out[i].lo = 0 /\ r.out[i].fin THEN 0 ELSE -1]]
         IN /\ cm' = CtlStep(cm, CEv("CWrite", k, r.n, "nil", out))
            /\ cw' = r.w /\ cd' = r.d /\ cpos' = cpos + r.n
            /\ cn' = IF BugCtlNoCount THEN cn ELSE cn + r.n

CFlush ==
    LET r == DoFlush(cw, cd, cpos)
        out == [i \in 1..Len(r.out) |->
                  [r.out[i] EXCEPT !.lo = IF r.out[i].hi - r.out[i].lo = cm.pending /\ r.out[i].hi = cpos THEN 0 ELSE -1]]
    IN /\ cm' = CtlStep(cm, CEv("CFlush", 0, 0, "nil", out))
       /\ cw' = r.w /\ cd' = r.d /\ UNCHANGED <<cn, cpos>>

CNext == /\ ccalls < MaxCalls /\ cm.bad = ""
         /\ ccalls' = ccalls + 1
         /\ \/ \E k \in WriteSizes : CWrite(k)
            \/ CFlush

CtlRefines == cm.bad = ""
=============================================================================
