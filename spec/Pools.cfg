CONSTANTS Sessions = {"A", "B"}
          Bufs = {"b1", "b2"}
          Alias = FALSE
          EarlyPut = FALSE
          MaxOps = 5
INIT Init
NEXT Next
INVARIANT ResultsStable
INVARIANT NonInterference
CHECK_DEADLOCK FALSE
