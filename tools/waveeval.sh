#!/bin/bash
# tools/waveeval.sh <prefix> [ids...]  - run tools/seedtest.sh on /tmp/<prefix>-CXX/SEED for each property (default all 20)
pre="$1"; shift
ids="${*:-$(seq -w 1 20)}"
for i in $ids; do
  d=/tmp/$pre-C$i/SEED
  [ -f "$d/patch.diff" ] || { echo "C$i: no seed yet"; continue; }
  out=$(tools/seedtest.sh "$d" 2>&1)
  conf=$(echo "$out" | grep -E "FAILS WITHOUT|SUITE FAILS|DEMO PASSES|does not apply" | tr '\n' ' ')
  echo "C$i: ${conf:+UNCONFIRMED($conf) }$(echo "$out" | grep -E "quick ->" | cut -c1-230)"
done
git -C /repo status --short | head -3
