#!/usr/bin/env python3
"""Regenerates /verif/MANIFEST.json from the table below (single source of truth)."""
import json
import os
import subprocess

VERIF = os.path.dirname(os.path.dirname(os.path.abspath(__file__)))
ALL = ["C%02d" % i for i in range(1, 21)]

# id -> (category, technique, text, note, design_ref)
CLAIMED = {
    "C01": ("exploration",
            "TLA+ FrameCodec operators as executable oracle; TLC judges records logged from the real codec (record validation)",
            "Every header of a boundary grid (fin x rsv x op x masked x mask x 22 lengths up to 2^63-1), random headers with uniform bit-width, and structured/random byte strings are run through WriteHeader/HeaderSize/ReadHeader/Reader.NextFrame (whole, byte-wise and split transports) and the whole-frame APIs; TLC evaluates FrameCodec.tla (RFC 6455 5.2 transcribed, self-checked by RoundTrip) on each logged record: exact bytes, size, consumed count, decoder agreement. Function-like property, so the spec is an oracle rather than a state space; exploration level.",
            "Trusts TLC's evaluation of FrameCodec.tla and the harness' logging; input space sampled on boundaries + seeded random, not exhaustive.",
            "7/C01"),
    "C02": ("exploration",
            "TLA+ Mask operator (RFC 6455 5.3) as oracle for logged records + exhaustive TLC model of the chunked/strided cipher (MaskStream)",
            "MaskStream.tla: TLC checks for every payload length 0..44, 10 offsets and every chunk boundary that the running-offset machine equals the one-shot RFC XOR, that masking is an involution and that cipher.go's head/16-byte-stride/tail index arithmetic equals the RFC definition. Records from the real ws.Cipher (lengths 0..80 x 14 offsets x 8 alignments, every 2-split, seeded multi-splits), CipherReader/CipherWriter over short-read/short-write transports (with Reset), and the six Mask/Unmask frame helpers (header fields, output, caller slice before/after) are judged by TLC against Mask.",
            "Keys and payload bytes are seeded-random samples; offsets near MaxInt excluded; trusts TLC's Bitwise XOR.",
            "7/C02"),
    "C03": ("exploration",
            "TLA+ WsCheck rule set as oracle; complete grid enumerated in the harness and judged by TLC (record validation, exhaustive domain)",
            "The whole CheckHeader domain (fin x rsv x op x masked x len class x 16 states = 32768 cases) and all 65536 close codes are enumerated; TLC judges each logged verdict with WsCheck!Broken (accept iff no rule broken; the reported error names a broken rule) and CloseDataOk (accept/refuse/open classes; reason validity by the RFC 3629 table, model-checked against the streaming automaton). Close bodies for 11 codes x reason lengths 0..130 (ASCII and multi-byte crops) must equal CloseBody and parse back.",
            "Length classes {0,125,126,65536} stand for all lengths (the rules only compare with 125). Reasons are a fixed set of valid/invalid shapes (+ random in thorough).",
            "7/C03"),
    "C06": ("model_checking",
            "TLA+ property-level monitor (WsWriterMon) + exhaustive TLC exploration of the implementation-level writer model (WsWriterImpl) + trace validation of real wsutil.Writer call sequences against the monitor",
            "WsWriterMon states what C06 permits as a monitor over public-call events (frames at the destination decoded by the harness' own codec). TLC explores WsWriterImpl (the real Write/ReadFrom/WriteThrough/Flush/Grow/Reset algorithm with scaled header thresholds) exhaustively for all call sequences up to depth 4 over boundary sizes, 7 buffer sizes, both sides, and checks Refines (no behaviour rejected by the monitor), HeaderFits, BufferBounds. The same monitor then validates traces of the real code: every depth-3 (thorough: 4) call sequence over 19 operations sized relative to live Available()/Size() on small-buffer configurations, plus seeded random 12-40 call sequences on 60 constructor/size configurations around the 125/126 and 65535/65536 thresholds.",
            "Bounded: depth and alphabet as stated; open clauses of DESIGN 6.2 are not asserted. Trusts the harness' own frame codec (validated against FrameCodec in C01).",
            "7/C06"),
    "C08": ("model_checking",
            "TLA+ monitor CtlStep + exhaustive TLC model of ControlWriter (CtlWriterImpl) + trace validation of the real ControlWriter",
            "Control-writer part of C08 (reply content checks are added by the control-handler driver): every sequence of <= 4 writes over {0,1,62,63,124,125,126} bytes through NewControlWriter / NewControlWriterBuffer on both sides must never produce a non-final, continuation, oversized or wrongly masked frame, and overflowing writes must fail; TLC explores the scaled model exhaustively against the same monitor.",
            "Write sizes are boundary values, not all sizes.",
            "7/C08"),
    "C16": ("fault_enumeration",
            "TLA+ monitors (WsWriterMon AfterFailure, WsReaderMon cut clauses) + exhaustive TLC models with a failing destination / a cut stream (WsWriterImpl, WsReaderImpl_cut, planted BugBareLimitedReader) + trace validation with every destination-write index failing and every byte offset cut + record validation (C16Records) of the frame-level API and both handshakes cut at every offset",
            "Writer: for every depth-2 (thorough: 3) call history over 9 operations on 3 configurations, every index of the destination write fails (whole / after 1 byte / after all bytes); the following calls must all report an error and the destination must see no further byte. Reader: 12 stream shapes cut at every byte offset as EOF and as a transport error through Reader/Discard/NextReader/ReadMessage/ReadData, judged by WsReaderMon. Frame level and handshakes (c16f): ws.ReadFrame/ReadHeader on payloads up to 3 MiB cut at every header offset and at payload offsets incl. every multiple of 2^20; Upgrader.Upgrade / Dialer.Upgrade cut at every byte of 4 / 3 message forms (EOF, EOF with data, error), handshake writes failing at call 1..4. TLC checks the models exhaustively (AfterFailNoWrites, Refines).",
            "io.EOF for a frame of which no payload byte arrived counts as an error report. ReadFrom's return value after a destination failure is open.",
            "7/C16"),
    "C18": ("model_checking",
            "TLA+ invariants ResetIsFresh on WsWriterImpl and FlateStream (TLC, exhaustive; planted BugResetKeepsErr / BugResetKeepsTail must give counterexamples) + monitor Fresh-after-Reset + lock-step twin comparison in trace validation + record validation (C18Records) of the other resettable objects",
            "Writer: every history (depth 2, thorough 3, over 12 operations incl. growth, disabled flushing, extension, source error, failing destination) followed by Reset(side', op') or PutWriter/GetWriter and every depth-2 suffix must be accepted by the monitor restarted in its Fresh state and must equal, event by event, a freshly constructed writer of the same Size(). TLC proves ResetIsFresh on the model for all bounded histories. Message reader (c18r): a first message (32 valid/invalid/truncated UTF-8 strings, 1-3 fragments) read partly or wholly or discarded, then two more messages on the same reader, judged by the memoryless monitor. Compression writer/reader, CipherReader/CipherWriter, UTF8Reader, wsflate.Extension (c18x): 3-7 histories each (flushed, failed, partial, source error, rejected, ...) then Reset and a suffix of operations whose every observation must equal a newly constructed instance's, plus the history-free FlateOps clauses on the suffix.",
            "Bounded histories/suffixes as stated.",
            "7/C18"),
    "C04": ("model_checking",
            "TLA+ property-level monitor WsReaderMon + exhaustive TLC exploration of the implementation-level reader model (WsReaderImpl) + trace validation of the real Reader/NextReader/ReadMessage/ReadData",
            "WsReaderMon specifies reassembly as a deterministic monitor over public-call events, using the number of transport bytes pulled to know which frame headers were consumed. TLC explores WsReaderImpl (NextFrame/Read/Discard algorithm) for all streams of <= 3 frames over the alphabet with every read-size sequence and checks Refines. Traces of the real code: every RFC-valid frame sequence up to 3 frames (thorough: crossed with all 9 entry variants, + 4 frames) on both sides through Reader (with/without UTF-8, Discard at 0/1), NextReader, ReadMessage, ReadData/Text/Binary under 5 transport chunkings and 5 caller buffer sizes; seeded random position-coded streams of 5-40 frames across the 125/126 and 65535/65536 boundaries.",
            "Bounded alphabets/depths as stated. Frame offsets come from the harness' own codec (validated in C01).",
            "7/C04"),
    "C05": ("model_checking",
            "WsReaderMon first-offending-frame oracle (WsCheck!Broken folded over the fragmentation state) + TLC on WsReaderImpl with invalid frames + trace validation",
            "Every valid prefix (0..2 frames; thorough 3) extended by each of 25 invalid frames applicable in that state and a trailing ping, both sides, Reader/ReadMessage/ReadData, and MaxFrameSize in {len-1,len,len+1} at every position: everything before the offending frame is delivered as for a valid stream, the call that reaches it returns a protocol error naming a broken rule (or the size-limit error) with not one payload byte of it pulled from the transport, nothing after it is delivered. TLC checks the same on WsReaderImpl for all streams of <= 3 frames including invalid ones, with and without the extension and a size limit.",
            "Which of several broken rules is reported is left open.",
            "7/C05"),
    "C07": ("model_checking",
            "Utf8.tla (RFC 3629 table = streaming automaton, TLC-checked) as oracle inside WsReaderMon + record validation of the standalone UTF8Reader + trace validation of text messages under every fragment split",
            "MCUtf8: TLC proves table == automaton and split-independence on all strings over 24 boundary bytes up to length 4 (346k states). 32 valid/invalid strings as text messages under every split into <= 3 fragments, optional pings between fragments, a following message on the same reader, binary control; Reader(CheckUTF8)/ReadMessage/ReadData; accepted iff WellFormed(concatenation), invalid never reported as complete, 'invalid' only when no completion could be valid. Standalone UTF8Reader: all 1-byte, boundary (thorough: all) 2-byte, structured 3/4-byte strings under 3 chunkings judged by TLC.",
            "3- and 4-byte strings are a structured cover, not all 2^32.",
            "7/C07"),
    "C13": ("model_checking",
            "WsWriterMon rsv clause + WsReaderMon extension clauses (TLC on both Impl models) + trace validation",
            "Send side: the monitor's clause 'rsv1 exactly on the first frame of a compressed message' is checked on every C06 trace with the MessageState extension and by TLC on WsWriterImpl. Receive side: message shapes with every RSV pattern on every frame position, extension attached, StateExtended on/off: IsCompressed() equals RSV1 of the current message's first frame, undisturbed by control frames; the header handed out has RSV1 cleared and RSV2/3 untouched; RSV1 on a continuation or control frame is a protocol error. TLC checks CompState and Refines on WsReaderImpl with the extension.",
            "End-to-end round trip through the compression stack is part of C12's driver.",
            "7/C13"),
    "C14": ("model_checking",
            "TLA+ Pmce (RFC 7692 7.1 legality predicate + the negotiator's comparisons) checked exhaustively by TLC; the real Extension/Parameters run on the same complete grid and judged by TLC",
            "MCPmce: all 324 configurations x all 360 single offers, and all lists of <= 3 offers from 27 representatives, with Reset: every response is a LegalAnswer, at most one offer accepted, the accepted one is the first acceptable alone, Reset makes the negotiator new; Parse(Option(p)) = p for all parameters; the pre-repair comparison is shown to violate Legal (anti-vacuity). The real wsflate.Extension is run on the same complete 116640-pair grid (+ offer lists), Parameters.Parse on valid/unknown/duplicated/ill-valued lists and Parameters.Option on all parameters; TLC judges every record with LegalAnswer / ParseOption / OptionOf.",
            "Declining is always legal, so a negotiator that accepts less than it could is not flagged. Parameter value strings are abstracted to naturals by the harness.",
            "7/C14"),
    "C20": ("model_checking",
            "explicit TLA+ model of Dial's goroutines (main, watcher, context, timer, deadline-honouring conn) checked by TLC incl. liveness; trace validation of the real Dialer.Dial over a gated net.Conn with forced schedules",
            "MCDial: every configuration (context kind x timeout relation x NetDial ok/fail/hang x peer responsive/silent-from-i/failing-at-i, K=2) x every interleaving: S1 (nil error => open conn, deadline cleared), S2 (error => closed), S3 (watcher finished, conn never touched after return), S4 (context ended early and I/O nil/timeout => context's error), S5, ConnStable, and Live ((ctx done or timeout fired) ~> returned under weak fairness); the pre-repair model (watcher observes ctx) is shown to violate Live. Real code: 380 forced schedules (cancellation before/inside NetDial, at begin/end of every I/O operation, exactly as the handshake completes; SetDeadline(past) immediate or held until the I/O is over) + 300 (thorough 5000) unforced races, every event sequenced under the gate's mutex, validated against TraceDial with the invisible steps as silent actions; liveness on the real code = returns within 3 s for 30 ms timers.",
            "Conn and NetDial are harness stubs that honour deadlines/contexts; the Go scheduler decides the unforced race; TLS (wss) dialing is not modelled.",
            "7/C20"),
    "C12": ("model_checking",
            "TLA+ FlateOps/FlateStream (cbuf tail protocol, suffixed reader) model-checked by TLC + record validation of the real wsflate stack with an independent inflater/deflater (Python zlib) supplying the DEFLATE verdicts",
            "FlateStream: TLC checks that cbuf.Write's split/shift arithmetic refines 'destination = compressor output minus its last min(4,n) bytes; Flush ok iff the output ends with 00 00 ff ff' for every chunking of every byte string <= 9 over 3 byte values. Real code: scripted compressors through wsflate.Writer (all <= 3-chunk splits of strings <= 5, thorough 7, with/without tail, then sticky-error probes), pass-through decompressors through wsflate.Reader (byte-reader/plain sources, 6 read modes incl. Reset), compress/flate at 5 levels x 7-10 payload classes x 5 write/flush patterns inflated by Python zlib at every flush and after Close, zlib sync-flushed streams (4 levels x 3 strategies) read back under 6 source/chunking modes, the frame helpers, and the end-to-end writer/reader stack with MessageState.",
            "Bit-level DEFLATE fidelity is delegated to Python zlib (stated in DESIGN 10); payload classes are samples.",
            "7/C12"),
    "C09": ("exploration",
            "TLA+ Handshake!ServerVerdict / AllowedStatus as oracle over abstract requests; the harness renders token classes to bytes and TLC judges what the real upgraders answered (record validation)",
            "Requests are generated from token classes (so the classes are ground truth): the full product host x upgrade x connection x version x key classes (4x5x5x6x8 = 4800, quick: 1/3 + all with host ok) with seeded spellings (header-name case, blanks, token position inside lists, header order, CRLF/LF, extra headers), method/version forms alone and combined with a broken header, subprotocol lists x selectors, extension offers x selector/negotiator, five rejecting callbacks x six statuses; through Upgrader.Upgrade, ws.Upgrade, HTTPUpgrader.Upgrade (net/http-parsed request, fake hijacker) and ws.UpgradeHTTP. TLC checks: success iff compliant and no callback objected; 101 with the recomputed Sec-WebSocket-Accept; first client-ordered accepted subprotocol; extensions only from the offer; never a 101 on failure; status in the allowed set; 426 carries Sec-WebSocket-Version: 13; caller's headers present; Content-Length = body length.",
            "Function-like property: the spec is an executable oracle (exploration level). Open cases listed in DESIGN 6.2 are not asserted.",
            "7/C09"),
    "C10": ("exploration",
            "TLA+ Handshake!ClientVerdict as oracle over abstract responses + request clauses; record validation of Dialer.Upgrade / Dialer.Dial",
            "Responses rendered from classes: proto x status-token class (incl. non-digit tokens with bytes 0x3A-0x3F and values wrapping mod 2^64) and upgrade/connection/accept/protocol/extension classes, with 0-3 trailing frames, 5 read-buffer sizes and 5 chunkings: success iff HTTP/1.x (x>=1), literal 101, Upgrade/Connection/Accept valid, protocol requested, every extension offered; on success protocol/extensions (names and parameters) are the server's and every trailing byte is readable once, in order, through br then the conn. Requests: 13 URL forms (ports, IPv6 literals, paths, queries, ws/wss, Host override) x 4 option sets x 2 dials: request line, Host, Upgrade, Connection, version, fresh 16-byte base64 key, protocols, extensions with quoted parameters, extra headers, NetDial address with default ports, TLS host name.",
            "Expected URI/Host/address per URL form are hand-written ground truth; status tokens with leading zeros are not generated (open).",
            "7/C10"),
    "C11": ("exploration",
            "record validation of dialer<->upgrader pairs, single-peer chunking independence and debug wrappers; ReadLine.tla (readLine over ReadSlice) evaluated by TLC for all short streams",
            "Pairs: the real Dialer.Upgrade against the real Upgrader.Upgrade over a net.Pipe re-chunked in both directions for subprotocol lists x selectors x extension offers (with parameters that need quoting) x {selector, wsflate.Extension.Negotiate, table negotiator} x extra headers x header lines of 0/40/400 bytes x buffer sizes {0,16,64,300,4096}: both succeed with equal protocol and extensions, or both fail. Independence: 5 fixed requests and 4 fixed responses each served under 12 chunkings x 5 read buffers x 2 write buffers: outcome, handshake data and bytes written identical (random key masked). Debug wrappers: callbacks get exactly the bytes exchanged, same outcome as the plain peer, no post-handshake byte lost (head length swept over 0..69 pad bytes against read buffers 16/32/64).",
            "A parameter value containing an embedded double quote is not round-tripped by the httphead dependency (outside this repository): not generated.",
            "7/C11"),
    "C15": ("exploration",
            "mutation scripts drawn from a TLA+ mutation model (Mutate.tla, TLC -simulate) + seeded scripts applied to valid seeds of every kind; outcome records (value | error | panic | hang, allocation, payload pulled) judged by TLC",
            "Valid seeds (26 frame streams incl. a compressed frame, requests, responses whose Accept is filled in at serve time, option lists, deflate streams incl. a 1 MiB zero run) are mutated by 400 (thorough 6000) TLC-generated scripts and 1500 (thorough 60000) seeded ones and fed to 20 decoding entry points; every extreme announced length 2^31-1..2^63-1 x opcode x mask at every frame entry point, with bytes allocated during ReadHeader / Reader.NextFrame measured (<= 64 KiB + input) and MaxFrameSize refusals checked to have pulled 0 payload bytes. Calls run under recover with a read-call budget (no-progress loops), the driver under ulimit -v with a watchdog; a dying driver is attributed to the input it was processing and confirmed alone.",
            "Exploration, not a proof of totality; monitors (panic, budget, MemStats) are Go-side.",
            "7/C15"),
    "C17": ("model_checking",
            "TLA+ Pools model (results as copies vs aliases, recycling) checked by TLC with an aliasing planted bug + trace validation (TracePools) of results re-read after the real pools were recycled",
            "Pools.tla: TLC shows ResultsStable for 2-3 sessions sharing 2 buffers under all interleavings when results are copies, and a violation when they alias (anti-vacuity). Real code (GOMAXPROCS=1, GC off): a handshake through each library-owned selection path (Upgrader Protocol/Extension/Negotiate, Accepted(), HTTPUpgrader Protocol/Extension/Negotiate, Dialer protocols and extension parameters), close reasons, ReadMessage/ReadData payloads over 5 size classes; after each, every size class of the pbufio/pbytes/writer pools is pulled, overwritten and returned and the operation repeated with different contents, for 3 (thorough 8) rounds, re-reading every earlier result; write side: 9 non-mutating write APIs x 9 payload sizes - caller slice bit-for-bit intact and destination bytes unaffected by reuse of the slice.",
            "sync.Pool reuse is made likely (single P, no GC), not guaranteed; user-supplied selector paths (ProtocolCustom/ExtensionCustom) are outside the property.",
            "7/C17"),
    "C19": ("model_checking",
            "TLA+ Pools model (NonInterference under all interleavings, early-Put planted bug) + TLA+ WsConn model of one connection (client, echo server, channels; safety + liveness, two planted bugs) with trace validation of the frame events of real concurrent connections + stress of N concurrent real sessions compared with their solo behaviour (also from a cold process start) + Go race detector",
            "Pools.tla: with Put deferred to the end of an operation every session derives what it would alone, for all interleavings of 2-3 sessions (TLC); an early Put violates it (anti-vacuity). Real code: N in {2,8,64} concurrent sessions x GOMAXPROCS {1,2,16} (x6 rounds in thorough), each a full connection over its own buffered duplex (handshake through DefaultDialer/ws.Upgrade or configured peers with subprotocols and permessage-deflate, messages 0..70000 bytes fragmented by small writers, pings, pooled GetWriter/PutWriter echo, close handshake) with seeded Gosched/short-read jitter: the ordered observations of every session equal those of the same session run alone; the same driver built with -race must report no data race; cold-start processes (the first 16 sessions of a process start together) are run plain and under -race; sessions of two kinds share package-level dialers. WsConn.tla: every concurrent connection (24 client programmes, 1/4/32 at once) is linearised by the single lock of the harness' duplex and replayed frame by frame into the connection model (TraceWsConn), whose invariants EchoCorrect, PongCorrect, CloseCorrect, NothingAfterClose, Complete are evaluated after every step.",
            "The Go scheduler is not controllable: schedules are sampled, not enumerated.",
            "7/C19"),
}

PENDING_REASON = "check not built yet in this round (work in progress; planned in DESIGN.md section 7)"


def head(repo):
    try:
        return subprocess.check_output(["git", "-C", repo, "log", "--format=%H %s"], text=True).splitlines()
    except Exception:
        return []


def main():
    hooks_commits = [l.split()[0] for l in head("/repo") if " verif-hook:" in l or l.split(" ", 1)[1].startswith("verif-hook")]
    checks = []
    for pid in ALL:
        if pid not in CLAIMED:
            continue
        cat, tech, text, note, ref = CLAIMED[pid]
        checks.append(dict(
            property_id=pid,
            quick_cmd="tools/check %s quick" % pid,
            thorough_cmd="tools/check %s thorough" % pid,
            evidence_file="/verif/evidence/%s.json" % pid,
            replay_cmd_template="tools/check %s --replay {path}" % pid,
            engine="tlc+wsverif",
            level_claimed=dict(category=cat, text=text, design_ref="DESIGN.md section " + ref),
            level_note=note,
            technique=tech,
        ))
    na_file = os.path.join(VERIF, "tools", "not_applicable.json")
    na_reasons = json.load(open(na_file)) if os.path.exists(na_file) else {}
    m = dict(
        version=1,
        setup_cmd="tools/setup",
        hooks=dict(
            guard="verif",
            enable="go build -tags verif (the harness module /verif/harness replaces github.com/gobwas/ws with /repo and is rebuilt by every check)",
            baseline_off_cmd="cd /repo && GOFLAGS=-mod=mod GOPROXY=off GOSUMDB=off GOTOOLCHAIN=local go test -vet=off -count=1 -timeout 25m ./...",
            source_commits=hooks_commits,
            add_only=True,
        ),
        engines=[
            dict(name="tlc+wsverif", path="/verif/tools/check",
                 serves_properties=[c["property_id"] for c in checks],
                 kind_free_text="explicit TLA+ specification (spec/*.tla) checked with TLC; Go conformance harness (harness/) logs records/traces from the real code built from /repo, TLC judges them against the specification; TLC-generated behaviours are replayed into the real code"),
        ],
        checks=checks,
        notes="Exit codes: 0 held, 1 VIOLATION, 2 infrastructure trouble (never a violation). VERIF_SEED seeds all random choices. known_findings.json lists recorded/fixed defects.",
        not_applicable=[dict(property_id=p, reason=na_reasons.get(p, PENDING_REASON)) for p in ALL if p not in CLAIMED],
    )
    json.dump(m, open(os.path.join(VERIF, "MANIFEST.json"), "w"), indent=1)
    print("MANIFEST.json: %d checks, %d not_applicable" % (len(checks), len(m["not_applicable"])))


if __name__ == "__main__":
    main()
