#!/bin/bash
# tools/benigneval.sh [dir...]  - false-alarm regression: every property-PRESERVING change kept under
# benign/<id>/ (patch.diff, meta.json; made by sub-agents that saw only the property text) is applied,
# the quick checks of its property and of every property anchored in the files it touches are run
# (expected: exit 0, no VIOLATION line), and the patch is undone.
# Under `vp run --with-repo` it works on the snapshot ($VP_RUN_REPO), otherwise on /repo itself.
set -u
V=$(cd "$(dirname "$0")/.." && pwd); cd "$V"
R=${VP_RUN_REPO:-/repo}
if [ "$R" != /repo ]; then sed -i "s#=> /repo#=> $R#" harness/go.mod; export VERIF_REPO=$R; fi
dirs="${*:-benign/*/}"
for d in $dirs; do
  [ -f "$d/patch.diff" ] || continue
  id=$(basename "$d"); own=${id:0:3}
  files=$(grep '^diff --git' "$d/patch.diff" | sed 's#.* b/##' | tr '\n' ' ')
  set=" $own"
  for f in $files; do
    case $f in
      wsutil/writer.go) set="$set C06 C08 C13 C16 C17 C18 C19 C12";;
      wsutil/reader.go) set="$set C04 C05 C07 C08 C13 C15 C16 C18 C01";;
      wsutil/cipher.go) set="$set C02 C04 C08 C17 C18";;
      wsutil/utf8.go) set="$set C07 C18 C04";;
      wsutil/handler.go|wsutil/helper.go) set="$set C08 C17 C19 C04";;
      wsutil/upgrader.go|wsutil/dialer.go) set="$set C11 C15 C20";;
      wsflate/*) set="$set C12 C13 C14 C15 C18 C19";;
      http.go|server.go|dialer.go|nonce.go|util.go|errors.go) set="$set C09 C10 C11 C15 C16 C17 C19 C20";;
      *) set="$set C01 C02 C03 C04 C05 C08 C15 C16 C19";;
    esac
  done
  set=$(echo $set | tr ' ' '\n' | sort -u | tr '\n' ' ')
  git -C "$R" apply "$V/$d/patch.diff" || { echo "BENIGN $id APPLYFAIL"; continue; }
  res=""
  for p in $set; do
    out=$(timeout 1500 tools/check $p quick 2>&1); rc=$?
    [ $rc -ne 0 ] && res="$res | ALARM $p rc=$rc $(echo "$out" | grep -E 'VIOLATION|INFRA' | head -1 | cut -c1-200)"
  done
  git -C "$R" checkout -- .
  echo "BENIGN $id [$files] checks:$set -> ${res:-all quiet}"
done
