"""Parse TLC's textual state dumps (-simulate file=..., counterexamples) into Python values.
TLA+ records -> dict, sequences -> list, sets -> list, strings/ints/booleans as such."""
import re

_tok = re.compile(r'\s*(\|->|<<|>>|\[|\]|\{|\}|,|"(?:[^"\\]|\\.)*"|-?\d+|[A-Za-z_][A-Za-z0-9_]*|:>|@@)')


def _tokens(s):
    pos = 0
    out = []
    while True:
        m = _tok.match(s, pos)
        if not m:
            if s[pos:].strip():
                raise ValueError("cannot tokenise at %r" % s[pos:pos + 40])
            return out
        out.append(m.group(1))
        pos = m.end()


def _parse(t, i):
    x = t[i]
    if x == "[":
        d = {}
        i += 1
        while t[i] != "]":
            k = t[i]
            assert t[i + 1] == "|->", t[i:i + 3]
            v, i = _parse(t, i + 2)
            d[k] = v
            if t[i] == ",":
                i += 1
        return d, i + 1
    if x in ("<<", "{"):
        end = ">>" if x == "<<" else "}"
        l = []
        i += 1
        while t[i] != end:
            v, i = _parse(t, i)
            l.append(v)
            if t[i] == ",":
                i += 1
        return l, i + 1
    if x.startswith('"'):
        return x[1:-1], i + 1
    if x == "TRUE":
        return True, i + 1
    if x == "FALSE":
        return False, i + 1
    if re.fullmatch(r"-?\d+", x):
        return int(x), i + 1
    return x, i + 1


def value(text):
    t = _tokens(text)
    v, i = _parse(t, 0)
    return v


def behaviour(path):
    """A TLC simulation file -> list of states (dict variable -> value)."""
    txt = open(path).read()
    states = []
    for block in re.split(r"STATE_\d+ ==", txt)[1:]:
        block = block.split("\n\n")[0] if False else block
        block = re.split(r"\n\\\*|\n=+", block)[0]
        st = {}
        for part in re.split(r"\n/\\ ", "\n" + block.strip())[1:]:
            name, val = part.split(" = ", 1)
            st[name.strip()] = value(val)
        states.append(st)
    return states


if __name__ == "__main__":
    import json
    import sys
    print(json.dumps(behaviour(sys.argv[1])[:3], indent=1)[:3000])
