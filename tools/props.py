"""One function per property: what is model-checked, what is driven, what judges it."""
import json
import os

import vlib
from vlib import Infra

PROPS = {}


def prop(pid):
    def deco(fn):
        PROPS[pid] = fn
        return fn
    return deco


def records_check(run, binary, driver, module, env=None, tier=None, sub=None, args=()):
    """Drive, judge records with TLC, confirm each bad record in isolation."""
    e = dict(env or {})
    if getattr(run, "only", None):
        e["VERIF_ONLY"] = run.only
    d, meta = run.drive(binary, driver, env=e, tier=tier, sub=sub, args=args)
    run.absorb(meta)
    files = meta["files"]["records"]
    n, bad = vlib.tlc_records(run, module, files)
    run.extra["records_judged_by_tlc"] = run.extra.get("records_judged_by_tlc", 0) + n
    seen = set()
    for f, idx, key in bad:
        if key in seen:
            continue
        seen.add(key)

        def recheck(key=key):
            e2 = dict(e, VERIF_ONLY=key)
            d2, m2 = run.drive(binary, driver, sub="recheck-%d" % len(seen), env=e2, tier=tier, args=args)
            n2, bad2 = vlib.tlc_records(run, module, m2["files"]["records"])
            recs = []
            for p in m2["files"]["records"]:
                recs += [json.loads(l) for l in open(p)][:5]
            return bool(bad2), dict(driver=driver, module=module, records=recs)
        run.candidate(key, "record rejected by %s" % module, recheck)
    for dv in meta.get("direct") or []:
        run.candidate(dv["key"], dv["what"], lambda dv=dv: (True, dv))
    return meta


@prop("C01")
def c01(run):
    b = run.build()
    run.assumptions += ["TLA+ FrameCodec is the oracle (RFC 6455 5.2 transcribed); TLC evaluates it on every logged record",
                        "lengths above 70000 are exercised on the header codec only (no payload of that size is materialised)"]
    records_check(run, b, "c01", "C01Records")
    return run.finish("exploration")


@prop("C02")
def c02(run):
    b = run.build()
    vlib.tlc_model(run, "MaskStream", workers=8)
    run.assumptions += ["WsBytes!Mask is RFC 6455 5.3 verbatim; MaskStream.tla proves chunked = one-shot and that the head/stride/tail index arithmetic of cipher.go equals Mask for lengths 0..44 x 10 offsets (TLC, exhaustive)",
                        "offsets within 8 of MaxInt are left out (signed overflow of offset+i; the property's offsets are stream positions)"]
    records_check(run, b, "c02", "C02Records")
    return run.finish("exploration")


@prop("C03")
def c03(run):
    b = run.build()
    run.assumptions += ["WsCheck!Broken / CloseCodeClass transcribe the rules named in the property; 1012-1014 and codes >= 5000 are open",
                        "UTF-8 validity of close reasons is decided by Utf8!WellFormed (RFC 3629 table), itself model-checked against the incremental automaton (MCUtf8)"]
    vlib.tlc_model(run, "MCUtf8", workers=8)
    records_check(run, b, "c03", "C03Records")
    return run.finish("exploration")
