"""One function per property: what is model-checked, what is driven, what judges it."""
import json
import os

import vlib
from vlib import Infra

PROPS = {}


def prop(pid):
    def deco(fn):
        PROPS[pid] = fn
        return fn
    return deco


def records_check(run, binary, driver, module, env=None, tier=None, sub=None, args=()):
    """Drive, judge records with TLC, confirm each bad record in isolation."""
    e = dict(env or {})
    if getattr(run, "only", None):
        e["VERIF_ONLY"] = run.only
    d, meta = run.drive(binary, driver, env=e, tier=tier, sub=sub, args=args)
    run.absorb(meta)
    files = meta["files"]["records"]
    n, bad = vlib.tlc_records(run, module, files)
    run.extra["records_judged_by_tlc"] = run.extra.get("records_judged_by_tlc", 0) + n
    seen = set()
    for f, idx, key in bad:
        if key in seen:
            continue
        seen.add(key)

        def recheck(key=key):
            e2 = dict(e, VERIF_ONLY=key)
            d2, m2 = run.drive(binary, driver, sub="recheck-%d" % len(seen), env=e2, tier=tier, args=args)
            n2, bad2 = vlib.tlc_records(run, module, m2["files"]["records"])
            recs = []
            for p in m2["files"]["records"]:
                recs += [json.loads(l) for l in open(p)][:5]
            return bool(bad2), dict(driver=driver, module=module, records=recs)
        run.candidate(key, "record rejected by %s" % module, recheck)
    for dv in meta.get("direct") or []:
        run.candidate(dv["key"], dv["what"], lambda dv=dv: (True, dv))
    return meta


@prop("C01")
def c01(run):
    b = run.build()
    run.assumptions += ["TLA+ FrameCodec is the oracle (RFC 6455 5.2 transcribed); TLC evaluates it on every logged record",
                        "lengths above 70000 are exercised on the header codec only (no payload of that size is materialised)"]
    records_check(run, b, "c01", "C01Records")
    return run.finish("exploration")
