"""One function per property: what is model-checked, what is driven, what judges it."""
import glob
import json
import os
import re

import vlib
from vlib import Infra, DriverPanic

PROPS = {}
VIOLATED = re.compile(r"(Invariant \w+ is violated|Temporal propert\w+ .*violated|is violated)")


def expect_counterexample(run, module, cfg, needle, workers=8, xmx="8g"):
    """Anti-vacuity: the planted-bug configuration of a model must produce a counterexample."""
    r = vlib.tlc_model(run, module, cfg=cfg, workers=workers, xmx=xmx, expect_ok=False)
    # (which of several invariants a multi-worker search reports first is not deterministic: any violation
    # of the planted-bug configuration shows that the invariants are not vacuous; the expected one is recorded)
    if r["ok"] or not VIOLATED.search(r["out"]):
        raise Infra("anti-vacuity: %s/%s should report '%s'" % (module, cfg, needle))
    run.extra.setdefault("planted_bug_counterexamples", []).append("%s/%s: %s" % (module, cfg, needle))


def growth_stage(run, b):
    """Specification growth beyond the listed properties (WsMisc.tla): judged on records from the real
    code; a mismatch is printed as SPEC-MISMATCH and recorded in the evidence, never a violation."""
    d, meta = run.drive(b, "growth", sub="growth")
    try:
        n, bad = vlib.tlc_records(run, "WsMisc", meta["files"]["records"])
    except Infra as e:
        print("SPEC-MISMATCH: growth records could not be judged: %s" % str(e)[:300])
        return
    run.extra["spec_growth_records"] = n
    run.extra["spec_growth_mismatches"] = [key for f, idx, key in bad]
    for f, idx, key in bad:
        print("SPEC-MISMATCH: WsMisc rejects %s (not one of the listed properties; see DESIGN.md 13.6)" % key)


def prop(pid):
    def deco(fn):
        PROPS[pid] = fn
        return fn
    return deco


def panic_candidate(run, binary, driver, dp, env, tier, args):
    """The library panicked while the driver ran scenario dp.key: confirmed by running that scenario alone."""
    def recheck():
        try:
            run.drive(binary, driver, sub="recheck-panic", env=dict(env, VERIF_ONLY=dp.key), tier=tier, args=args)
        except DriverPanic as again:
            return True, dict(driver=driver, scenario=dp.key, panic=again.text, stack=again.stack)
        return False, None
    run.candidate(dp.key, "the library panicked: %s" % dp.text[:200], recheck)
    run.cov["evaluations"] = max(run.cov["evaluations"], 1)
    run.cov["distinct_nontrivial"] = max(run.cov["distinct_nontrivial"], 1)
    return {}


def records_check(run, binary, driver, module, env=None, tier=None, sub=None, args=(), post=None):
    """Drive, judge records with TLC, confirm each bad record in isolation.
    post(files): optional step between driver and TLC (e.g. an independent oracle filling a field)."""
    e = dict(env or {})
    if getattr(run, "only", None):
        e["VERIF_ONLY"] = run.only
    try:
        d, meta = run.drive(binary, driver, env=e, tier=tier, sub=sub, args=args)
    except DriverPanic as dp:
        return panic_candidate(run, binary, driver, dp, e, tier, args)
    run.absorb(meta)
    files = meta["files"]["records"]
    if post:
        post(files)
    n, bad = vlib.tlc_records(run, module, files)
    run.extra["records_judged_by_tlc"] = run.extra.get("records_judged_by_tlc", 0) + n
    seen = set()
    for f, idx, key in bad:
        if key in seen:
            continue
        seen.add(key)

        def recheck(key=key):
            e2 = dict(e, VERIF_ONLY=key)
            d2, m2 = run.drive(binary, driver, sub="recheck-%d" % len(seen), env=e2, tier=tier, args=args)
            files2 = m2["files"].get("records") or []
            if post and files2:
                post(files2)
            n2, bad2 = vlib.tlc_records(run, module, files2) if files2 else (0, [])
            recs = []
            for p in files2:
                recs += [json.loads(l) for l in open(p)][:5]
            if not bad2:
                # not reproducible alone: does it need what the driver did before it (state carried
                # across calls inside the process)?  Re-run the whole driver and look for the same key.
                d3, m3 = run.drive(binary, driver, sub="resequence-%d" % len(seen), env=e, tier=tier, args=args)
                if post:
                    post(m3["files"]["records"])
                n3, bad3 = vlib.tlc_records(run, module, m3["files"]["records"])
                for f3, idx3, key3 in bad3:
                    if key3 == key:
                        rec = json.loads(open(f3).read().splitlines()[idx3 - 1])
                        return True, dict(driver=driver, module=module, records=[rec],
                                          note="rejected again in a full re-run of the driver but not when executed alone: the violation depends on state left by earlier scenarios of the same process")
                if bad3:
                    # other scenarios are rejected in the re-run: the misbehaviour is real but moves with the
                    # state of the process (pooled buffers, garbage collection)
                    f3, idx3, key3 = bad3[0]
                    rec = json.loads(open(f3).read().splitlines()[idx3 - 1])
                    return True, dict(driver=driver, module=module, records=[rec], first_seen=key,
                                      note="not reproducible alone; a full re-run of the driver rejects %d other scenario(s) (first: %s): the violation depends on process state such as pooled buffers" % (len(bad3), key3))
            return bool(bad2), dict(driver=driver, module=module, records=recs)
        run.candidate(key, "record rejected by %s" % module, recheck)
    for dv in meta.get("direct") or []:
        run.candidate(dv["key"], dv["what"], lambda dv=dv: (True, dv))
    return meta


def traces_check(run, binary, driver, module, env=None, tier=None, sub=None, args=(), cfg=None, fileskey="traces", nd=False, timeout=1800, sched=False):
    """Drive, validate traces with TLC against a trace spec, confirm each rejected trace alone."""
    e = dict(env or {})
    if getattr(run, "only", None):
        e["VERIF_ONLY"] = run.only
    try:
        d, meta = run.drive(binary, driver, env=e, tier=tier, sub=sub, args=args, timeout=timeout)
    except DriverPanic as dp:
        return panic_candidate(run, binary, driver, dp, e, tier, args)
    run.absorb(meta)
    files = meta["files"][fileskey]
    validate = vlib.tlc_traces_nd if nd else vlib.tlc_traces
    nt, ne, rej = validate(run, module, files, cfg=cfg)
    run.cov["traces_validated_against_impl"] += nt
    run.extra["trace_events_validated"] = run.extra.get("trace_events_validated", 0) + ne
    seen = set()
    for key, line, lines, why in rej:
        if key in seen:
            continue
        seen.add(key)

        def recheck(key=key, lines=lines):
            if nd or sched:
                # schedule-dependent behaviour: the recorded trace is itself behaviour of the real code.
                # It is validated again on its own (a deterministic verdict on the same evidence); the
                # scenario is also re-executed a few times to tell whether the schedule recurs.
                p1 = os.path.join(run.work, "recheck-%s-%d.ndjson" % (driver, len(seen)))
                open(p1, "w").writelines(lines)
                n1, ne1, rej1 = validate(run, module, [p1], cfg=cfg)
                again = 0
                for attempt in range(5):
                    d2, m2 = run.drive(binary, driver, sub="rerun-%s-%d-%d" % (driver, len(seen), attempt), env=dict(e, VERIF_ONLY=key), tier=tier, args=args)
                    if validate(run, module, m2["files"][fileskey], cfg=cfg)[2]:
                        again += 1
                return bool(rej1), dict(driver=driver, module=module, why=(rej1[0][3] if rej1 else ""), rejected_at_event=(rej1[0][1] if rej1 else 0),
                                        reproduced_in_reruns="%d/5" % again, trace=[json.loads(l) for l in lines][:80])
            e2 = dict(e, VERIF_ONLY=key)
            d2, m2 = run.drive(binary, driver, sub="recheck-%s-%d" % (driver, len(seen)), env=e2, tier=tier, args=args)
            n2, ne2, rej2 = validate(run, module, m2["files"][fileskey], cfg=cfg)
            tr = []
            for p in m2["files"][fileskey]:
                tr += [json.loads(l) for l in open(p)][:80]
            why2 = rej2[0][3] if rej2 else ""
            at = rej2[0][1] if rej2 else 0
            if not rej2:
                # as for records: a violation that needs the state left by earlier scenarios of the process
                d3, m3 = run.drive(binary, driver, sub="resequence-%s-%d" % (driver, len(seen)), env=e, tier=tier, args=args)
                for key3, line3, lines3, why3 in validate(run, module, m3["files"][fileskey], cfg=cfg)[2]:
                    if key3 == key:
                        return True, dict(driver=driver, module=module, rejected_at_event=line3, why=why3, trace=[json.loads(l) for l in lines3][:80],
                                          note="rejected again in a full re-run of the driver but not when executed alone: the violation depends on state left by earlier scenarios of the same process")
            return bool(rej2), dict(driver=driver, module=module, rejected_at_event=at, why=why2, trace=tr)
        run.candidate(key, "trace rejected by %s at event %d: %s" % (module, line, why), recheck)
    for dv in meta.get("direct") or []:
        run.candidate(dv["key"], dv["what"], lambda dv=dv: (True, dv))
    return meta


@prop("C01")
def c01(run):
    b = run.build()
    run.assumptions += ["TLA+ FrameCodec is the oracle (RFC 6455 5.2 transcribed); TLC evaluates it on every logged record",
                        "lengths above 70000 are exercised on the header codec only (no payload of that size is materialised)"]
    records_check(run, b, "c01", "C01Records")
    return run.finish("exploration")


@prop("C02")
def c02(run):
    b = run.build()
    vlib.tlc_model(run, "MaskStream", workers=8)
    run.assumptions += ["WsBytes!Mask is RFC 6455 5.3 verbatim; MaskStream.tla proves chunked = one-shot and that the head/stride/tail index arithmetic of cipher.go equals Mask for lengths 0..44 x 10 offsets (TLC, exhaustive)",
                        "offsets within 8 of MaxInt are left out (signed overflow of offset+i; the property's offsets are stream positions)"]
    records_check(run, b, "c02", "C02Records")
    return run.finish("exploration")


@prop("C03")
def c03(run):
    b = run.build()
    run.assumptions += ["WsCheck!Broken / CloseCodeClass transcribe the rules named in the property; 1012-1014 and codes >= 5000 are open",
                        "UTF-8 validity of close reasons is decided by Utf8!WellFormed (RFC 3629 table), itself model-checked against the incremental automaton (MCUtf8)"]
    vlib.tlc_model(run, "MCUtf8", workers=8)
    records_check(run, b, "c03", "C03Records")
    return run.finish("exploration")


WRITER_MODEL_NOTE = "WsWriterImpl (the real algorithm with scaled header thresholds) is explored exhaustively by TLC against the same monitor that judges the real traces"


def replay_writer(run, b):
    """R binding: behaviours of WsWriterImpl (real header constants) drawn by TLC -simulate are
    replayed call by call into the real Writer; event and struct are compared after every call.
    Differences are MODEL-DRIFT (exit 0); the real traces are judged by the monitor as usual."""
    import tlaparse
    simdir = os.path.join(run.work, "sim-writer")
    files = vlib.tlc_simulate(run, "WsWriterImpl", "WsWriterImpl_real", 60 if run.tier == "quick" else 600, 15, simdir)
    inp = os.path.join(run.work, "r06-in.ndjson")
    with open(inp, "w") as f:
        for i, path in enumerate(files):
            sts = tlaparse.behaviour(path)
            if len(sts) < 2:
                continue
            w0, d0 = sts[0]["w"], sts[0]["d"]
            steps = []
            for st in sts[1:]:
                ev = dict(st["lastEv"])
                ev["w"] = {k.capitalize() if k in ("raw", "buf", "n", "fseq", "dirty", "err", "noflush", "comp", "side", "op") else k: v for k, v in st["w"].items()}
                steps.append(ev)
            f.write(json.dumps(dict(key="sim/%d/%d" % (run.seed, i), side=w0["side"], op=w0["op"], raw=w0["raw"], failAt=d0["failAt"], steps=steps)) + "\n")
    e = {"R06_IN": inp}
    if getattr(run, "only", None):
        e["VERIF_ONLY"] = run.only
    d, meta = run.drive(b, "r06", env=e)
    run.extra.update(meta.get("extra") or {})
    nt, ne, rej = vlib.tlc_traces(run, "TraceWsWriter", meta["files"]["traces"])
    run.cov["traces_validated_against_impl"] += nt
    for key, line, lines, why in rej:
        run.candidate(key, "replayed model behaviour: real trace rejected by TraceWsWriter at event %d: %s" % (line, why),
                      lambda lines=lines: (True, dict(trace=[json.loads(l) for l in lines][:60])))
    for p in meta["files"]["records"] or []:
        for l in open(p):
            r = json.loads(l)
            if r["firstDiff"] >= 0:
                run.drift.append("%s step %d: %s" % (r["key"], r["firstDiff"], r["what"]))


@prop("C06")
def c06(run):
    b = run.build()
    vlib.tlc_model(run, "WsWriterImpl", workers=12, xmx="12g")
    expect_counterexample(run, "WsWriterImpl", "WsWriterImpl_bug_readfrom", "Invariant Refines is violated")
    replay_writer(run, b)
    run.assumptions += [WRITER_MODEL_NOTE,
                        "fragment boundaries, an empty final frame after only empty writes, and ReadFrom on an exactly full buffer are left open (DESIGN 6.2)",
                        "payloads are position-coded; a frame's payload is matched against the interval of caller bytes by the harness' own codec"]
    traces_check(run, b, "c06", "TraceWsWriter")
    return run.finish("model_checking")


@prop("C16")
def c16(run):
    b = run.build()
    vlib.tlc_model(run, "WsWriterImpl", workers=12, xmx="12g")
    run.assumptions += [WRITER_MODEL_NOTE + " (destination failing at write 1..2; invariant AfterFailNoWrites)",
                        "ReadFrom's return value after a destination failure is open; it must send nothing"]
    traces_check(run, b, "c16w", "TraceWsWriter")
    run.assumptions += [READER_NOTE, READER_MODEL_NOTE]
    vlib.tlc_model(run, "WsReaderImpl", cfg="WsReaderImpl_cut", workers=12, xmx="12g")
    expect_counterexample(run, "WsReaderImpl", "WsReaderImpl_bug_cut", "Invariant Refines is violated", workers=12, xmx="12g")
    traces_check(run, b, "c16r", "TraceWsReader")
    run.assumptions += ["frame-level API and handshakes: io.EOF for a frame of which no payload byte arrived counts as an error report; success is demanded exactly when the whole unit arrived"]
    records_check(run, b, "c16f", "C16Records")
    return run.finish("fault_enumeration")


@prop("C18")
def c18(run):
    b = run.build()
    vlib.tlc_model(run, "WsWriterImpl", workers=12, xmx="12g")
    expect_counterexample(run, "WsWriterImpl", "WsWriterImpl_bug_reset", "Invariant ResetIsFresh is violated")
    run.assumptions += [WRITER_MODEL_NOTE + " (invariant ResetIsFresh: after Reset the struct equals a new one)",
                        "the fresh twin is built with NewWriterSize(Size()); when that constructor cannot give the same Size() the lock-step comparison is skipped and only the monitor judges the suffix"]
    traces_check(run, b, "c18w", "TraceWsWriter")
    run.assumptions += [READER_NOTE, "reader reuse: the monitor is memoryless across messages, so a reader that reads the next message differently from a new one is rejected"]
    traces_check(run, b, "c18r", "TraceWsReader")
    # the other resettable objects: compression writer/reader, mask reader/writer, UTF-8 reader, negotiator
    vlib.tlc_model(run, "FlateStream", workers=8)
    expect_counterexample(run, "FlateStream", "FlateStream_bug_reset", "Invariant Refines is violated", workers=4)
    run.assumptions += ["compression writer/reader, Cipher*, UTF8Reader, wsflate.Extension: lock-step comparison of every observation of a suffix with a newly constructed instance, after 3-7 histories each (C18Records); the held-tail logic of wsflate.Writer.Reset is model-checked (FlateStream: Reset, ResetIsFresh, planted BugResetKeepsTail)"]
    records_check(run, b, "c18x", "C18Records")
    return run.finish("model_checking")


@prop("C08")
def c08(run):
    b = run.build()
    vlib.tlc_model(run, "CtlWriterImpl", workers=4)
    expect_counterexample(run, "CtlWriterImpl", "CtlWriterImpl_bug", "Invariant CtlRefines is violated", workers=4)
    run.assumptions += ["control writer: limit 125 for must-fail; must-succeed only while the cumulative total stays within the documented capacity"]
    traces_check(run, b, "c08w", "TraceWsWriter")
    run.assumptions += ["replies are decoded and unmasked by the harness' own codec; WsControl!ControlReply is the oracle, using WsCheck!Broken with the peer's state for 'the peer's own header check accepts it'",
                        "close codes 1012-1014 and >= 5000 are open: echo or refusal both accepted"]
    records_check(run, b, "c08h", "C08Records")
    run.assumptions += [READER_NOTE + " (control path of ReadData: the replies found on the destination are judged by WsControl!ControlReply inside the reader monitor)"]
    traces_check(run, b, "c08r", "TraceWsReader")
    return run.finish("model_checking")


READER_NOTE = "WsReaderMon is a deterministic monitor over public-call events; `pulled` (bytes the reader took from the harness-owned transport) determines which frame headers were consumed; frame offsets come from the harness' own codec"


READER_MODEL_NOTE = "WsReaderImpl (the real NextFrame/Read/Discard algorithm over an abstract frame stream with 1-byte headers) is explored exhaustively by TLC for all streams of <= 3 frames over the alphabet, against the same monitor that judges the real traces"


def replay_reader(run, b):
    """R binding for the reader: behaviours of WsReaderImpl drawn by TLC -simulate replayed into the real Reader."""
    import tlaparse
    simdir = os.path.join(run.work, "sim-reader")
    files = vlib.tlc_simulate(run, "WsReaderImpl", "WsReaderImpl_sim", 150 if run.tier == "quick" else 2000, 40, simdir)
    inp = os.path.join(run.work, "r04-in.ndjson")
    with open(inp, "w") as f:
        for i, path in enumerate(files):
            sts = [s for s in tlaparse.behaviour(path) if s["phase"] == "run"]
            if len(sts) < 2:
                continue
            sc = sts[-1]["sc"]
            steps = []
            for st in sts[1:]:
                ev = dict(st["lastEv"])
                ev["st"] = dict(frame=st["frame"], rawN=st["rawN"], frag=st["frag"], opCode=st["opCode"])
                steps.append(ev)
            f.write(json.dumps(dict(key="simr/%d/%d" % (run.seed, i), side=sc["side"], ext=sc["ext"], utf8=sc["utf8"], max=sc["max"], cut=sc["cut"],
                                    frames=[dict(op=x["op"], fin=x["fin"], rsv=x["rsv"], masked=x["masked"], pay=x["pay"], hs=x["hs"], ps=x["ps"], pe=x["pe"]) for x in sc["frames"]],
                                    steps=steps)) + "\n")
    e = {"R04_IN": inp}
    if getattr(run, "only", None):
        e["VERIF_ONLY"] = run.only
    d, meta = run.drive(b, "r04", env=e)
    run.extra.update(meta.get("extra") or {})
    nt, ne, rej = vlib.tlc_traces(run, "TraceWsReader", meta["files"]["traces"])
    run.cov["traces_validated_against_impl"] += nt
    for key, line, lines, why in rej:
        run.candidate(key, "replayed model behaviour: real trace rejected by TraceWsReader at event %d: %s" % (line, why),
                      lambda lines=lines: (True, dict(trace=[json.loads(l) for l in lines][:60])))
    for p in meta["files"]["records"] or []:
        for l in open(p):
            r = json.loads(l)
            if r["firstDiff"] >= 0:
                run.drift.append("%s step %d: %s" % (r["key"], r["firstDiff"], r["what"]))


@prop("C04")
def c04(run):
    b = run.build()
    run.assumptions += [READER_NOTE, "how many bytes one Read returns is left open; NextReader drops intermediate control frames as documented",
                        READER_MODEL_NOTE]
    vlib.tlc_model(run, "WsReaderImpl", workers=12, xmx="12g")
    replay_reader(run, b)
    traces_check(run, b, "c04", "TraceWsReader")
    return run.finish("model_checking")


@prop("C05")
def c05(run):
    b = run.build()
    run.assumptions += [READER_NOTE, "which of several broken rules is reported is left open; the oracle for 'first offending frame' is WsCheck!Broken folded over the fragmentation state (WsReaderMon!FirstOffending)"]
    run.assumptions += [READER_MODEL_NOTE]
    vlib.tlc_model(run, "WsReaderImpl", cfg="WsReaderImpl_bad", workers=12, xmx="12g")
    traces_check(run, b, "c05", "TraceWsReader")
    return run.finish("model_checking")


@prop("C07")
def c07(run):
    b = run.build()
    vlib.tlc_model(run, "MCUtf8", workers=8)
    run.assumptions += [READER_NOTE, "UTF-8 validity is decided by Utf8!WellFormed (RFC 3629 table), proved equal to the streaming automaton on all strings over 24 boundary bytes up to length 4 (MCUtf8)"]
    records_check(run, b, "c07u", "C07Records")
    traces_check(run, b, "c07", "TraceWsReader")
    return run.finish("model_checking")


@prop("C13")
def c13(run):
    b = run.build()
    run.assumptions += [READER_NOTE, READER_MODEL_NOTE]
    vlib.tlc_model(run, "WsReaderImpl", cfg="WsReaderImpl_bad", workers=12, xmx="12g")
    traces_check(run, b, "c13r", "TraceWsReader")
    vlib.tlc_model(run, "WsWriterImpl", workers=12, xmx="12g")
    traces_check(run, b, "c13w", "TraceWsWriter")
    records_check(run, b, "c13b", "C13Records")
    return run.finish("model_checking")


@prop("C20")
def c20(run):
    b = run.build()
    vlib.tlc_model(run, "MCDial", workers=8)
    r = vlib.tlc_model(run, "MCDial", cfg="MCDial_prerepair", workers=8, expect_ok=False)
    if r["ok"] or not VIOLATED.search(r["out"]):
        raise Infra("anti-vacuity: the pre-repair Dial model (watcher observes ctx) should violate Live")
    run.extra["prerepair_model_violates_Live"] = True
    run.assumptions += ["the net.Conn honours deadlines; NetDial honours its context (harness stubs)",
                        "schedules are forced through a gated net.Conn (every Read/Write/SetDeadline/Close/NetDial/cancel is a logged, sequenced event); the watcher's select, the channels and the timers are silent actions of TraceDial",
                        "liveness on the real code = Dial returns within 3 s for 30 ms timers (the only wall-clock verdict)",
                        "which error is returned when the context ended and the handshake failed for an unrelated reason is left open"]
    traces_check(run, b, "c20", "TraceDial", nd=True)
    return run.finish("model_checking")


@prop("C14")
def c14(run):
    b = run.build()
    vlib.tlc_model(run, "MCPmce", workers=8)
    vlib.tlc_model(run, "MCPmce", cfg="MCPmce_lists", workers=8)
    r = vlib.tlc_model(run, "MCPmce", cfg="MCPmce_prerepair", workers=8, expect_ok=False)
    if r["ok"] or not VIOLATED.search(r["out"]):
        raise Infra("anti-vacuity: the pre-repair negotiation model should violate Legal")
    run.assumptions += ["Pmce!LegalAnswer transcribes RFC 7692 7.1 as quoted in the property; declining an offer is always legal",
                        "parameter values are mapped to naturals by the harness ('' -> 0, canonical decimals -> n, anything else -> 77 = ill-valued)"]
    records_check(run, b, "c14", "C14Records")
    return run.finish("model_checking")


@prop("C12")
def c12(run):
    import subprocess
    b = run.build()
    vlib.tlc_model(run, "FlateStream", workers=8)
    ind = os.path.join(run.work, "c12in")
    oracle = os.path.join(vlib.VERIF, "tools", "flate_oracle.py")
    p = subprocess.run(["python3", oracle, "gen", ind, run.tier, str(run.seed)], capture_output=True, text=True)
    if p.returncode != 0:
        raise Infra("flate oracle gen failed: " + p.stdout + p.stderr)

    def post(files):
        q = subprocess.run(["python3", oracle, "judge"] + list(files), capture_output=True, text=True)
        if q.returncode != 0:
            raise Infra("flate oracle judge failed: " + q.stdout + q.stderr)

    run.assumptions += ["DEFLATE bit-level fidelity is decided by an independent implementation (Python zlib: raw inflate of wire + 00 00 ff ff; raw deflate with Z_SYNC_FLUSH as input for the reader), not by TLA+; the specification decides the history and the tail protocol around it (FlateStream.tla, model-checked)",
                        "the compressor/decompressor are uninterpreted in the specification; scripted fakes exercise cbuf and the suffixed reader exactly"]
    records_check(run, b, "c12", "C12Records", env={"C12_IN": ind}, post=post)
    return run.finish("model_checking")


@prop("C09")
def c09(run):
    b = run.build()
    growth_stage(run, b)
    run.assumptions += ["Handshake!ServerVerdict / AllowedStatus transcribe the property; the request is generated from token classes, so the classes are ground truth (no classification parse)",
                        "open: a 24-character key that is not base64, an empty Host value, duplicated headers with different values, HTTP/2.0 through HTTPUpgrader",
                        "Sec-WebSocket-Accept is recomputed by the harness with crypto/sha1 + base64 (DESIGN 10)"]
    records_check(run, b, "c09", "C09Records")
    return run.finish("exploration")


@prop("C10")
def c10(run):
    b = run.build()
    run.assumptions += ["Handshake!ClientVerdict transcribes the property: only the literal status token 101 counts; status tokens with leading zeros are not generated (open)",
                        "expected request-URI / Host / dial address per URL form are written by hand in the driver table (ground truth), the request is parsed by the harness' own HTTP head parser",
                        "Sec-WebSocket-Accept is computed by the harness with crypto/sha1 + base64"]
    records_check(run, b, "c10", "C10Records")
    return run.finish("exploration")


@prop("C11")
def c11(run):
    b = run.build()
    vlib.tlc_model(run, "ReadLine", workers=1)
    run.assumptions += ["ReadLine.tla: TLC evaluates readLine-over-ReadSlice against the expected line for all 3280 streams over {x, CR, LF} up to length 7 and buffer sizes 2..4 (a constant-level check: no state graph)",
                        "agreement is checked for library-owned selectors/negotiators; the client's random key is masked before request bytes are compared"]
    records_check(run, b, "c11", "C11Records")
    return run.finish("exploration")


@prop("C17")
def c17(run):
    b = run.build()
    vlib.tlc_model(run, "Pools", workers=8)
    vlib.tlc_model(run, "Pools", cfg="Pools_3", workers=8)
    r = vlib.tlc_model(run, "Pools", cfg="Pools_alias", workers=4, expect_ok=False)
    if r["ok"] or not VIOLATED.search(r["out"]):
        raise Infra("anti-vacuity: the aliasing Pools model should violate ResultsStable")
    run.assumptions += ["single P (GOMAXPROCS=1) and GC disabled during the driver so that sync.Pool hands back the objects that were put",
                        "results are compared through digests taken by re-reading the very objects that were returned (strings, []byte, httphead.Option)"]
    traces_check(run, b, "c17", "TracePools")
    return run.finish("model_checking")


@prop("C19")
def c19(run):
    import glob
    b = run.build()
    vlib.tlc_model(run, "Pools", workers=8)
    vlib.tlc_model(run, "Pools", cfg="Pools_3", workers=8)
    r = vlib.tlc_model(run, "Pools", cfg="Pools_earlyput", workers=4, expect_ok=False)
    if r["ok"] or not VIOLATED.search(r["out"]):
        raise Infra("anti-vacuity: the early-Put Pools model should violate NonInterference")
    run.assumptions += ["the Go scheduler is not controllable: schedule coverage is stress sampling (N x GOMAXPROCS x seeded jitter), not enumeration",
                        "'no data race' is the Go race detector's verdict on the same driver built with -race",
                        "non-interference = each concurrent session's ordered observations equal those of the same session run alone (random mask keys and nonces are not part of the observations)"]
    # schedule-dependent: a rejected session record is itself behaviour of the real code; it is judged
    # again on its own and the whole driver is re-run a few times to see whether interference recurs
    d0, meta0 = run.drive(b, "c19")
    run.absorb(meta0)
    n0, bad0 = vlib.tlc_records(run, "C19Records", meta0["files"]["records"])
    run.extra["records_judged_by_tlc"] = n0
    for f, idx, key in bad0[:3]:
        def recheck(f=f, idx=idx, key=key):
            line = open(f).read().splitlines()[idx - 1]
            p1 = os.path.join(run.work, "c19-recheck-%d.ndjson" % idx)
            open(p1, "w").write(line + "\n")
            n1, bad1 = vlib.tlc_records(run, "C19Records", [p1])
            again = 0
            for attempt in range(3):
                d2, m2 = run.drive(b, "c19", sub="c19-rerun-%d-%d" % (idx, attempt))
                if vlib.tlc_records(run, "C19Records", m2["files"]["records"])[1]:
                    again += 1
            return bool(bad1), dict(record=json.loads(line), interference_in_reruns="%d/3" % again)
        run.candidate(key, "a concurrently run session observed something else than the same session alone", recheck)
    if any(k.startswith("solo/") for k, _, _ in run.violations):
        # not even a single connection on its own gets through: the remaining stages would only wait for
        # the watchdogs of broken sessions
        return run.finish("model_checking")
    # the same driver under the race detector; then cold starts: processes whose very first sessions
    # run concurrently (lazily initialised package state), plain and under the race detector
    rb = run.build(race=True, name="wsverif-race")
    logp = os.path.join(run.work, "race")
    reports = []
    sessions = 0

    def race_run(sub, env):
        nonlocal sessions
        d, meta = run.drive(rb, "c19", sub=sub, env=dict(env, GORACE="exitcode=0 log_path=%s" % logp))
        sessions += meta.get("evaluations", 0)
        n, bad = vlib.tlc_records(run, "C19Records", meta["files"]["records"])
        run.extra["records_judged_by_tlc"] += n
        for f, idx, key in bad[:3]:
            line = open(f).read().splitlines()[idx - 1]
            run.candidate("race-build/%s/%s" % (sub, key), "session under -race differs from its solo run", lambda line=line: (True, dict(note="record rejected in the -race build", record=json.loads(line))))
    race_run("c19race", {})
    colds = 3 if run.tier == "quick" else 25
    # the connection as a system: WsConn (client, echo server, two channels) model-checked, its planted
    # defects found, and the frame events of real concurrent connections replayed into it
    vlib.tlc_model(run, "WsConn", workers=8)
    expect_counterexample(run, "WsConn", "WsConn_bug_closecode", "is violated", workers=1)
    expect_counterexample(run, "WsConn", "WsConn_bug_droppong", "is violated", workers=1)
    run.assumptions += ["WsConn: the connection-level model (most general client, echo server built from Reader + ControlFrameHandler + pooled Writer, FIFO channels); real connections are linearised by the single lock of the harness' duplex, one event per frame and side, and every concurrent connection must be a behaviour of the model (EchoCorrect, PongCorrect, CloseCorrect, NothingAfterClose, Complete evaluated after every step)"]
    traces_check(run, b, "conn", "TraceWsConn", sched=True)
    traces_check(run, rb, "conn", "TraceWsConn", sub="conn-race", sched=True, env={"GORACE": "exitcode=0 log_path=%s" % logp})
    for i in range(colds):
        race_run("c19cold-race-%d" % i, {"C19_COLD": "1"})
        d, meta = run.drive(b, "c19", sub="c19cold-%d" % i, env={"C19_COLD": "1"})
        run.absorb(meta)
        n, bad = vlib.tlc_records(run, "C19Records", meta["files"]["records"])
        run.extra["records_judged_by_tlc"] += n
        for f, idx, key in bad[:3]:
            line = open(f).read().splitlines()[idx - 1]
            # a cold start cannot be re-executed inside the same process: the rejected record is the evidence
            run.candidate("coldstart/%d/%s" % (i, key), "a session among the first concurrent sessions of a process observed something else than the same session alone",
                          lambda line=line: (True, dict(record=json.loads(line))))
    run.extra["cold_start_processes"] = 2 * colds
    for f in glob.glob(logp + "*"):
        txt = open(f).read()
        if "DATA RACE" in txt:
            reports.append(txt[:6000])
    run.extra["race_detector_sessions"] = sessions
    run.extra["race_reports"] = len(reports)
    for i, rep in enumerate(reports[:3]):
        run.candidate("race/%d" % i, "data race reported by the Go race detector", lambda rep=rep: (True, dict(report=rep)))
    return run.finish("model_checking")


@prop("C15")
def c15(run):
    import random
    import re as _re
    b = run.build()
    # mutation scripts drawn from the specification (TLC -simulate on Mutate.tla)
    md = os.path.join(run.work, "md-mutate")
    num = 40 if run.tier == "quick" else 400
    rc, out = vlib.java(["-metadir", md, "-workers", "1", "-nowarning", "-simulate", "num=%d" % num, "-depth", "4",
                         "-seed", str(run.seed), "-config", "Mutate.cfg", "Mutate.tla"], vlib.SPEC, timeout=600)
    scripts = _re.findall(r'"VERIF-MUT",\s*"((?:[^"\\]|\\.)*)"', out)
    if len(scripts) < 10:
        raise Infra("TLC -simulate produced no mutation scripts:\n" + vlib.clean(out)[-2000:])
    rnd = random.Random(run.seed)
    rnd.shuffle(scripts)
    keep = scripts[:400 if run.tier == "quick" else 6000]
    mutf = os.path.join(run.work, "mutations.ndjson")
    with open(mutf, "w") as f:
        for s in keep:
            f.write(s.replace('\\"', '"') + "\n")
    run.extra["tlc_mutation_scripts"] = len(keep)
    run.cov["states"] += len(scripts)
    run.cov["transitions"] += len(scripts)
    run.assumptions += ["model-guided (TLC -simulate over Mutate.tla) and seeded mutation of valid seeds: exploration, not a proof of totality",
                        "panic / no-progress loop / allocation / payload-pulled monitors are Go-side (DESIGN 10); TLC judges the logged outcome records",
                        "a crash of the driver process (fatal out-of-memory under ulimit -v, or the 20 s watchdog) is attributed to the input it was processing and confirmed by re-running that input alone"]
    try:
        records_check(run, b, "c15", "C15Records", env={"C15_MUT": mutf, "VERIF_ULIMIT_KB": str(8 * 1024 * 1024)})
    except Infra as e:
        # did the driver die while processing an input?
        cur = os.path.join(run.work, "c15", "current_input")
        if not os.path.exists(cur):
            raise
        key = open(cur, "rb").read().split(b"\x00")[0].decode(errors="replace").strip()
        if not key:
            raise

        def recheck():
            try:
                run.drive(b, "c15", sub="recheck-crash", env={"C15_MUT": mutf, "VERIF_ONLY": key, "VERIF_ULIMIT_KB": str(8 * 1024 * 1024)})
            except Infra as e2:
                return True, dict(key=key, crash=str(e2)[-1500:])
            return False, None
        run.candidate(key, "the process died (fatal error / hang) while decoding this input", recheck)
        run.cov["evaluations"] = max(run.cov["evaluations"], 1)
        run.cov["distinct_nontrivial"] = max(run.cov["distinct_nontrivial"], 2)
    if run.tier == "thorough":
        native_fuzz(run, b, mutf)
    return run.finish("exploration")


def native_fuzz(run, b, mutf):
    """Thorough tier of C15: Go's coverage-guided fuzzer on the entry points of every input kind.  A crasher
    is handed to the c15 driver (C15_INPUT) and judged by C15Records like every other input."""
    import subprocess
    import ast
    fz = os.path.join(run.work, "fuzz")
    os.makedirs(fz, exist_ok=True)
    testbin = os.path.join(fz, "wsverif.test")
    env = dict(os.environ, **vlib.GOENV)
    tag = "verif_nohooks" if run.extra.get("hooks_off") else "verif"
    p = subprocess.run(["go", "test", "-tags", tag, "-c", "-o", testbin, "./cmd/wsverif"], cwd=vlib.HARNESS, env=env, capture_output=True, text=True)
    if p.returncode != 0:
        raise Infra("fuzz test binary build failed:\n" + p.stdout + p.stderr)
    secs = int(os.environ.get("VERIF_FUZZ_SECONDS", "40"))
    execs = {}
    for kind, target in [("frames", "FuzzFrames"), ("request", "FuzzRequest"), ("response", "FuzzResponse"), ("options", "FuzzOptions"), ("deflate", "FuzzDeflate")]:
        try:
            q = subprocess.run(["bash", "-c", "ulimit -v %d; exec %s -test.run '^$' -test.fuzz '^%s$' -test.fuzztime %ds -test.fuzzcachedir %s/cache" % (
                16 * 1024 * 1024, testbin, target, secs, fz)], cwd=fz, env=env, capture_output=True, text=True, timeout=secs * 6 + 120)
        except subprocess.TimeoutExpired:
            raise Infra("native fuzzing of %s timed out" % target)
        m = re.findall(r"execs: (\d+)", q.stdout)
        execs[target] = int(m[-1]) if m else 0
        if q.returncode == 0:
            continue
        crashers = sorted(glob.glob(os.path.join(fz, "testdata", "fuzz", target, "*")))
        if not crashers:
            raise Infra("native fuzzing of %s failed without a crasher:\n%s" % (target, (q.stdout + q.stderr)[-2000:]))
        for cf in crashers[:3]:
            lines = open(cf).read().splitlines()
            raw = b""
            for ln in lines[1:]:
                mm = re.match(r'^\[\]byte\((.*)\)$', ln.strip())
                if mm:
                    raw = ast.literal_eval("b" + mm.group(1)) if mm.group(1).startswith('"') else b""
            inp = cf + ".bin"
            open(inp, "wb").write(raw)

            def recheck(inp=inp, kind=kind):
                try:
                    d2, m2 = run.drive(b, "c15", sub="fuzz-recheck-" + os.path.basename(inp)[:12], env={"C15_MUT": mutf, "C15_INPUT": inp, "C15_KIND": kind, "VERIF_ULIMIT_KB": str(8 * 1024 * 1024)})
                except Infra as e2:
                    return True, dict(input=list(open(inp, "rb").read()[:400]), crash=str(e2)[-1500:])
                n2, bad2 = vlib.tlc_records(run, "C15Records", m2["files"]["records"])
                recs = []
                for pth in m2["files"]["records"]:
                    recs += [json.loads(l) for l in open(pth)][:12]
                return bool(bad2), dict(input=list(open(inp, "rb").read()[:400]), records=recs)
            run.candidate("fuzz/%s/%s" % (kind, os.path.basename(cf)), "input found by the native fuzzer makes an entry point panic or hang", recheck)
    run.extra["native_fuzz_execs"] = execs
    run.extra["native_fuzz_seconds_per_target"] = secs
    run.cov["evaluations"] += sum(execs.values())
