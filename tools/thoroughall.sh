#!/bin/bash
# tools/thoroughall.sh [seed...] - every check's thorough tier on the unchanged tree, for the given
# VERIF_SEED values (default 1).  Under `vp run --with-repo` it works on the snapshot of /repo.
set -u
V=$(cd "$(dirname "$0")/.." && pwd); cd "$V"
R=${VP_RUN_REPO:-/repo}
if [ "$R" != /repo ]; then sed -i "s#=> /repo#=> $R#" harness/go.mod; export VERIF_REPO=$R; fi
for seed in ${*:-1}; do
  for i in $(seq -w 1 20); do
    s=$(date +%s)
    out=$(VERIF_SEED=$seed timeout 7200 tools/check C$i thorough 2>&1); rc=$?
    echo "THOROUGH seed=$seed C$i rc=$rc $(( $(date +%s)-s ))s $(echo "$out" | grep -E 'VIOLATION|INFRA' | head -2 | cut -c1-240)"
  done
done
