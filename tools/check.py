import json
import os
import sys
import traceback

sys.path.insert(0, os.path.dirname(os.path.abspath(__file__)))
import vlib
import props


def main():
    if len(sys.argv) < 3:
        print("usage: check <ID> quick|thorough | check <ID> --replay <path>")
        return 2
    pid = sys.argv[1].upper()
    seed = int(os.environ.get("VERIF_SEED", "1") or "1")
    only = None
    if sys.argv[2] == "--replay":
        art = json.load(open(sys.argv[3]))
        tier, seed, only = art.get("tier", "quick"), art.get("seed", seed), art["key"]
    else:
        tier = sys.argv[2]
        if os.environ.get("VERIF_TIER") in ("quick", "thorough") and len(sys.argv) == 2:
            tier = os.environ["VERIF_TIER"]
    if tier not in ("quick", "thorough"):
        print("tier must be quick or thorough")
        return 2
    fn = props.PROPS.get(pid)
    if fn is None:
        print("unknown property", pid)
        return 2
    run = vlib.Run(pid, tier, seed)
    run.only = only
    try:
        return fn(run)
    except vlib.Infra as e:
        print("INFRA property=%s: %s" % (pid, e))
        return 2
    except Exception:
        traceback.print_exc()
        return 2
    finally:
        if not os.environ.get("VERIF_KEEP"):
            run.cleanup()


if __name__ == "__main__":
    sys.exit(main())
