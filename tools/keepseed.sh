#!/bin/bash
# tools/keepseed.sh <seed-dir> <name> "<checks run and result>"  - store a confirmed seed under /verif/seeded/<name>
src="$1"; name="$2"; ran="$3"
d=/verif/seeded/$name; mkdir -p "$d"
cp "$src/patch.diff" "$src/demo_test.go" "$d/"
python3 - "$src/meta.json" "$d/meta.json" "$ran" <<'PY'
import json,sys
m=json.load(open(sys.argv[1]))
out=dict(property=m.get("property"), breaks=m.get("summary"), needs=m.get("needs"), files=m.get("files"),
         demo_dest=m.get("demo_dest"), demo_cmd=m.get("demo_cmd"), ran=sys.argv[3])
json.dump(out, open(sys.argv[2],"w"), indent=1)
PY
echo kept $d
