#!/bin/bash
# tools/regress.sh [pattern]  - seed regression, meant for `vp run --with-repo -- tools/regress.sh`:
# every kept seed (seeded/<pattern>*) is applied to the snapshot of /repo ($VP_RUN_REPO), its
# property's quick check is run (expected: exit 1), and the patch is undone.  Never touches /repo.
set -u
[ -n "${VP_RUN_REPO:-}" ] || { echo "VP_RUN_REPO is not set: run under vp run --with-repo"; exit 2; }
V=$PWD
sed -i "s#=> /repo#=> $VP_RUN_REPO#" harness/go.mod
for d in seeded/${1:-}*/; do
  n=$(basename "$d"); prop=$(python3 -c "import json;print(json.load(open('$d/meta.json'))['property'])")
  git -C "$VP_RUN_REPO" apply "$V/$d/patch.diff" || { echo "SEED $n $prop rc=APPLYFAIL"; continue; }
  out=$(timeout 1500 tools/check "$prop" quick 2>&1); rc=$?
  echo "SEED $n $prop rc=$rc $(echo "$out" | grep -E 'VIOLATION|INFRA' | head -1 | cut -c1-160)"
  git -C "$VP_RUN_REPO" checkout -- .
done
