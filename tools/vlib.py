"""Shared machinery for /verif/tools/check: building the harness against
/repo's working tree, running drivers, running TLC (exhaustive models, record
judging, trace validation), confirming candidates, known findings, evidence."""
import glob
import hashlib
import json
import os
import re
import shutil
import subprocess
import sys
import time
from concurrent.futures import ThreadPoolExecutor

VERIF = os.path.dirname(os.path.dirname(os.path.abspath(__file__)))
SPEC = os.path.join(VERIF, "spec")
HARNESS = os.path.join(VERIF, "harness")
EVID = os.path.join(VERIF, "evidence")
REPLAYS = os.path.join(EVID, "replays")
REPO = os.environ.get("VERIF_REPO", "/repo")
JAR = "/opt/veriftools/tla/tla2tools.jar:/opt/veriftools/tla/CommunityModules-deps.jar"

GOENV = dict(GOFLAGS="-mod=mod", GOPROXY="off", GOSUMDB="off", GOTOOLCHAIN="local",
             CGO_ENABLED="1")


class Infra(Exception):
    """Infrastructure trouble: exit 2, never a violation."""


class DriverPanic(Infra):
    """The driver's main goroutine panicked inside the code under test while running scenario `key`."""
    def __init__(self, key, text, stack):
        Infra.__init__(self, "driver panicked in scenario %s: %s" % (key, text))
        self.key, self.text, self.stack = key, text, stack


def log(*a):
    print(*a, flush=True)


class Run:
    """State of one `check <ID> <tier>` invocation."""

    def __init__(self, pid, tier, seed):
        self.pid, self.tier, self.seed = pid, tier, seed
        self.t0 = time.time()
        self.work = os.path.join(VERIF, ".work", "%s-%s-%d" % (pid, tier, os.getpid()))
        shutil.rmtree(self.work, ignore_errors=True)
        os.makedirs(self.work)
        self.violations = []      # (key, what, replay_path)
        self.known = []           # (entry, key)
        self.drift = []
        self.cov = dict(evaluations=0, distinct_nontrivial=0, samples=[], states=0,
                        transitions=0, traces_validated_against_impl=0)
        self.rules = []
        self.assumptions = []
        self.extra = {}
        self.findings = load_known()

    def cleanup(self):
        shutil.rmtree(self.work, ignore_errors=True)
        try:
            os.rmdir(os.path.join(VERIF, ".work"))
        except OSError:
            pass

    # ------------------------------------------------------------ harness
    def build(self, tags="verif", race=False, name="wsverif"):
        out = os.path.join(self.work, name)
        env = dict(os.environ, **GOENV)
        # the replace directive must point at the tree under test
        gomod = os.path.join(HARNESS, "go.mod")
        cmd = ["go", "build", "-tags", tags, "-o", out]
        if race:
            cmd.append("-race")
        cmd.append("./cmd/wsverif")
        t = time.time()
        p = subprocess.run(cmd, cwd=HARNESS, env=env, capture_output=True, text=True)
        if p.returncode != 0 and "verif_export.go" in (p.stdout + p.stderr) and tags == "verif":
            # the guarded hook file does not compile against this tree (an internal field it projects
            # was renamed or removed): build without it; struct-level comparisons are then skipped
            # and every verdict rests on behaviour observed through the exported API
            log("HOOKS-OFF: wsutil/verif_export.go does not compile against the tree under test; "
                "checking without struct-level projections")
            self.extra["hooks_off"] = True
            cmd[cmd.index("-tags") + 1] = "verif_nohooks"
            p = subprocess.run(cmd, cwd=HARNESS, env=env, capture_output=True, text=True)
        if p.returncode != 0:
            raise Infra("harness build failed:\n" + p.stdout + p.stderr)
        self.extra.setdefault("build_s", round(time.time() - t, 1))
        return out

    def drive(self, binary, driver, sub=None, env=None, timeout=1800, tier=None, args=()):
        """Run a driver in a child process under ulimit -v; returns (dir, meta)."""
        d = os.path.join(self.work, sub or driver)
        os.makedirs(d, exist_ok=True)
        e = dict(os.environ, **GOENV)
        e["VERIF_SEED"] = str(self.seed)
        if env:
            e.update(env)
        cmd = "ulimit -v %d; exec %s %s -out %s -tier %s -seed %d %s" % (
            int(e.get("VERIF_ULIMIT_KB", 12 * 1024 * 1024)), binary, driver, d,
            tier or self.tier, self.seed, " ".join(args))
        try:
            p = subprocess.run(["bash", "-c", cmd], env=e, capture_output=True, text=True,
                               timeout=timeout)
        except subprocess.TimeoutExpired:
            raise Infra("driver %s timed out after %ds" % (driver, timeout))
        mp = os.path.join(d, "meta.json")
        pj = os.path.join(d, "panic.json")
        if p.returncode == 3 and os.path.exists(pj):
            pr = json.load(open(pj))
            os.remove(pj)
            # only a panic that passed through the library is attributed to it
            if pr.get("key") and "github.com/gobwas/ws" in pr.get("stack", ""):
                raise DriverPanic(pr["key"], pr["panic"], pr["stack"][-3000:])
        if p.returncode != 0 or not os.path.exists(mp):
            raise Infra("driver %s died (exit %d):\n%s\n%s" % (
                driver, p.returncode, p.stdout[-3000:], p.stderr[-3000:]))
        meta = json.load(open(mp))
        return d, meta

    def absorb(self, meta):
        self.cov["evaluations"] += meta.get("evaluations", 0)
        self.cov["distinct_nontrivial"] += meta.get("distinct_nontrivial", 0)
        for s in (meta.get("samples") or [])[:3]:
            if len(self.cov["samples"]) < 8:
                self.cov["samples"].append(s)
        if meta.get("rule"):
            self.rules.append(meta["rule"])
        for k, v in (meta.get("extra") or {}).items():
            self.extra[k] = v

    # ------------------------------------------------------------ verdicts
    def candidate(self, key, what, recheck):
        """A rejected record/trace.  recheck() re-executes the scenario alone and
        returns (still_bad, artefact).  Confirmed -> violation or known finding."""
        for f in self.findings:
            if f.get("status") == "open" and f["property"] == self.pid and re.search(f["key"], key):
                if all(f is not k[0] for k in self.known):
                    self.known.append((f, key))
                return
        if len(self.violations) >= 5:
            return
        bad, art = recheck()
        if not bad:
            raise Infra("candidate %s did not reproduce in isolation (%s)" % (key, what))
        os.makedirs(REPLAYS, exist_ok=True)
        h = hashlib.sha1(key.encode()).hexdigest()[:10]
        path = os.path.join(REPLAYS, "%s-%s.json" % (self.pid, h))
        json.dump(dict(property=self.pid, key=key, what=what, tier=self.tier, seed=self.seed,
                       artefact=art), open(path, "w"), indent=1)
        self.violations.append((key, what, path))

    def finish(self, level, explanation=None):
        for f, key in self.known:
            log("KNOWN-FINDING: property=%s %s [%s]" % (self.pid, f["what"], key))
        for d in self.drift[:10]:
            log("MODEL-DRIFT: property=%s %s" % (self.pid, d))
        for key, what, path in self.violations:
            log("VIOLATION property=%s replay=%s  (%s: %s)" % (self.pid, path, key, what))
        cov = dict(self.cov)
        cov["rule"] = " | ".join(self.rules) or "n/a"
        if not cov["samples"]:
            cov["samples"] = ["(no sample recorded)"]
        if explanation:
            cov["explanation"] = explanation
        cov.update(self.extra)
        cov["known_findings_hit"] = [f["key"] for f, _ in self.known]
        cov["model_drift"] = len(self.drift)
        ev = dict(property_id=self.pid, tier=self.tier, seed=self.seed, level=level,
                  coverage=cov, assumptions=self.assumptions,
                  wall_s=round(time.time() - self.t0, 1), violations=len(self.violations))
        os.makedirs(EVID, exist_ok=True)
        if not getattr(self, "only", None):
            json.dump(ev, open(os.path.join(EVID, "%s.json" % self.pid), "w"), indent=1)
        log("%s %s seed=%d: evaluations=%d distinct=%d states=%d traces=%d wall=%.1fs -> %s" % (
            self.pid, self.tier, self.seed, cov["evaluations"], cov["distinct_nontrivial"],
            cov["states"], cov["traces_validated_against_impl"], ev["wall_s"],
            "VIOLATION" if self.violations else "ok"))
        return 1 if self.violations else 0


def load_known():
    p = os.path.join(VERIF, "known_findings.json")
    if not os.path.exists(p):
        return []
    return json.load(open(p)).get("findings", [])


# ---------------------------------------------------------------- TLC

def java(args, cwd, env=None, timeout=3600, xmx="4g", deque=False):
    e = dict(os.environ)
    if env:
        e.update(env)
    opts = ["-XX:+UseParallelGC", "-Xmx" + xmx, "-Xss64m"]
    if deque:
        opts.append("-Dtlc2.tool.queue.IStateQueue=StateDeque")
    cmd = ["java"] + opts + ["-cp", JAR, "tlc2.TLC", "-noGenerateSpecTE"] + args
    try:
        p = subprocess.run(cmd, cwd=cwd, env=e, capture_output=True, text=True, timeout=timeout)
    except subprocess.TimeoutExpired:
        raise Infra("TLC timed out after %ds: %s" % (timeout, " ".join(args)))
    return p.returncode, p.stdout + p.stderr


_noise = re.compile(r"^(Semantic processing|Linting of|Parsing file|Warning: Please run|\(Use the -nowarning)")


def clean(out):
    return "\n".join(l for l in out.splitlines() if not _noise.match(l))


def tlc_model(run, module, cfg=None, workers=8, timeout=3600, xmx="8g", extra=(), expect_ok=True):
    """Exhaustive TLC run of spec/<module>.tla with spec/<cfg>.cfg.  Returns dict with
    states/transitions; an invariant violation in the *model* is infrastructure trouble
    (the model does not depend on /repo) unless expect_ok is False."""
    cfg = cfg or module
    md = os.path.join(run.work, "md-%s-%s" % (module, cfg))
    args = ["-metadir", md, "-workers", str(workers), "-config", cfg + ".cfg", "-nowarning"]
    args += list(extra) + [module + ".tla"]
    t = time.time()
    rc, out = java(args, SPEC, timeout=timeout, xmx=xmx)
    shutil.rmtree(md, ignore_errors=True)
    m = re.search(r"(\d+) states generated, (\d+) distinct states found", out)
    res = dict(module=module, cfg=cfg, rc=rc, generated=int(m.group(1)) if m else 0,
               distinct=int(m.group(2)) if m else 0, wall_s=round(time.time() - t, 1), out=clean(out))
    ok = rc == 0 and "No error has been found" in out
    res["ok"] = ok
    if expect_ok and not ok:
        raise Infra("model %s/%s failed (rc=%d):\n%s" % (module, cfg, rc, clean(out)[-4000:]))
    if expect_ok:
        run.cov["states"] += res["distinct"]
        run.cov["transitions"] += res["generated"]
        run.extra.setdefault("models", []).append(
            dict(module=module, cfg=cfg, distinct=res["distinct"], generated=res["generated"],
                 wall_s=res["wall_s"]))
    return res


_badre = re.compile(r'<<\s*(\d+),\s*"([^"]*)"\s*>>')


def tlc_records_one(run, module, path, timeout=1800, xmx="4g"):
    md = path + ".md"
    args = ["-metadir", md, "-workers", "1", "-nowarning", "-config", module + ".cfg", module + ".tla"]
    rc, out = java(args, SPEC, env={"VERIF_FILE": path}, timeout=timeout, xmx=xmx)
    shutil.rmtree(md, ignore_errors=True)
    m = re.search(r'"VERIF-RECORDS",\s*(\d+)', out)
    if not m:
        raise Infra("TLC could not read %s with %s:\n%s" % (path, module, clean(out)[-3000:]))
    n = int(m.group(1))
    i = out.find('"VERIF-BAD"')
    if i < 0:
        raise Infra("TLC evaluation error judging %s with %s:\n%s" % (path, module, clean(out)[-3000:]))
    j = out.find("\nComputing initial", i)
    k = out.find("\nError:", i)
    ends = [x for x in (j, k) if x >= 0]
    seg = out[i:min(ends)] if ends else out[i:]
    bad = [(int(a), b) for a, b in _badre.findall(seg)]
    if not bad and "Assumption" in out and "is false" in out:
        raise Infra("assumption failed but no bad record parsed:\n" + clean(out)[-3000:])
    if rc != 0 and not bad:
        raise Infra("TLC failed judging %s (rc=%d):\n%s" % (path, rc, clean(out)[-3000:]))
    return n, bad


def tlc_records(run, module, files, par=6):
    """Judge record files with a variable-free module; returns (n, [(file, idx, key)])."""
    total, bad = 0, []
    files = files or []
    with ThreadPoolExecutor(max_workers=par) as ex:
        for f, (n, b) in zip(files, ex.map(lambda f: tlc_records_one(run, module, f), files)):
            total += n
            bad += [(f, i, k) for i, k in b]
    return total, bad


def tlc_trace_one(run, module, path, cfg=None, timeout=3600, xmx="4g"):
    """Validate one ndjson file of concatenated traces against a trace spec (single
    pass; the spec skips a rejected trace and records it).  Returns
    (events, [(line, why)]) - line = 1-based line of the rejected event."""
    md = path + ".md"
    args = ["-metadir", md, "-workers", "1", "-nowarning", "-config", (cfg or module) + ".cfg",
            module + ".tla"]
    rc, out = java(args, SPEC, env={"VERIF_FILE": path}, timeout=timeout, xmx=xmx)
    shutil.rmtree(md, ignore_errors=True)
    m = re.search(r'"VERIF-TRACE",\s*(\d+)', out)
    if not m:
        raise Infra("TLC could not read trace %s with %s:\n%s" % (path, module, clean(out)[-3000:]))
    n = int(m.group(1))
    i = out.find('"VERIF-DONE"')
    if i < 0 or rc != 0:
        raise Infra("trace validation of %s with %s did not complete (rc=%d; evaluation error?):\n%s" % (
            path, module, rc, clean(out)[-4000:]))
    j = out.find("Model checking completed", i)
    seg = out[i:j if j > 0 else len(out)]
    cnt = int(re.search(r'"VERIF-DONE",\s*(\d+)', seg).group(1))
    rej = [(int(a), b) for a, b in re.findall(r'<<\s*(\d+),\s*"([^"]*)"\s*>>', seg)]
    if len(rej) != cnt:
        raise Infra("could not parse rejections (%d vs %d):\n%s" % (len(rej), cnt, seg[:2000]))
    return n, rej


def split_traces(path):
    """An ndjson trace file -> list of (key, first_line_no, [lines]); a trace starts at ev=setup."""
    traces = []
    for i, line in enumerate(open(path), 1):
        if '"ev":"setup"' in line:
            key = json.loads(line).get("key", "?")
            traces.append((key, i, []))
        traces[-1][2].append(line)
    return traces


def tlc_traces(run, module, files, cfg=None, par=6):
    """Validate trace files.  Returns (ntraces, nevents, [(key, event_in_trace, lines, why)])."""
    def one(f):
        traces = split_traces(f)
        n, rej = tlc_trace_one(run, module, f, cfg)
        out = []
        for line, why in rej:
            for key, first, lines in traces:
                if first <= line < first + len(lines):
                    out.append((key, line - first, lines, why))
                    break
            else:
                raise Infra("cannot locate rejected line %d in %s" % (line, f))
        return len(traces), n, out

    nt = ne = 0
    rejected = []
    files = files or []
    with ThreadPoolExecutor(max_workers=par) as ex:
        for a, b, c in ex.map(one, files):
            nt += a
            ne += b
            rejected += c
    return nt, ne, rejected


def tlc_trace_nd_one(run, module, path, cfg=None, timeout=3600, xmx="4g"):
    """Trace spec with silent/nondeterministic steps: accepted iff some path consumes every
    line (high-water mark kept with TLCSet/TLCGet, -workers 1).  Returns (n, mark, out)."""
    md = path + ".md"
    args = ["-metadir", md, "-workers", "1", "-nowarning", "-config", (cfg or module) + ".cfg",
            module + ".tla"]
    rc, out = java(args, SPEC, env={"VERIF_FILE": path}, timeout=timeout, xmx=xmx)
    shutil.rmtree(md, ignore_errors=True)
    m = re.search(r'"VERIF-TRACE",\s*(\d+)', out)
    m2 = re.findall(r'"VERIF-MARK",\s*(\d+)', out)
    if not m or not m2:
        raise Infra("trace validation of %s with %s did not complete (rc=%d):\n%s" % (
            path, module, rc, clean(out)[-4000:]))
    inv = re.search(r"Invariant (\w+) is violated", out)
    return int(m.group(1)), int(m2[-1]), (inv.group(1) if inv else "")


def tlc_traces_nd(run, module, files, cfg=None, max_rejects=8):
    """Like tlc_traces for nondeterministic trace specs: on a rejection the offending trace is
    located through the high-water mark, dropped, and the rest is validated again."""
    nt = ne = 0
    rejected = []
    for f in files:
        traces = split_traces(f)
        nt += len(traces)
        cur = f
        rounds = 0
        while traces:
            n, mark, inv = tlc_trace_nd_one(run, module, cur, cfg)
            if rounds == 0:
                ne += n
            if mark >= n and not inv:
                break
            pos = 0
            idx = None
            for ti, (key, first, lines) in enumerate(traces):
                if pos + len(lines) >= mark + 1:
                    idx = ti
                    break
                pos += len(lines)
            if idx is None:
                raise Infra("cannot locate rejected line %d in %s" % (mark + 1, cur))
            key, first, lines = traces.pop(idx)
            why = ("invariant %s violated" % inv) if inv else "no behaviour of the specification explains the next event"
            rejected.append((key, mark + 1 - pos, lines, why))
            rounds += 1
            if rounds >= max_rejects:
                break
            cur = f + ".r%d" % rounds
            with open(cur, "w") as o:
                for _, _, ls in traces:
                    o.writelines(ls)
    return nt, ne, rejected


def tlc_simulate(run, module, cfg, num, depth, outdir, timeout=1200):
    """TLC -simulate: writes one file per behaviour into outdir; returns the list of files."""
    os.makedirs(outdir, exist_ok=True)
    md = os.path.join(run.work, "md-sim-%s" % cfg)
    args = ["-metadir", md, "-workers", "1", "-nowarning", "-simulate", "file=%s/b,num=%d" % (outdir, num),
            "-depth", str(depth), "-seed", str(run.seed), "-config", cfg + ".cfg", module + ".tla"]
    rc, out = java(args, SPEC, timeout=timeout)
    shutil.rmtree(md, ignore_errors=True)
    files = sorted(glob.glob(os.path.join(outdir, "b_*")))
    if not files:
        raise Infra("TLC -simulate produced no behaviours:\n" + clean(out)[-2000:])
    if "Invariant" in out and "violated" in out:
        raise Infra("the model violates an invariant in simulation:\n" + clean(out)[-3000:])
    return files


def seed_tier(argv):
    seed = int(os.environ.get("VERIF_SEED", "1") or "1")
    return seed
