#!/bin/bash
# tools/seedtest.sh <seed-dir> [checks...]
#   <seed-dir> holds patch.diff, demo_test.go, meta.json (as delivered by a sub-agent or kept under /verif/seeded/<id>).
# 1. confirms the seed in a scratch worktree of /repo (outside /repo and /verif): suite passes with the patch,
#    demo fails with it and passes without it;
# 2. applies the patch to /repo, runs the given checks (default: the seed's property, quick), undoes the patch.
set -u
seed="$(cd "$1" && pwd)"; shift
export GOFLAGS=-mod=mod GOPROXY=off GOSUMDB=off GOTOOLCHAIN=local
prop=$(python3 -c "import json;print(json.load(open('$seed/meta.json'))['property'])")
dest=$(python3 -c "import json;print(json.load(open('$seed/meta.json'))['demo_dest'])")
cmd=$(python3 -c "import json;print(json.load(open('$seed/meta.json'))['demo_cmd'])")
wt=$(mktemp -d /tmp/seedcheck.XXXXXX)
git -C /repo worktree add -q --detach "$wt" HEAD || exit 2
cleanup() { git -C /repo worktree remove --force "$wt" 2>/dev/null; rm -rf "$wt"; }
trap cleanup EXIT
cd "$wt"
gotest=$(python3 -c "
import json,re
c=json.load(open('$seed/meta.json'))['demo_cmd']
m=re.search(r'go test [^;&|]*', c)
print(m.group(0).strip() if m else 'false')")
rundemo() { (cd "$wt" && cp "$seed/demo_test.go" "$wt/$dest" && eval "$gotest" >"$wt/demo.out" 2>&1; rc=$?; rm -f "$wt/$dest"; return $rc); }
echo "   demo: $dest :: $gotest"
echo "== demo without patch (must pass)"
if rundemo; then echo "   pass"; else echo "   FAILS WITHOUT PATCH"; tail -5 "$wt/demo.out"; fi
echo "== apply patch"
git apply "$seed/patch.diff" || { echo "patch does not apply"; exit 2; }
echo "== existing suite with patch (must pass)"
if go test -vet=off -count=1 ./... >"$wt/suite.out" 2>&1; then echo "   pass"; else echo "   SUITE FAILS"; tail -8 "$wt/suite.out"; fi
echo "== demo with patch (must fail)"
if rundemo; then echo "   DEMO PASSES WITH PATCH"; else echo "   fails (good)"; fi
cd /verif
echo "== checks against /repo with the patch applied"
git -C /repo apply "$seed/patch.diff" || { echo "patch does not apply to /repo"; exit 2; }
checks="${*:-$prop}"
for c in $checks; do
  out=$(tools/check "$c" quick 2>&1); rc=$?
  echo "   $c quick -> exit $rc :: $(echo "$out" | grep -E 'VIOLATION|INFRA|KNOWN' | head -2 | cut -c1-220)"
done
git -C /repo checkout -- .
git -C /repo status --short | head -3
