#!/usr/bin/env python3
"""Independent DEFLATE oracle (Python zlib) for C12.
  gen <dir> <tier> <seed>   : write in_<i>.bin (raw deflate, sync-flushed, 00 00 ff ff removed) and orig_<i>.bin
  judge <records.ndjson>... : fill inflateOK of every 'deflate' record by inflating wire + 00 00 ff ff"""
import json
import os
import random
import sys
import zlib

TAIL = b"\x00\x00\xff\xff"


def payloads(tier, seed):
    rnd = random.Random(seed)
    rb = lambda n: bytes(rnd.getrandbits(8) for _ in range(n))
    far = rb(3000) + bytes(40000)
    far += far[:3000]
    ps = [b"", b"x", b"Hello, permessage-deflate! " * 3, rb(1024), bytes(100 * 1024), far,
          b"lorem ipsum dolor sit amet, " * 150, bytes([255]) * 300]
    if tier == "thorough":
        ps += [rb(70000), bytes(1), rb(5) * 5000, bytes(range(256)) * 40]
    return ps


def gen(d, tier, seed):
    os.makedirs(d, exist_ok=True)
    i = 0
    for p in payloads(tier, seed):
        for level in (0, 1, 6, 9):
            for strategy in (zlib.Z_DEFAULT_STRATEGY, zlib.Z_HUFFMAN_ONLY, zlib.Z_FIXED):
                if tier != "thorough" and strategy != zlib.Z_DEFAULT_STRATEGY and level != 6:
                    continue
                c = zlib.compressobj(level, zlib.DEFLATED, -15, 8, strategy)
                data = c.compress(p) + c.flush(zlib.Z_SYNC_FLUSH)
                assert data.endswith(TAIL)
                # self-check of the oracle
                assert zlib.decompressobj(-15).decompress(data) == p
                open(os.path.join(d, "in_%03d.bin" % i), "wb").write(data[:-4])
                open(os.path.join(d, "orig_%03d.bin" % i), "wb").write(p)
                i += 1
    print("generated", i)


def judge(files):
    n = ok = 0
    for f in files:
        out = []
        for line in open(f):
            r = json.loads(line)
            if r.get("k") == "deflate":
                wire = open(r["wire"], "rb").read()
                msg = open(r["msg"], "rb").read()
                try:
                    got = zlib.decompressobj(-15).decompress(wire + TAIL)
                    r["inflateOK"] = got == msg
                except Exception as e:  # not a DEFLATE stream at all
                    r["inflateOK"] = False
                    r["inflateErr"] = str(e)
                n += 1
                ok += r["inflateOK"]
            out.append(json.dumps(r))
        open(f, "w").write("\n".join(out) + "\n")
    print("judged", n, "ok", ok)


if __name__ == "__main__":
    if sys.argv[1] == "gen":
        gen(sys.argv[2], sys.argv[3], int(sys.argv[4]))
    else:
        judge(sys.argv[2:])
