#!/usr/bin/env python3
"""showtrace.py file line  - print the trace containing the given (1-based) line, compactly."""
import json, sys
f, line = sys.argv[1], int(sys.argv[2])
lines = open(f).read().splitlines()
i = line - 1
j = i
while '"ev":"setup"' not in lines[j]:
    j -= 1
for k in range(j, min(i + 2, len(lines))):
    e = json.loads(lines[k])
    if e['ev'] == 'setup':
        d = {x: e[x] for x in e if x not in ('frames',)}
        print(k + 1, 'SETUP', json.dumps(d)[:600])
        for fi, fr in enumerate(e.get('frames', []), 1):
            fr = dict(fr); p = fr.pop('pay', []); fr.pop('mask', None)
            print('     F%d' % fi, json.dumps(fr), 'pay', p[:8], '...' if len(p) > 8 else '')
    else:
        d = {x: v for x, v in e.items() if v not in ([], '', 0, False, -1, None) and x not in ('hdr',)}
        if 'data' in d and len(d['data']) > 10: d['data'] = d['data'][:10] + ['...']
        if 'hdr' in e and e['ev'] in ('NextFrame',): d['hdr'] = e['hdr']
        print(k + 1, json.dumps(d)[:700])
